#!/usr/bin/env python3
"""Runs every check against behaviour-preserving refactorings (patches produced by
independent sub-agents) applied to a scratch worktree — never to /repo — and records
which checks raise an alarm they do not raise on the unchanged tree (false alarms).
usage: tools_benign.py <set-name> <dir-with-*.diff> [worktree]
Stores /verif/benign/<set>-<i>/{patch.diff, result.json}."""
import sys, os, re, json, glob, subprocess, shutil
setname, src = sys.argv[1], sys.argv[2]
import os
YV = os.environ.get('YV', '/verif/bin/yv')
wt = sys.argv[3] if len(sys.argv) > 3 else '/tmp/wt-dev'
def sh(cmd, **kw):
    return subprocess.run(cmd, shell=True, capture_output=True, text=True, errors='replace', **kw)
head = sh('git -C /repo rev-parse HEAD').stdout.strip()
sh('git -C %s checkout -q --detach %s && git -C %s checkout -- . && git -C %s clean -fdq' % (wt, head, wt, wt))
readme = {}
rp = os.path.join(src, 'README.md')
if os.path.exists(rp):
    for l in open(rp, errors='replace'):
        m = re.match(r'\s*(\d+)\s*[:.]\s*(.*)', l)
        if m: readme[m.group(1)] = m.group(2).strip()
def alarms(out):
    return sorted(set(l.strip() for l in out.splitlines() if re.match(r'\s*(rule \S+ at|ERROR|UNDECIDED)', l)))
base = alarms(sh(YV + ' check -p all -repo %s -evidence /tmp/ev-benign' % wt).stdout)
base_keys = set(re.sub(r' at \S*:', ' at :', a) for a in base)
total = bad = 0
for d in sorted(glob.glob(os.path.join(src, '*.diff')), key=lambda p: int(re.sub(r'\D', '', os.path.basename(p)) or 0)):
    i = re.sub(r'\D', '', os.path.basename(d))
    r = sh('git -C %s apply %s' % (wt, d))
    if r.returncode != 0:
        print(setname, i, 'patch does not apply:', r.stderr.strip()[:200]); continue
    b = sh('cd %s && GOFLAGS=-mod=mod GOPROXY=off go build ./...' % wt)
    out = sh(YV + ' check -p all -repo %s -evidence /tmp/ev-benign' % wt).stdout
    new = [a for a in alarms(out) if re.sub(r' at \S*:', ' at :', a) not in base_keys]
    sh('git -C %s checkout -- . && git -C %s clean -fdq' % (wt, wt))
    total += 1
    dst = '/verif/benign/%s-%s' % (setname, i)
    os.makedirs(dst, exist_ok=True)
    shutil.copy(d, os.path.join(dst, 'patch.diff'))
    res = {'id': '%s-%s' % (setname, i), 'what': readme.get(i, ''), 'base_commit': head, 'builds': b.returncode == 0, 'new_alarms': new}
    json.dump(res, open(os.path.join(dst, 'result.json'), 'w'), indent=1, ensure_ascii=False)
    if new:
        bad += 1
        print(setname, i, 'FALSE ALARM(S):'); [print('   ', a[:220]) for a in new]
    else:
        print(setname, i, 'silent', '' if b.returncode == 0 else '(does not build!)')
print('%d refactorings, %d with new alarms' % (total, bad))
