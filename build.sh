#!/bin/sh
# Builds the checker from the vendored sources only (offline).
set -e
cd /verif/checker
GOTOOLCHAIN=local GOFLAGS=-mod=vendor GOPROXY=off GOWORK=off go1.26.8 build -o /verif/bin/yv ./cmd/yv
