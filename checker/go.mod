module yv

go 1.26.8

require golang.org/x/tools v0.50.0

require (
	golang.org/x/mod v0.41.0 // indirect
	golang.org/x/sync v0.23.0 // indirect
)
