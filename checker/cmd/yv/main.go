// Command yv decides the yorkie properties by static analysis of /repo's
// current working tree.
package main

import (
	"encoding/json"
	"flag"
	"fmt"
	"go/token"
	"os"
	"path/filepath"
	"strconv"
	"strings"
	"time"

	"yv/internal/prog"
	"yv/internal/report"
	"yv/internal/rules"
)

func main() {
	if len(os.Args) < 2 {
		usage()
	}
	switch os.Args[1] {
	case "check":
		os.Exit(check(os.Args[2:]))
	case "explain":
		os.Exit(explain(os.Args[2:]))
	case "anchors":
		os.Exit(anchors(os.Args[2:]))
	case "list":
		if len(os.Args) > 2 && os.Args[2] == "-json" {
			out := map[string]any{}
			for _, id := range rules.Properties() {
				p := rules.Get(id)
				out[id] = map[string]any{"rules": p.Rules, "explanation": p.Explanation, "rule_text": rules.RuleText(p)}
			}
			b, _ := json.MarshalIndent(out, "", " ")
			fmt.Println(string(b))
			return
		}
		for _, id := range rules.Properties() {
			p := rules.Get(id)
			fmt.Printf("%s %s\n", id, strings.Join(p.Rules, " "))
		}
	default:
		usage()
	}
}

// anchors runs every rule once on the reference tree and writes the signature of each
// unexported function anchor (the table embedded as internal/prog/anchor_sigs.json).
func anchors(args []string) int {
	fs := flag.NewFlagSet("anchors", flag.ExitOnError)
	repo := fs.String("repo", "/repo", "repository to analyse")
	out := fs.String("out", "", "file to write")
	fs.Parse(args)
	p, err := prog.Load(*repo, nil)
	if err != nil {
		fmt.Fprintf(os.Stderr, "NOT-ANALYSABLE %v\n", err)
		return 2
	}
	for _, id := range rules.Properties() {
		rules.Run(p, rules.Get(id), "quick")
	}
	tab := map[string]string{}
	for spec, sig := range p.SeenSigs {
		name := spec[strings.LastIndex(spec, ".")+1:]
		if name != "" && !token.IsExported(name) {
			tab[spec] = sig
		}
	}
	b, _ := json.MarshalIndent(tab, "", " ")
	if *out == "" {
		fmt.Println(string(b))
		return 0
	}
	if err := os.WriteFile(*out, append(b, '\n'), 0o644); err != nil {
		fmt.Fprintln(os.Stderr, err)
		return 2
	}
	fmt.Printf("%d unexported anchors\n", len(tab))
	return 0
}

func usage() {
	fmt.Fprintln(os.Stderr, "usage: yv check -p <id>[,<id>…|all] [-tier quick|thorough] [-repo /repo] | yv explain <violation.json> | yv list")
	os.Exit(2)
}

type overlayFlag map[string][]byte

func (o overlayFlag) String() string { return "" }
func (o overlayFlag) Set(s string) error {
	i := strings.Index(s, "=")
	if i < 0 {
		return fmt.Errorf("want path=file")
	}
	b, err := os.ReadFile(s[i+1:])
	if err != nil {
		return err
	}
	o[s[:i]] = b
	return nil
}

func verifRoot() string {
	if v := os.Getenv("YV_VERIF"); v != "" {
		return v
	}
	return "/verif"
}

func check(args []string) int {
	fs := flag.NewFlagSet("check", flag.ExitOnError)
	props := fs.String("p", "", "property id(s), comma separated, or all")
	tier := fs.String("tier", "", "quick|thorough")
	repo := fs.String("repo", "/repo", "repository to analyse")
	evdir := fs.String("evidence", filepath.Join(verifRoot(), "evidence"), "evidence directory")
	known := fs.String("known", filepath.Join(verifRoot(), "known_findings.json"), "known findings file")
	noSelf := fs.Bool("noselftest", false, "skip the variant self-test in the thorough tier")
	verbose := fs.Bool("v", false, "print every obligation")
	ov := overlayFlag{}
	fs.Var(ov, "overlay", "repo-relative-path=file: analyse the tree with this file replaced (self-test)")
	fs.Parse(args)
	if *tier == "" {
		*tier = os.Getenv("VERIF_TIER")
	}
	if *tier != "thorough" {
		*tier = "quick"
	}
	seed, _ := strconv.Atoi(os.Getenv("VERIF_SEED"))
	var ids []string
	if *props == "all" {
		ids = rules.Properties()
	} else {
		for _, id := range strings.Split(*props, ",") {
			if rules.Get(id) == nil {
				fmt.Fprintf(os.Stderr, "unknown or unclaimed property %q\n", id)
				return 2
			}
			ids = append(ids, id)
		}
	}
	if len(ids) == 0 {
		usage()
	}
	start := time.Now()
	overlay := map[string][]byte{}
	for k, v := range ov {
		overlay[filepath.Join(*repo, k)] = v
	}
	p, err := prog.Load(*repo, overlay)
	if err != nil {
		fmt.Fprintf(os.Stderr, "NOT-ANALYSABLE %v\n", err)
		return 2
	}
	p.UseVTA = *tier == "thorough"
	loadS := time.Since(start).Seconds()
	kf, err := report.LoadKnown(*known)
	if err != nil {
		fmt.Fprintf(os.Stderr, "known findings: %v\n", err)
		return 2
	}
	rc := 0
	for _, id := range ids {
		t0 := time.Now()
		prop := rules.Get(id)
		c := rules.Run(p, prop, *tier)
		for spec, name := range p.Resolved {
			c.Notes = append(c.Notes, "anchor "+spec+" no longer resolves by name; resolved by its signature to "+name)
		}
		extra := map[string]any{"load_s": loadS, "callgraph": p.CGKindIfBuilt(), "repo": *repo}
		if *tier == "thorough" && !*noSelf && len(ov) == 0 {
			st := rules.SelfTest(id, *repo, verifRoot())
			extra["selftest"] = st.Rows
			extra["selftest_killed"] = st.Killed
			extra["selftest_total"] = st.Total
			for _, e := range st.Errors {
				c.Errors = append(c.Errors, e)
			}
			// the stored seeded changes of independent sub-agents, through the overlay
			ss := rules.SelfTestSeeded(id, *repo, verifRoot())
			extra["selftest_seeded"] = ss.Rows
			extra["selftest_seeded_killed"] = ss.Killed
			extra["selftest_seeded_total"] = ss.Total
			for _, e := range ss.Errors {
				c.Errors = append(c.Errors, e)
			}
			// the stored behaviour-preserving refactorings must stay silent
			baseKeys := map[string]bool{}
			for _, o := range c.Obs {
				if o.Status != report.Held {
					baseKeys[o.Key] = true
				}
			}
			sb := rules.SelfTestBenign(id, *repo, verifRoot(), baseKeys)
			extra["selftest_benign"] = sb.Rows
			extra["selftest_benign_silent"] = sb.Killed
			extra["selftest_benign_total"] = sb.Total
			for _, e := range sb.Errors {
				c.Errors = append(c.Errors, e)
			}
		}
		wall := time.Since(t0).Seconds() + loadS
		out, err := report.Finish(c, id, *tier, seed, wall, prop.Explanation, prop.Assumptions,
			rules.RuleText(prop), extra, kf, *evdir)
		if err != nil {
			fmt.Fprintf(os.Stderr, "evidence: %v\n", err)
			return 2
		}
		if *verbose {
			for _, o := range c.Obs {
				fmt.Printf("  %-9s %s  [%s] %s\n", o.Status, o.Key, o.Pos, o.Detail)
			}
		}
		for _, k := range out.Known {
			fmt.Printf("KNOWN-FINDING: property=%s %s — %s [%s]\n", id, k.Key, k.KnownRef, k.Pos)
		}
		for _, v := range out.Violations {
			fmt.Printf("VIOLATION property=%s replay=%s\n", id, report.ViolationPath(*evdir, id, v.Key))
			fmt.Printf("  rule %s at %s: %s\n    %s\n", v.Rule, v.Pos, v.Key, v.Detail)
		}
		for _, u := range out.Undecided {
			fmt.Printf("UNDECIDED property=%s %s at %s: %s\n", id, u.Key, u.Pos, u.Detail)
		}
		for _, e := range out.Errors {
			fmt.Printf("ERROR property=%s %s\n", id, e)
		}
		held := 0
		for _, o := range c.Obs {
			if o.Status == report.Held {
				held++
			}
		}
		fmt.Printf("%s tier=%s obligations=%d held=%d known=%d violations=%d undecided=%d errors=%d (%.1fs)\n",
			id, *tier, len(c.Obs), held, len(out.Known), len(out.Violations), len(out.Undecided), len(out.Errors), wall)
		if len(out.Violations) > 0 {
			rc = 1
		} else if (len(out.Undecided) > 0 || len(out.Errors) > 0) && rc == 0 {
			rc = 2
		}
	}
	return rc
}

func explain(args []string) int {
	if len(args) < 1 {
		usage()
	}
	b, err := os.ReadFile(args[0])
	if err != nil {
		fmt.Fprintln(os.Stderr, err)
		return 2
	}
	var rec map[string]any
	if err := json.Unmarshal(b, &rec); err != nil {
		fmt.Fprintln(os.Stderr, err)
		return 2
	}
	fmt.Printf("property : %v\nrule     : %v\n  %v\ninstance : %v\nat       : %v\nwhat     : %v\n",
		rec["property"], rec["rule"], rec["rule_text"], rec["key"], rec["pos"], rec["detail"])
	// re-decide the instance on the current tree
	id, _ := rec["property"].(string)
	key, _ := rec["key"].(string)
	prop := rules.Get(id)
	if prop == nil {
		return 2
	}
	repo := "/repo"
	if len(args) > 1 {
		repo = args[1]
	}
	p, err := prog.Load(repo, nil)
	if err != nil {
		fmt.Fprintf(os.Stderr, "NOT-ANALYSABLE %v\n", err)
		return 2
	}
	c := rules.Run(p, prop, "quick")
	for _, o := range c.Obs {
		if o.Key == key {
			fmt.Printf("now      : %s at %s — %s\n", o.Status, o.Pos, o.Detail)
			if o.Status == report.Violated {
				return 1
			}
			return 0
		}
	}
	fmt.Println("now      : the instance no longer exists on the current tree")
	return 0
}
