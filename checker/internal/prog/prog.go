// Package prog loads the analysed repository (type-checked syntax + SSA) and offers
// the anchor-resolution helpers the rules are written against.
package prog

import (
	_ "embed"
	"encoding/json"
	"fmt"
	"go/ast"
	"go/token"
	"go/types"
	"os"
	"path/filepath"
	"sort"
	"strings"
	"sync"

	"golang.org/x/tools/go/callgraph"
	"golang.org/x/tools/go/callgraph/cha"
	"golang.org/x/tools/go/callgraph/vta"
	"golang.org/x/tools/go/packages"
	"golang.org/x/tools/go/ssa"
	"golang.org/x/tools/go/ssa/ssautil"
)

// Mod is the module path of the analysed repository.
const Mod = "github.com/yorkie-team/yorkie"

// Program is the loaded, type-checked and SSA-built repository.
type Program struct {
	Dir   string
	Fset  *token.FileSet
	Pkgs  []*packages.Package          // root packages (./...)
	ByPth map[string]*packages.Package // all packages by import path
	SSA   *ssa.Program
	Roots int
	Total int

	allFuncs map[*ssa.Function]bool
	modFuncs []*ssa.Function

	cgOnce sync.Once
	cg     *callgraph.Graph
	cgKind string

	UseVTA bool

	pdMu sync.Mutex
	pd   map[*ssa.Function]*PostDom

	implMu    sync.Mutex
	implCache map[*types.Func][]*ssa.Function
	modTypes  []*types.Named

	// anchor signatures: what every function anchor resolved to on the reference tree
	// (anchor_sigs.json, embedded). An unexported anchor that no longer resolves by name
	// is looked for by signature among the unexported functions of the same receiver
	// (or package) that are not anchors themselves; a unique match is taken and noted.
	anchorMu   sync.Mutex
	SeenSigs   map[string]string // spec -> signature, recorded on successful resolution
	Resolved   map[string]string // spec -> name it was resolved to by signature
	anchorSigs map[string]string
}

//go:embed anchor_sigs.json
var anchorSigsJSON []byte

// Load type-checks ./... of dir (production files only) and builds SSA. A tree that
// does not load or type-check is an error: it cannot be analysed.
func Load(dir string, overlay map[string][]byte) (*Program, error) {
	env := []string{}
	for _, e := range os.Environ() {
		if strings.HasPrefix(e, "GOTOOLCHAIN=") || strings.HasPrefix(e, "GOFLAGS=") ||
			strings.HasPrefix(e, "GOWORK=") || strings.HasPrefix(e, "GOPROXY=") || strings.HasPrefix(e, "GOSUMDB=") {
			continue
		}
		env = append(env, e)
	}
	// The repository needs the go1.25 toolchain: let `go list` auto-switch to the
	// cached one exactly as the baseline build does.
	env = append(env, "GOFLAGS=-mod=mod", "GOPROXY=off", "GOWORK=off", "GOTOOLCHAIN=auto")
	cfg := &packages.Config{
		Mode:    packages.LoadAllSyntax,
		Dir:     dir,
		Env:     env,
		Overlay: overlay,
		Tests:   false,
	}
	pkgs, err := packages.Load(cfg, "./...")
	if err != nil {
		return nil, fmt.Errorf("load: %w", err)
	}
	p := &Program{Dir: dir, Pkgs: pkgs, ByPth: map[string]*packages.Package{}, pd: map[*ssa.Function]*PostDom{}}
	var errs []string
	packages.Visit(pkgs, nil, func(pk *packages.Package) {
		p.ByPth[pk.PkgPath] = pk
		p.Total++
		if strings.HasPrefix(pk.PkgPath, Mod) {
			for _, e := range pk.Errors {
				errs = append(errs, e.Error())
			}
		}
	})
	if len(errs) > 0 {
		sort.Strings(errs)
		if len(errs) > 10 {
			errs = errs[:10]
		}
		return nil, fmt.Errorf("the tree does not type-check:\n  %s", strings.Join(errs, "\n  "))
	}
	p.Roots = len(pkgs)
	if p.Roots < 60 {
		return nil, fmt.Errorf("only %d root packages loaded from %s (expected >= 60)", p.Roots, dir)
	}
	if len(pkgs) > 0 {
		p.Fset = pkgs[0].Fset
	}
	p.SSA, _ = ssautil.AllPackages(pkgs, ssa.InstantiateGenerics)
	p.SSA.Build()
	p.allFuncs = ssautil.AllFunctions(p.SSA)
	for fn := range p.allFuncs {
		if p.InModule(fn) && fn.Blocks != nil {
			if s := fn.Synthetic; strings.HasPrefix(s, "wrapper") || strings.HasPrefix(s, "bound") || strings.HasPrefix(s, "thunk") {
				continue // compiler-made forwarding functions: no source of their own
			}
			p.modFuncs = append(p.modFuncs, fn)
		}
	}
	// generic functions are reachable only through their instantiations: add the
	// (uninstantiated) origins, which carry the source-level body once
	have := map[*ssa.Function]bool{}
	for _, fn := range p.modFuncs {
		have[fn] = true
	}
	for _, fn := range append([]*ssa.Function{}, p.modFuncs...) {
		for o := fn.Origin(); o != nil && !have[o] && o.Blocks != nil; o = nil {
			have[o] = true
			p.modFuncs = append(p.modFuncs, o)
			for _, a := range o.AnonFuncs {
				if !have[a] && a.Blocks != nil {
					have[a] = true
					p.modFuncs = append(p.modFuncs, a)
				}
			}
		}
	}
	sort.Slice(p.modFuncs, func(i, j int) bool {
		a, b := p.modFuncs[i], p.modFuncs[j]
		if a.String() != b.String() {
			return a.String() < b.String()
		}
		return a.Pos() < b.Pos()
	})
	return p, nil
}

// PkgOf returns the package path a function belongs to (following closures and
// generic instantiations to their origin).
func PkgOf(fn *ssa.Function) string {
	for fn != nil {
		if fn.Pkg != nil {
			return fn.Pkg.Pkg.Path()
		}
		if o := fn.Origin(); o != nil && o != fn {
			fn = o
			continue
		}
		if fn.Parent() != nil {
			fn = fn.Parent()
			continue
		}
		if fn.Object() != nil && fn.Object().Pkg() != nil {
			return fn.Object().Pkg().Path()
		}
		return ""
	}
	return ""
}

// InModule reports whether fn is defined in the analysed module.
func (p *Program) InModule(fn *ssa.Function) bool {
	pp := PkgOf(fn)
	return pp == Mod || strings.HasPrefix(pp, Mod+"/")
}

// IsProd reports whether a package path is production code (not a test helper).
func IsProd(pkgPath string) bool {
	if !(pkgPath == Mod || strings.HasPrefix(pkgPath, Mod+"/")) {
		return false
	}
	rel := strings.TrimPrefix(pkgPath, Mod+"/")
	if rel == "test" || strings.HasPrefix(rel, "test/") || strings.HasSuffix(rel, "/testcases") ||
		strings.HasPrefix(rel, "build/") || strings.HasPrefix(rel, "design/") {
		return false
	}
	return true
}

// ProdFuncs returns every function with a body defined in production packages of
// the module, anonymous functions and generic instantiations included, in a
// deterministic order.
func (p *Program) ProdFuncs() []*ssa.Function {
	var out []*ssa.Function
	for _, fn := range p.modFuncs {
		if IsProd(PkgOf(fn)) {
			out = append(out, fn)
		}
	}
	return out
}

// FuncsIn returns the production functions whose package path (relative to the
// module) is one of rels.
func (p *Program) FuncsIn(rels ...string) []*ssa.Function {
	var out []*ssa.Function
	for _, fn := range p.modFuncs {
		pp := strings.TrimPrefix(PkgOf(fn), Mod+"/")
		for _, r := range rels {
			if pp == r {
				out = append(out, fn)
				break
			}
		}
	}
	return out
}

// Pkg returns the types.Package for a module-relative path, or nil.
func (p *Program) Pkg(rel string) *types.Package {
	if pk := p.ByPth[Mod+"/"+rel]; pk != nil {
		return pk.Types
	}
	if pk := p.ByPth[rel]; pk != nil {
		return pk.Types
	}
	return nil
}

// Syntax returns the parsed files of a module-relative package.
func (p *Program) Syntax(rel string) (*packages.Package, bool) {
	pk := p.ByPth[Mod+"/"+rel]
	return pk, pk != nil
}

// Lookup resolves "rel/pkg.Name" to a package-level object.
func (p *Program) Lookup(spec string) types.Object {
	i := strings.LastIndex(spec, ".")
	if i < 0 {
		return nil
	}
	pk := p.Pkg(spec[:i])
	if pk == nil {
		return nil
	}
	return pk.Scope().Lookup(spec[i+1:])
}

// Named resolves "rel/pkg.Type" to its *types.Named, or nil.
func (p *Program) Named(spec string) *types.Named {
	o := p.Lookup(spec)
	if o == nil {
		return nil
	}
	n, _ := o.Type().(*types.Named)
	return n
}

// Field resolves "rel/pkg.Type.field" to the struct field object.
func (p *Program) Field(spec string) *types.Var {
	i := strings.LastIndex(spec, ".")
	if i < 0 {
		return nil
	}
	n := p.Named(spec[:i])
	if n == nil {
		return nil
	}
	st, ok := n.Underlying().(*types.Struct)
	if !ok {
		return nil
	}
	for k := 0; k < st.NumFields(); k++ {
		if st.Field(k).Name() == spec[i+1:] {
			return st.Field(k)
		}
	}
	return nil
}

// Fn resolves a function or method spec to its SSA function:
//
//	"server/packs.PushPull"                         package function
//	"pkg/document/crdt.(*RGATreeList).MoveAfter"    method (pointer or value receiver)
//	"pkg/document/crdt.RGATreeList.MoveAfter"       the same
//
// For generic types the uninstantiated (origin) method is returned.
func (p *Program) Fn(spec string) *ssa.Function {
	o := p.FnObj(spec)
	if o == nil {
		return nil
	}
	return p.SSA.FuncValue(o)
}

// FnObj resolves the same specs as Fn to the *types.Func.
func (p *Program) FnObj(spec string) *types.Func {
	f, pk, recv, name := p.fnObjByName(spec)
	p.anchorMu.Lock()
	defer p.anchorMu.Unlock()
	if p.SeenSigs == nil {
		p.SeenSigs = map[string]string{}
		p.Resolved = map[string]string{}
		p.anchorSigs = map[string]string{}
		_ = json.Unmarshal(anchorSigsJSON, &p.anchorSigs)
	}
	if f != nil {
		p.SeenSigs[spec] = sigString(f, pk)
		return f
	}
	want, known := p.anchorSigs[spec]
	if pk == nil || !known || name == "" || token.IsExported(name) {
		return nil
	}
	// names of the same scope that are anchors themselves (and resolve) are not candidates
	taken := map[string]bool{}
	for other := range p.anchorSigs {
		if g, _, _, n := p.fnObjByName(other); g != nil {
			taken[g.FullName()] = true
			_ = n
		}
	}
	var cands []*types.Func
	consider := func(g *types.Func) {
		if g == nil || g.Exported() || taken[g.FullName()] {
			return
		}
		if sigString(g, pk) == want {
			cands = append(cands, g)
		}
	}
	if recv == nil {
		for _, n := range pk.Scope().Names() {
			if g, ok := pk.Scope().Lookup(n).(*types.Func); ok {
				consider(g)
			}
		}
	} else if nt, ok := recv.Type().(*types.Named); ok {
		for i := 0; i < nt.NumMethods(); i++ {
			consider(nt.Method(i))
		}
	}
	if len(cands) == 1 {
		p.Resolved[spec] = cands[0].Name()
		return cands[0]
	}
	return nil
}

// sigString: parameter and result types only (parameter names are free to change).
func sigString(f *types.Func, pk *types.Package) string {
	sig, ok := f.Type().(*types.Signature)
	if !ok {
		return ""
	}
	q := types.RelativeTo(pk)
	tup := func(t *types.Tuple) string {
		var parts []string
		for i := 0; i < t.Len(); i++ {
			parts = append(parts, types.TypeString(t.At(i).Type(), q))
		}
		return strings.Join(parts, ", ")
	}
	v := ""
	if sig.Variadic() {
		v = " variadic"
	}
	return "(" + tup(sig.Params()) + ") (" + tup(sig.Results()) + ")" + v
}

// fnObjByName is the plain lookup; it also returns the package, the receiver type name
// (nil for a package function) and the function name the spec asks for.
func (p *Program) fnObjByName(spec string) (*types.Func, *types.Package, *types.TypeName, string) {
	// split pkg path from the rest at the first '.' after the last '/'
	slash := strings.LastIndex(spec, "/")
	dot := strings.Index(spec[slash+1:], ".")
	if dot < 0 {
		return nil, nil, nil, ""
	}
	pkgRel, rest := spec[:slash+1+dot], spec[slash+1+dot+1:]
	pk := p.Pkg(pkgRel)
	if pk == nil {
		return nil, nil, nil, ""
	}
	rest = strings.NewReplacer("(", "", ")", "", "*", "").Replace(rest)
	parts := strings.Split(rest, ".")
	switch len(parts) {
	case 1:
		f, _ := pk.Scope().Lookup(parts[0]).(*types.Func)
		return f, pk, nil, parts[0]
	case 2:
		tn, _ := pk.Scope().Lookup(parts[0]).(*types.TypeName)
		if tn == nil {
			return nil, pk, nil, ""
		}
		obj, _, _ := types.LookupFieldOrMethod(types.NewPointer(tn.Type()), true, pk, parts[1])
		f, _ := obj.(*types.Func)
		return f, pk, tn, parts[1]
	}
	return nil, pk, nil, ""
}

// IfaceMethod resolves "rel/pkg.Iface.Method" to the abstract method object.
func (p *Program) IfaceMethod(spec string) *types.Func {
	i := strings.LastIndex(spec, ".")
	if i < 0 {
		return nil
	}
	n := p.Named(spec[:i])
	if n == nil {
		return nil
	}
	it, ok := n.Underlying().(*types.Interface)
	if !ok {
		return nil
	}
	for k := 0; k < it.NumMethods(); k++ {
		if it.Method(k).Name() == spec[i+1:] {
			return it.Method(k)
		}
	}
	return nil
}

// Implementers returns the named (non-interface) types of the module's production
// packages whose pointer or value method set satisfies the interface.
func (p *Program) Implementers(iface *types.Named) []*types.Named {
	it, ok := iface.Underlying().(*types.Interface)
	if !ok {
		return nil
	}
	var out []*types.Named
	for path, pk := range p.ByPth {
		if !IsProd(path) || pk.Types == nil {
			continue
		}
		sc := pk.Types.Scope()
		for _, name := range sc.Names() {
			tn, ok := sc.Lookup(name).(*types.TypeName)
			if !ok || tn.IsAlias() {
				continue
			}
			n, ok := tn.Type().(*types.Named)
			if !ok || types.IsInterface(n) || n.TypeParams().Len() > 0 {
				continue
			}
			if types.Implements(n, it) || types.Implements(types.NewPointer(n), it) {
				out = append(out, n)
			}
		}
	}
	sort.Slice(out, func(i, j int) bool { return out[i].String() < out[j].String() })
	return out
}

// MethodOf returns the SSA function of method name on named type n (pointer
// receiver method set), or nil.
func (p *Program) MethodOf(n *types.Named, name string) *ssa.Function {
	obj, _, _ := types.LookupFieldOrMethod(types.NewPointer(n), true, n.Obj().Pkg(), name)
	f, _ := obj.(*types.Func)
	if f == nil {
		return nil
	}
	return p.SSA.FuncValue(f)
}

// Pos renders a position relative to the repository root.
func (p *Program) Pos(pos token.Pos) string {
	if !pos.IsValid() {
		return "?"
	}
	ps := p.Fset.Position(pos)
	rel, err := filepath.Rel(p.Dir, ps.Filename)
	if err != nil || strings.HasPrefix(rel, "..") {
		rel = ps.Filename
	}
	return fmt.Sprintf("%s:%d", rel, ps.Line)
}

// InstrPos returns the best position for an instruction (falls back to the
// enclosing function).
func (p *Program) InstrPos(ins ssa.Instruction) string {
	if ins.Pos().IsValid() {
		return p.Pos(ins.Pos())
	}
	if v, ok := ins.(ssa.Value); ok {
		if rs := v.Referrers(); rs != nil {
			for _, r := range *rs {
				if r.Pos().IsValid() {
					return p.Pos(r.Pos())
				}
			}
		}
	}
	return p.Pos(ins.Parent().Pos())
}

// FnName is a stable, line-free name for a function: "pkg.(*T).M", closures as
// "pkg.F$1".
func FnName(fn *ssa.Function) string {
	s := fn.String()
	s = strings.ReplaceAll(s, Mod+"/", "")
	return s
}

// CallGraph returns the call graph: CHA by default, VTA (seeded with CHA) when
// UseVTA is set.
func (p *Program) CallGraph() *callgraph.Graph {
	p.cgOnce.Do(func() {
		g := cha.CallGraph(p.SSA)
		p.cgKind = "cha"
		if p.UseVTA {
			g = vta.CallGraph(p.allFuncs, g)
			p.cgKind = "vta"
		}
		p.cg = g
	})
	return p.cg
}

// CGKind names the call-graph algorithm in use.
func (p *Program) CGKind() string { p.CallGraph(); return p.cgKind }

// Callees returns the possible callees of a call instruction: the static callee
// when there is one; else, with VTA (thorough tier) the call-graph resolution; else
// (quick tier) interface invocations resolved to the methods of every named type
// of the module that implements the interface, and calls of a closure value to the
// closure. Calls through other function values are not resolved in the quick tier.
func (p *Program) Callees(site ssa.CallInstruction) []*ssa.Function {
	cc := site.Common()
	if c := cc.StaticCallee(); c != nil {
		return []*ssa.Function{c}
	}
	if p.UseVTA {
		g := p.CallGraph()
		n := g.Nodes[site.Parent()]
		if n == nil {
			return nil
		}
		var out []*ssa.Function
		seen := map[*ssa.Function]bool{}
		for _, e := range n.Out {
			if e.Site == site && e.Callee.Func != nil && !seen[e.Callee.Func] {
				seen[e.Callee.Func] = true
				out = append(out, e.Callee.Func)
			}
		}
		return out
	}
	if !cc.IsInvoke() {
		return nil
	}
	return p.implsOf(cc.Value.Type(), cc.Method)
}

func (p *Program) implsOf(ifaceT types.Type, m *types.Func) []*ssa.Function {
	p.implMu.Lock()
	defer p.implMu.Unlock()
	if p.implCache == nil {
		p.implCache = map[*types.Func][]*ssa.Function{}
		for path, pk := range p.ByPth {
			if !(path == Mod || strings.HasPrefix(path, Mod+"/")) || pk.Types == nil {
				continue
			}
			sc := pk.Types.Scope()
			for _, name := range sc.Names() {
				tn, ok := sc.Lookup(name).(*types.TypeName)
				if !ok || tn.IsAlias() {
					continue
				}
				n, ok := tn.Type().(*types.Named)
				if !ok || types.IsInterface(n) || n.TypeParams().Len() > 0 {
					continue
				}
				p.modTypes = append(p.modTypes, n)
			}
		}
		sort.Slice(p.modTypes, func(i, j int) bool { return p.modTypes[i].String() < p.modTypes[j].String() })
	}
	if out, ok := p.implCache[m]; ok {
		return out
	}
	it, ok := ifaceT.Underlying().(*types.Interface)
	var out []*ssa.Function
	if ok {
		for _, n := range p.modTypes {
			var recv types.Type = n
			if !types.Implements(recv, it) {
				recv = types.NewPointer(n)
				if !types.Implements(recv, it) {
					continue
				}
			}
			sel := p.SSA.MethodSets.MethodSet(recv).Lookup(m.Pkg(), m.Name())
			if sel == nil {
				continue
			}
			if f := p.SSA.MethodValue(sel); f != nil {
				out = append(out, f)
			}
		}
	}
	p.implCache[m] = out
	return out
}

// FileOf returns the syntax file that contains pos.
func (p *Program) FileOf(pos token.Pos) *ast.File {
	for _, pk := range p.ByPth {
		if !strings.HasPrefix(pk.PkgPath, Mod) {
			continue
		}
		for _, f := range pk.Syntax {
			if f.FileStart <= pos && pos < f.FileEnd {
				return f
			}
		}
	}
	return nil
}

// CGKindIfBuilt names the call graph used so far ("" if none was needed).
func (p *Program) CGKindIfBuilt() string { return p.cgKind }
