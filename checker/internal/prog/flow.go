package prog

import (
	"go/constant"
	"go/token"
	"go/types"

	"golang.org/x/tools/go/ssa"
)

// ---------------------------------------------------------------------------
// Block-level control flow
// ---------------------------------------------------------------------------

// Edge is a CFG edge.
type Edge struct{ From, To *ssa.BasicBlock }

// InstrIndex returns the index of ins in its block.
func InstrIndex(ins ssa.Instruction) int {
	for i, x := range ins.Block().Instrs {
		if x == ins {
			return i
		}
	}
	return -1
}

// Dominates reports whether instruction a dominates instruction b (a executes
// before b on every path from the function entry to b).
func Dominates(a, b ssa.Instruction) bool {
	if a.Block() == b.Block() {
		return InstrIndex(a) < InstrIndex(b)
	}
	return a.Block().Dominates(b.Block())
}

// ReachableFrom returns the set of blocks reachable from the successors of b
// (b itself only if it is on a cycle), never crossing the edges in cut.
func ReachableFrom(b *ssa.BasicBlock, cut map[Edge]bool) map[*ssa.BasicBlock]bool {
	seen := map[*ssa.BasicBlock]bool{}
	var q []*ssa.BasicBlock
	for _, s := range b.Succs {
		if !cut[Edge{b, s}] {
			q = append(q, s)
		}
	}
	for len(q) > 0 {
		x := q[len(q)-1]
		q = q[:len(q)-1]
		if seen[x] {
			continue
		}
		seen[x] = true
		for _, s := range x.Succs {
			if !cut[Edge{x, s}] {
				q = append(q, s)
			}
		}
	}
	return seen
}

// MayPrecede reports whether there is a path on which a executes and later b.
func MayPrecede(a, b ssa.Instruction) bool {
	if a.Block() == b.Block() && InstrIndex(a) < InstrIndex(b) {
		return true
	}
	return ReachableFrom(a.Block(), nil)[b.Block()]
}

// CutDisconnects reports whether removing the edges in cut makes block site
// unreachable from the function entry.
func CutDisconnects(fn *ssa.Function, site *ssa.BasicBlock, cut map[Edge]bool) bool {
	if len(fn.Blocks) == 0 {
		return false
	}
	entry := fn.Blocks[0]
	if entry == site {
		return false
	}
	return !ReachableFrom(entry, cut)[site]
}

// PostDom holds post-dominator sets of one function, with a virtual exit that
// joins every Return (panics are not exits: a rule about "all non-panic exits").
type PostDom struct {
	fn   *ssa.Function
	sets []map[int]bool // sets[b.Index] = blocks that post-dominate b
}

// PostDominators computes (and caches) the post-dominator sets of fn.
func (p *Program) PostDominators(fn *ssa.Function) *PostDom {
	p.pdMu.Lock()
	defer p.pdMu.Unlock()
	if pd, ok := p.pd[fn]; ok {
		return pd
	}
	n := len(fn.Blocks)
	pd := &PostDom{fn: fn, sets: make([]map[int]bool, n)}
	isExit := make([]bool, n)
	noExit := make([]bool, n) // blocks ending in panic: no successor, not an exit
	for _, b := range fn.Blocks {
		if len(b.Instrs) == 0 {
			continue
		}
		switch b.Instrs[len(b.Instrs)-1].(type) {
		case *ssa.Return:
			isExit[b.Index] = true
		case *ssa.Panic:
			noExit[b.Index] = true
		}
	}
	all := map[int]bool{}
	for i := 0; i < n; i++ {
		all[i] = true
	}
	for i := 0; i < n; i++ {
		if isExit[i] {
			pd.sets[i] = map[int]bool{i: true}
		} else {
			c := make(map[int]bool, n)
			for k := range all {
				c[k] = true
			}
			pd.sets[i] = c
		}
	}
	for changed := true; changed; {
		changed = false
		for i := n - 1; i >= 0; i-- {
			b := fn.Blocks[i]
			if isExit[i] {
				continue
			}
			var inter map[int]bool
			for _, s := range b.Succs {
				if noExit[s.Index] && len(s.Succs) == 0 {
					continue // a panicking successor does not constrain
				}
				if inter == nil {
					inter = map[int]bool{}
					for k := range pd.sets[s.Index] {
						inter[k] = true
					}
				} else {
					for k := range inter {
						if !pd.sets[s.Index][k] {
							delete(inter, k)
						}
					}
				}
			}
			if inter == nil {
				inter = map[int]bool{}
				if noExit[i] {
					// panics post-dominated by everything (vacuous): keep "all"
					continue
				}
			}
			inter[i] = true
			if len(inter) != len(pd.sets[i]) {
				pd.sets[i] = inter
				changed = true
			}
		}
	}
	p.pd[fn] = pd
	return pd
}

// PostDominates reports whether instruction b is executed on every non-panic
// path from instruction a to a return.
func (p *Program) PostDominates(b, a ssa.Instruction) bool {
	if a.Block() == b.Block() {
		return InstrIndex(b) > InstrIndex(a)
	}
	pd := p.PostDominators(a.Parent())
	return pd.sets[a.Block().Index][b.Block().Index]
}

// ---------------------------------------------------------------------------
// Values
// ---------------------------------------------------------------------------

// Strip removes value-preserving wrappers (type changes, conversions between
// named/unnamed forms of the same type, interface boxing).
func Strip(v ssa.Value) ssa.Value {
	for {
		switch x := v.(type) {
		case *ssa.ChangeType:
			v = x.X
		case *ssa.MakeInterface:
			v = x.X
		case *ssa.ChangeInterface:
			v = x.X
		case *ssa.Convert:
			// only representation-preserving conversions
			if types.Identical(x.Type().Underlying(), x.X.Type().Underlying()) {
				v = x.X
			} else {
				return v
			}
		default:
			return v
		}
	}
}

// FieldVar returns the struct field selected by a FieldAddr or Field
// instruction.
func FieldVar(v ssa.Value) *types.Var {
	switch x := v.(type) {
	case *ssa.FieldAddr:
		t := x.X.Type().Underlying()
		if pt, ok := t.(*types.Pointer); ok {
			if st, ok := pt.Elem().Underlying().(*types.Struct); ok {
				return st.Field(x.Field)
			}
		}
	case *ssa.Field:
		if st, ok := x.X.Type().Underlying().(*types.Struct); ok {
			return st.Field(x.Field)
		}
	}
	return nil
}

// LoadedField returns the struct field a value was loaded from: `*(&x.f)` or
// `x.f`; nil otherwise.
func LoadedField(v ssa.Value) *types.Var {
	v = Strip(v)
	switch x := v.(type) {
	case *ssa.UnOp:
		if x.Op == token.MUL {
			return FieldVar(x.X)
		}
	case *ssa.Field:
		return FieldVar(x)
	}
	return nil
}

// FieldBase returns the value whose field a FieldAddr/Field/load-of-FieldAddr
// selects.
func FieldBase(v ssa.Value) ssa.Value {
	v = Strip(v)
	switch x := v.(type) {
	case *ssa.UnOp:
		if x.Op == token.MUL {
			if fa, ok := x.X.(*ssa.FieldAddr); ok {
				return fa.X
			}
		}
	case *ssa.FieldAddr:
		return x.X
	case *ssa.Field:
		return x.X
	}
	return nil
}

// CalleeOf returns the statically resolved callee of a value that is a call.
func CalleeOf(v ssa.Value) *ssa.Function {
	if c, ok := Strip(v).(*ssa.Call); ok {
		return c.Call.StaticCallee()
	}
	return nil
}

// CallObj returns the types.Func called by a call instruction: static callee's
// object, or the interface method for invoke-mode calls.
func CallObj(c ssa.CallInstruction) *types.Func {
	cc := c.Common()
	if cc.IsInvoke() {
		return cc.Method
	}
	if f := cc.StaticCallee(); f != nil {
		if o, ok := f.Object().(*types.Func); ok {
			return o
		}
		if f.Origin() != nil {
			if o, ok := f.Origin().Object().(*types.Func); ok {
				return o
			}
		}
	}
	return nil
}

// IsNilConst reports whether v is the nil constant.
func IsNilConst(v ssa.Value) bool {
	c, ok := v.(*ssa.Const)
	return ok && c.IsNil()
}

// IntConst returns the value of an integer constant.
func IntConst(v ssa.Value) (int64, bool) {
	c, ok := Strip(v).(*ssa.Const)
	if !ok || c.Value == nil || c.Value.Kind() != constant.Int {
		return 0, false
	}
	i, ok := constant.Int64Val(c.Value)
	return i, ok
}

// Flows reports whether value `from` flows into value `to` through
// value-preserving instructions (phis, conversions, extracts, field/index of
// aggregates, loads of locals that were stored once) — a bounded backward walk
// from `to`. pred is consulted for every visited value; Flows returns true as
// soon as pred does.
func Reaches(to ssa.Value, pred func(ssa.Value) bool) bool {
	seen := map[ssa.Value]bool{}
	var walk func(v ssa.Value, d int) bool
	walk = func(v ssa.Value, d int) bool {
		if v == nil || seen[v] || d > 40 {
			return false
		}
		seen[v] = true
		if pred(v) {
			return true
		}
		switch x := v.(type) {
		case *ssa.Phi:
			for _, e := range x.Edges {
				if walk(e, d+1) {
					return true
				}
			}
		case *ssa.ChangeType:
			return walk(x.X, d+1)
		case *ssa.Convert:
			return walk(x.X, d+1)
		case *ssa.MakeInterface:
			return walk(x.X, d+1)
		case *ssa.ChangeInterface:
			return walk(x.X, d+1)
		case *ssa.TypeAssert:
			return walk(x.X, d+1)
		case *ssa.Extract:
			return walk(x.Tuple, d+1)
		case *ssa.Slice:
			return walk(x.X, d+1)
		case *ssa.Alloc:
			// an address "is" what was stored into it (spilled parameters, named results)
			for _, r := range *x.Referrers() {
				if st, ok := r.(*ssa.Store); ok && st.Addr == x {
					if walk(st.Val, d+1) {
						return true
					}
				}
			}
			return false
		case *ssa.UnOp:
			if x.Op == token.MUL {
				// load: follow stores into a local alloc
				if a, ok := x.X.(*ssa.Alloc); ok {
					for _, r := range *a.Referrers() {
						if st, ok := r.(*ssa.Store); ok && st.Addr == a {
							if walk(st.Val, d+1) {
								return true
							}
						}
					}
					return false
				}
				// free variable / captured cell: follow the binding in the parent
				if fv, ok := x.X.(*ssa.FreeVar); ok {
					return walk(fv, d+1)
				}
				// a package-level variable: the predicate sees the global itself
				if g, ok := x.X.(*ssa.Global); ok {
					return walk(g, d+1)
				}
			}
			if x.Op == token.SUB || x.Op == token.NOT || x.Op == token.XOR {
				return walk(x.X, d+1)
			}
		case *ssa.FreeVar:
			fn := x.Parent()
			if fn.Parent() == nil {
				return false
			}
			idx := -1
			for i, f := range fn.FreeVars {
				if f == x {
					idx = i
				}
			}
			if idx < 0 {
				return false
			}
			// find MakeClosure in the parent
			for _, b := range fn.Parent().Blocks {
				for _, ins := range b.Instrs {
					if mc, ok := ins.(*ssa.MakeClosure); ok && mc.Fn == fn && idx < len(mc.Bindings) {
						bind := mc.Bindings[idx]
						if a, ok := bind.(*ssa.Alloc); ok {
							for _, r := range *a.Referrers() {
								if st, ok := r.(*ssa.Store); ok && st.Addr == a {
									if walk(st.Val, d+1) {
										return true
									}
								}
							}
						} else if walk(bind, d+1) {
							return true
						}
					}
				}
			}
		}
		return false
	}
	return walk(to, 0)
}

// DependsOn reports whether `to` is computed from a value satisfying pred through
// any data dependence (operands of arbitrary instructions, including calls).
func DependsOn(to ssa.Value, pred func(ssa.Value) bool) bool {
	seen := map[ssa.Value]bool{}
	var walk func(v ssa.Value, d int) bool
	walk = func(v ssa.Value, d int) bool {
		if v == nil || seen[v] || d > 60 {
			return false
		}
		seen[v] = true
		if pred(v) {
			return true
		}
		if a, ok := v.(*ssa.Alloc); ok {
			// everything stored into the allocation or into its elements/fields
			var addrs []ssa.Value
			addrs = append(addrs, a)
			for i := 0; i < len(addrs) && i < 200; i++ {
				rs := addrs[i].Referrers()
				if rs == nil {
					continue
				}
				for _, r := range *rs {
					switch t := r.(type) {
					case *ssa.Store:
						if t.Addr == addrs[i] && walk(t.Val, d+1) {
							return true
						}
					case *ssa.IndexAddr:
						if t.X == addrs[i] {
							addrs = append(addrs, t)
						}
					case *ssa.FieldAddr:
						if t.X == addrs[i] {
							addrs = append(addrs, t)
						}
					}
				}
			}
			return false
		}
		ins, ok := v.(ssa.Instruction)
		if !ok {
			return false
		}
		for _, op := range ins.Operands(nil) {
			if op != nil && *op != nil && walk(*op, d+1) {
				return true
			}
		}
		return false
	}
	return walk(to, 0)
}

// CallsIn lists the call instructions (Call, Go, Defer) of fn in block order.
func CallsIn(fn *ssa.Function) []ssa.CallInstruction {
	var out []ssa.CallInstruction
	for _, b := range fn.Blocks {
		for _, ins := range b.Instrs {
			if c, ok := ins.(ssa.CallInstruction); ok {
				out = append(out, c)
			}
		}
	}
	return out
}

// Closures lists the anonymous functions defined (transitively) inside fn.
func Closures(fn *ssa.Function) []*ssa.Function {
	var out []*ssa.Function
	var rec func(f *ssa.Function)
	rec = func(f *ssa.Function) {
		for _, a := range f.AnonFuncs {
			out = append(out, a)
			rec(a)
		}
	}
	rec(fn)
	return out
}

// IfOf returns the If instruction ending block b, or nil.
func IfOf(b *ssa.BasicBlock) *ssa.If {
	if len(b.Instrs) == 0 {
		return nil
	}
	i, _ := b.Instrs[len(b.Instrs)-1].(*ssa.If)
	return i
}

// Returns lists the Return instructions of fn.
func Returns(fn *ssa.Function) []*ssa.Return {
	var out []*ssa.Return
	for _, b := range fn.Blocks {
		if len(b.Instrs) == 0 || b == fn.Recover {
			continue // the recover block is go/ssa's landing pad for a recovered panic, not a source-level return
		}
		if r, ok := b.Instrs[len(b.Instrs)-1].(*ssa.Return); ok {
			out = append(out, r)
		}
	}
	return out
}

// ReturnValue returns the i-th result of a return, looking through the spill of
// results into named-result locals that go/ssa performs in functions with defers
// (`*r = v; rundefers; t = *r; return t`): the value last stored into the local in
// the returning block. When no such store is in the block the load is returned.
func ReturnValue(r *ssa.Return, i int) ssa.Value {
	v := r.Results[i]
	u, ok := v.(*ssa.UnOp)
	if !ok || u.Op != token.MUL {
		return v
	}
	a, ok := u.X.(*ssa.Alloc)
	if !ok {
		return v
	}
	var last ssa.Value
	for _, ins := range r.Block().Instrs {
		if ins == ssa.Instruction(u) {
			break
		}
		if st, ok := ins.(*ssa.Store); ok && st.Addr == ssa.Value(a) {
			last = st.Val
		}
	}
	if last != nil {
		return last
	}
	return v
}

// ReturnsNilError reports whether the last result of r is the nil error.
func ReturnsNilError(r *ssa.Return) bool {
	if len(r.Results) == 0 {
		return false
	}
	return IsNilConst(ReturnValue(r, len(r.Results)-1))
}

// ControlDeps returns the If instructions block b is (transitively) control
// dependent on: b post-dominates (or is) a successor of the If's block but does
// not post-dominate the If's block itself.
func (p *Program) ControlDeps(b *ssa.BasicBlock) []*ssa.If {
	fn := b.Parent()
	pd := p.PostDominators(fn)
	seen := map[*ssa.BasicBlock]bool{}
	var out []*ssa.If
	var walk func(x *ssa.BasicBlock)
	walk = func(x *ssa.BasicBlock) {
		if seen[x] {
			return
		}
		seen[x] = true
		for _, a := range fn.Blocks {
			ifi := IfOf(a)
			if ifi == nil || a == x && false {
				continue
			}
			if pd.sets[a.Index][x.Index] && a != x {
				continue // x post-dominates a: not dependent on a's branch
			}
			dep := false
			for _, s := range a.Succs {
				if s == x || pd.sets[s.Index][x.Index] {
					dep = true
				}
			}
			if dep {
				out = append(out, ifi)
				walk(a)
			}
		}
	}
	walk(b)
	return out
}

// PostDom reports whether block b post-dominates block a.
func (pd *PostDom) PostDom(a, b *ssa.BasicBlock) bool {
	return pd.sets[a.Index][b.Index]
}

// Loop is a natural loop: Header dominates every block of Body (Header included),
// and Body holds the blocks from which a back edge into Header is reachable
// without leaving through Header.
type Loop struct {
	Header *ssa.BasicBlock
	Body   map[*ssa.BasicBlock]bool
}

// Loops returns the natural loops of fn (loops sharing a header are merged).
func Loops(fn *ssa.Function) []*Loop {
	byHead := map[*ssa.BasicBlock]*Loop{}
	var order []*ssa.BasicBlock
	for _, b := range fn.Blocks {
		for _, s := range b.Succs {
			if !s.Dominates(b) {
				continue
			}
			// back edge b -> s
			l := byHead[s]
			if l == nil {
				l = &Loop{Header: s, Body: map[*ssa.BasicBlock]bool{s: true}}
				byHead[s] = l
				order = append(order, s)
			}
			stack := []*ssa.BasicBlock{b}
			for len(stack) > 0 {
				c := stack[len(stack)-1]
				stack = stack[:len(stack)-1]
				if l.Body[c] {
					continue
				}
				l.Body[c] = true
				stack = append(stack, c.Preds...)
			}
		}
	}
	var out []*Loop
	for _, h := range order {
		out = append(out, byHead[h])
	}
	return out
}
