// Package report collects obligations and writes evidence.
package report

import (
	"crypto/sha1"
	"encoding/hex"
	"encoding/json"
	"fmt"
	"os"
	"path/filepath"
	"sort"
	"strings"
)

// Status of one obligation.
type Status string

const (
	Held      Status = "held"
	Violated  Status = "violated"
	Undecided Status = "undecided" // an idiom the rule does not know: never a silent pass
)

// Obligation is one decided instance of a rule.
type Obligation struct {
	Rule     string `json:"rule"`   // e.g. "L2"
	Key      string `json:"key"`    // line-free identity: rule + construct
	Pos      string `json:"pos"`    // file:line (informational)
	Status   Status `json:"status"` //
	Detail   string `json:"detail"` // what was established / what is wrong
	Trivial  bool   `json:"-"`      // vacuous obligation (not counted as non-trivial)
	KnownRef string `json:"known,omitempty"`
}

// Collector gathers the obligations of one run.
type Collector struct {
	Obs      []Obligation
	Errors   []string // unresolved anchors, vacuity failures, internal errors
	Analysed map[string]int
	Notes    []string
	index    map[string]int
}

// New returns an empty collector.
func New() *Collector { return &Collector{Analysed: map[string]int{}} }

// Add records an obligation; the same construct reported twice (generic
// instantiations, a rule shared by two call paths) keeps the worst verdict.
func (c *Collector) Add(o Obligation) {
	if c.index == nil {
		c.index = map[string]int{}
	}
	if i, ok := c.index[o.Key]; ok {
		if rank(o.Status) > rank(c.Obs[i].Status) {
			c.Obs[i] = o
		}
		return
	}
	c.index[o.Key] = len(c.Obs)
	c.Obs = append(c.Obs, o)
}

// Hold records a discharged obligation.
func (c *Collector) Hold(rule, key, pos, detail string) {
	c.Add(Obligation{Rule: rule, Key: rule + ":" + key, Pos: pos, Status: Held, Detail: detail})
}

// Fail records a violated obligation.
func (c *Collector) Fail(rule, key, pos, detail string) {
	c.Add(Obligation{Rule: rule, Key: rule + ":" + key, Pos: pos, Status: Violated, Detail: detail})
}

// Check records held or violated according to ok.
func (c *Collector) Check(ok bool, rule, key, pos, held, violated string) {
	if ok {
		c.Hold(rule, key, pos, held)
	} else {
		c.Fail(rule, key, pos, violated)
	}
}

// Undecided records an instance the rule cannot classify.
func (c *Collector) Undecided(rule, key, pos, detail string) {
	c.Add(Obligation{Rule: rule, Key: rule + ":" + key, Pos: pos, Status: Undecided, Detail: detail})
}

// Unresolved records an anchor that no longer resolves.
func (c *Collector) Unresolved(rule, anchor string) {
	c.Errors = append(c.Errors, fmt.Sprintf("UNRESOLVED rule=%s anchor=%s", rule, anchor))
}

// Vacuous records a rule that matched fewer instances than confirmed by hand.
func (c *Collector) Vacuous(rule string, found, min int) {
	c.Errors = append(c.Errors, fmt.Sprintf("VACUOUS rule=%s found=%d expected>=%d", rule, found, min))
}

// Count adds to an "analysed" counter shown in the evidence.
func (c *Collector) Count(what string, n int) { c.Analysed[what] += n }

// Note adds a free-text note to the evidence.
func (c *Collector) Note(s string) { c.Notes = append(c.Notes, s) }

// CountRule returns the number of obligations of a rule recorded so far.
func (c *Collector) CountRule(rule string) int {
	n := 0
	for _, o := range c.Obs {
		if o.Rule == rule {
			n++
		}
	}
	return n
}

// ---------------------------------------------------------------------------
// Known findings
// ---------------------------------------------------------------------------

// Known is one entry of /verif/known_findings.json.
type Known struct {
	Properties []string `json:"properties"`
	Key        string   `json:"key"`  // obligation key (rule:construct)
	What       string   `json:"what"` // what fails, in words, with the failing input/history
	Finding    string   `json:"finding,omitempty"`
}

// Fixed is a repaired defect: it suppresses nothing.
type Fixed struct {
	Entry string `json:"entry"` // "fixed: property=<id> <commit> <what failed>"
}

// KnownFile is the committed known-findings file.
type KnownFile struct {
	Known []Known `json:"known"`
	Fixed []Fixed `json:"fixed"`
}

// LoadKnown reads the known-findings file (missing file = empty).
func LoadKnown(path string) (*KnownFile, error) {
	kf := &KnownFile{}
	b, err := os.ReadFile(path)
	if err != nil {
		if os.IsNotExist(err) {
			return kf, nil
		}
		return nil, err
	}
	if err := json.Unmarshal(b, kf); err != nil {
		return nil, fmt.Errorf("%s: %w", path, err)
	}
	return kf, nil
}

// Match returns the known entry for (property, key), or nil.
func (k *KnownFile) Match(prop, key string) *Known {
	for i := range k.Known {
		e := &k.Known[i]
		if e.Key != key {
			continue
		}
		for _, p := range e.Properties {
			if p == prop {
				return e
			}
		}
	}
	return nil
}

// ---------------------------------------------------------------------------
// Evidence
// ---------------------------------------------------------------------------

// Evidence mirrors EVIDENCE.schema.json.
type Evidence struct {
	PropertyID  string         `json:"property_id"`
	Tier        string         `json:"tier"`
	Seed        int            `json:"seed"`
	Level       string         `json:"level"`
	Coverage    map[string]any `json:"coverage"`
	Assumptions []string       `json:"assumptions"`
	WallS       float64        `json:"wall_s"`
	Violations  int            `json:"violations"`
}

// Hash is a short stable hash of an obligation key.
func Hash(s string) string {
	h := sha1.Sum([]byte(s))
	return hex.EncodeToString(h[:])[:12]
}

// Outcome of finishing a property.
type Outcome struct {
	Violations []Obligation
	Known      []Obligation
	Undecided  []Obligation
	Errors     []string
}

// Finish classifies the obligations against the known-findings file, writes the
// violation replay files and the evidence file, and returns the outcome.
func Finish(c *Collector, prop, tier string, seed int, wall float64, explanation string,
	assumptions []string, rulesText map[string]string, extra map[string]any,
	kf *KnownFile, evidenceDir string) (*Outcome, error) {

	out := &Outcome{Errors: c.Errors}
	c.index = nil
	sort.SliceStable(c.Obs, func(i, j int) bool { return c.Obs[i].Key < c.Obs[j].Key })
	// de-duplicate identical keys (same construct reported twice)
	var obs []Obligation
	seen := map[string]int{}
	for _, o := range c.Obs {
		if i, ok := seen[o.Key]; ok {
			// keep the worst status
			if rank(o.Status) > rank(obs[i].Status) {
				obs[i] = o
			}
			continue
		}
		seen[o.Key] = len(obs)
		obs = append(obs, o)
	}
	held, nontrivial := 0, 0
	perRule := map[string][2]int{}
	for i := range obs {
		o := &obs[i]
		pr := perRule[o.Rule]
		pr[0]++
		switch o.Status {
		case Held:
			held++
			pr[1]++
		case Violated:
			if k := kf.Match(prop, o.Key); k != nil {
				o.KnownRef = k.What
				out.Known = append(out.Known, *o)
			} else {
				out.Violations = append(out.Violations, *o)
			}
		case Undecided:
			out.Undecided = append(out.Undecided, *o)
		}
		perRule[o.Rule] = pr
		if !o.Trivial {
			nontrivial++
		}
	}
	vdir := filepath.Join(evidenceDir, "violations")
	if len(out.Violations) > 0 {
		if err := os.MkdirAll(vdir, 0o755); err != nil {
			return nil, err
		}
	}
	for _, v := range out.Violations {
		path := ViolationPath(evidenceDir, prop, v.Key)
		rec := map[string]any{
			"property": prop, "rule": v.Rule, "key": v.Key, "pos": v.Pos, "detail": v.Detail,
			"rule_text": rulesText[v.Rule],
		}
		b, _ := json.MarshalIndent(rec, "", " ")
		if err := os.WriteFile(path, b, 0o644); err != nil {
			return nil, err
		}
	}
	// samples: a few obligations per rule, held first
	var samples []any
	cnt := map[string]int{}
	for _, o := range obs {
		if cnt[o.Rule] >= 3 && o.Status == Held {
			continue
		}
		cnt[o.Rule]++
		samples = append(samples, map[string]string{"rule": o.Rule, "instance": o.Key, "at": o.Pos, "status": string(o.Status), "detail": o.Detail})
		if len(samples) >= 60 {
			break
		}
	}
	rules := []string{}
	for r := range perRule {
		rules = append(rules, r)
	}
	sort.Strings(rules)
	ruleRows := []any{}
	for _, r := range rules {
		ruleRows = append(ruleRows, map[string]any{"rule": r, "instances": perRule[r][0], "held": perRule[r][1], "text": rulesText[r]})
	}
	all := []any{}
	for _, o := range obs {
		row := map[string]string{"key": o.Key, "at": o.Pos, "status": string(o.Status)}
		if o.Status != Held {
			row["detail"] = o.Detail
		}
		if o.KnownRef != "" {
			row["known_finding"] = o.KnownRef
		}
		all = append(all, row)
	}
	cov := map[string]any{
		"explanation":         explanation,
		"obligations":         len(obs),
		"discharged":          held,
		"evaluations":         len(obs),
		"distinct_nontrivial": nontrivial,
		"rule": "one obligation per rule instance (call site, function, field, message type, dispatch site) enumerated from the type-checked program; " +
			"distinct = distinct rule+construct keys; non-trivial = the instance has a real site to examine (not a vacuous match)",
		"samples":         samples,
		"rules":           ruleRows,
		"all_obligations": all,
		"analysed":        c.Analysed,
		"exhaustive":      true,
		"known_findings":  len(out.Known),
		"undecided":       len(out.Undecided),
		"errors":          c.Errors,
		"notes":           c.Notes,
	}
	for k, v := range extra {
		cov[k] = v
	}
	ev := Evidence{PropertyID: prop, Tier: tier, Seed: seed, Level: "other", Coverage: cov,
		Assumptions: assumptions, WallS: wall, Violations: len(out.Violations)}
	b, err := json.MarshalIndent(ev, "", " ")
	if err != nil {
		return nil, err
	}
	if err := os.MkdirAll(evidenceDir, 0o755); err != nil {
		return nil, err
	}
	if err := os.WriteFile(filepath.Join(evidenceDir, prop+".json"), b, 0o644); err != nil {
		return nil, err
	}
	return out, nil
}

func rank(s Status) int {
	switch s {
	case Violated:
		return 2
	case Undecided:
		return 1
	}
	return 0
}

// ViolationPath is where the replay record of a violation is written.
func ViolationPath(evidenceDir, prop, key string) string {
	safe := strings.NewReplacer("/", "_", " ", "_", ":", "_", "(", "", ")", "", "*", "").Replace(key)
	// ASCII only: the name is cut at a byte position and printed on the VIOLATION line
	safe = strings.Map(func(r rune) rune {
		if r > 126 || r < 33 || r == '\'' || r == '"' || r == '$' || r == '#' || r == '[' || r == ']' {
			return '_'
		}
		return r
	}, safe)
	if len(safe) > 60 {
		safe = safe[:60]
	}
	return filepath.Join(evidenceDir, "violations", fmt.Sprintf("%s-%s-%s.json", prop, safe, Hash(key)))
}
