package rules

import (
	"sort"
	"fmt"
	"go/types"
	"strings"

	"yv/internal/prog"

	"golang.org/x/tools/go/ssa"
)

const psPkg = "server/backend/pubsub"

func init() {
	register(&Rule{ID: "L6", Min: 6, Text: "channel discipline of Subscription: every close of and every send on the events channel is reachable only on the edge where the closed flag is false (tested under the same critical section), and every close is accompanied by closed = true before it in the same section; Close is idempotent; the publisher's close channel is closed only in BatchPublisher.Close, which is called only from Subscriptions.Close, which in turn is called only inside the delete callback of the subscription map (under the shard lock, after the set was found empty)",
		Run: func(x *Ctx) {
			closedF := x.P.Field(psPkg + ".Subscription.closed")
			eventsF := x.P.Field(psPkg + ".Subscription.events")
			if closedF == nil || eventsF == nil {
				x.C.Unresolved(x.id(), psPkg+".Subscription.closed/events")
				return
			}
			sameField := func(f *types.Var) VP {
				return VP{"." + f.Name(), func(v ssa.Value) bool {
					g := prog.LoadedField(v)
					return g != nil && g.Name() == f.Name()
				}}
			}
			notClosed := []Cmp{isFalse(sameField(closedF))}
			n := 0
			for _, fn := range x.P.FuncsIn(psPkg) {
				if o := fn.Origin(); o != nil && o != fn {
					continue
				}
				if fn.Signature.Recv() == nil || namedOf(fn.Signature.Recv().Type()) == nil || namedOf(fn.Signature.Recv().Type()).Obj().Name() != "Subscription" {
					continue
				}
				for _, b := range fn.Blocks {
					for _, ins := range b.Instrs {
						var ch ssa.Value
						what := ""
						switch t := ins.(type) {
						case *ssa.Send:
							ch, what = t.Chan, "send"
						case *ssa.Select:
							for _, st := range t.States {
								if st.Dir == types.SendOnly {
									ch, what = st.Chan, "send"
								}
							}
						case ssa.CallInstruction:
							if bi, ok := t.Common().Value.(*ssa.Builtin); ok && bi.Name() == "close" {
								ch, what = t.Common().Args[0], "close"
							}
						}
						if ch == nil {
							continue
						}
						if f := prog.LoadedField(ch); f == nil || f.Name() != "events" {
							continue
						}
						n++
						k := fmt.Sprintf("func=%s %s#%d", prog.FnName(fn), what, n)
						if fo, _ := fn.Object().(*types.Func); fo != nil && !fo.Exported() && !x.quietGuarded(ins, notClosed) {
							// an unexported helper ("…Locked"): the test is the callers' — every call site in the
							// package must be reached only with the flag seen false
							var sites []ssa.CallInstruction
							for _, g := range x.P.FuncsIn(psPkg) {
								if o := g.Origin(); o != nil && o != g {
									continue
								}
								sites = append(sites, callsToIn(g, fo)...)
							}
							all := len(sites) > 0
							bad := ""
							for _, cs := range sites {
								if !x.quietGuarded(cs, notClosed) {
									all = false
									bad = x.pos(cs)
								}
							}
							x.check(all, k+" only-if-not-closed", x.pos(ins), "every caller of this unexported helper tests the closed flag first", "the "+what+" sits in a helper that is called at "+bad+" without the closed flag having been seen false")
						} else {
							x.guardedSite(k+" only-if-not-closed", ins, notClosed, nil)
						}
						if what == "close" {
							marked := false
							for _, st := range storesTo(fn, fieldNamed(fn, "Subscription", "closed")) {
								if vpTrue.match(st.Val) && prog.Dominates(st, ins) {
									marked = true
								}
							}
							x.check(marked, k+" marks-closed-first", x.pos(ins), "closed = true precedes the close", "the channel is closed without first marking the subscription closed: a concurrent Publish sends on a closed channel")
						}
					}
				}
			}
			if n < 2 {
				x.C.Vacuous(x.id()+" sends/closes on Subscription.events", n, 2)
			}
			// close protocol of the publisher
			bpClose := x.P.FnObj(psPkg + ".(*BatchPublisher).Close")
			subsClose := x.P.FnObj(psPkg + ".(*Subscriptions).Close")
			if bpClose == nil || subsClose == nil {
				x.C.Unresolved(x.id(), "BatchPublisher.Close / Subscriptions.Close")
				return
			}
			for _, c := range x.directCallers(bpClose) {
				o := c.Parent()
				if oo := o.Origin(); oo != nil {
					o = oo
				}
				x.check(o.Object() == types.Object(subsClose), "caller-of=BatchPublisher.Close func="+prog.FnName(o), x.pos(c), "only Subscriptions.Close closes the publisher", "the publisher is closed from somewhere else: a second close panics")
			}
			for _, c := range x.directCallers(subsClose) {
				fn := c.Parent()
				if oo := fn.Origin(); oo != nil {
					fn = oo
				}
				// direct or through the thin wrappers DocSubscriptions/ChannelSubscriptions.Close
				inCallback := fn.Parent() != nil
				if !inCallback {
					// a wrapper method: all of its callers must be delete callbacks
					inCallback = true
					cs := x.calls().inSites[c.Parent()]
					if len(cs) == 0 {
						inCallback = false
					}
					for _, e := range cs {
						if e.Callee.Parent() == nil {
							inCallback = false
						}
					}
				}
				x.check(inCallback, "caller-of=Subscriptions.Close func="+prog.FnName(fn), x.pos(c), "closed from inside a map callback", "the subscription set is closed outside the delete callback of the map: it can race with a concurrent Subscribe and lose the new subscriber")
			}
		}})

	register(&Rule{ID: "PS.map", Min: 6, Text: "no lost subscriber: Subscribe and SubscribeChannel insert the new subscription inside the Upsert callback of the per-key map (under the shard lock) and create the set there when it does not exist; Unsubscribe and UnsubscribeChannel close the subscription, delete it from the set, and delete-and-close the set only inside the Delete callback and only on the edge where the set exists and is empty; Publish delivers through the set found under the key; the batching publisher flushes (publish()) on the close branch before it returns and on every tick",
		Run: func(x *Ctx) {
			upsert := "Upsert"
			del := "Delete"
			for _, spec := range []struct{ sub, unsub string }{{"Subscribe", "Unsubscribe"}, {"SubscribeChannel", "UnsubscribeChannel"}} {
				if fn := x.fn(psPkg + ".(*PubSub)." + spec.sub); fn != nil {
					k := "func=" + prog.FnName(fn)
					okIn := false
					for _, cl := range prog.Closures(fn) {
						// closure passed to cmap.Upsert
						passed := false
						for _, e := range x.calls().inSites[cl] {
							if e.Site != nil && prog.CallObj(e.Site) != nil && prog.CallObj(e.Site).Name() == upsert {
								passed = true
							}
						}
						if !passed {
							continue
						}
						sets := 0
						for _, c := range prog.CallsIn(cl) {
							if o := prog.CallObj(c); o != nil && o.Name() == "Set" {
								sets++
							}
						}
						if sets > 0 {
							okIn = true
						}
					}
					x.check(okIn, k+" insert-inside-upsert-callback", x.fpos(fn), "the subscription is registered under the shard lock", "the new subscription is not registered inside the Upsert callback: a concurrent last-Unsubscribe can delete the set it was added to")
				}
				if fn := x.fn(psPkg + ".(*PubSub)." + spec.unsub); fn != nil {
					k := "func=" + prog.FnName(fn)
					okCb, okGuard := false, false
					for _, cl := range prog.Closures(fn) {
						passed := false
						for _, e := range x.calls().inSites[cl] {
							if e.Site != nil && prog.CallObj(e.Site) != nil && prog.CallObj(e.Site).Name() == del {
								passed = true
							}
						}
						if !passed {
							continue
						}
						for _, c := range prog.CallsIn(cl) {
							if o := prog.CallObj(c); o != nil && o.Name() == "Close" {
								okCb = true
								lenCall := VP{"set.Len()", func(v ssa.Value) bool {
									cc, ok := prog.Strip(v).(*ssa.Call)
									return ok && prog.CallObj(cc) != nil && prog.CallObj(cc).Name() == "Len"
								}}
								exists := VP{"exists", func(v ssa.Value) bool {
									pm, ok := v.(*ssa.Parameter)
									return ok && pm.Parent() == cl && isBoolType(pm.Type())
								}}
								g1 := x.quietGuarded(c, []Cmp{{L: lenCall, R: vpConst(0), Want: LE}})
								g2 := x.quietGuarded(c, []Cmp{isTrue(exists)})
								okGuard = g1 && g2
							}
						}
					}
					x.check(okCb, k+" close-set-inside-delete-callback", x.fpos(fn), "the set is closed under the shard lock", "the subscription set is not closed inside the Delete callback")
					x.check(okGuard, k+" close-set-only-if-exists-and-empty", x.fpos(fn), "only an existing, empty set is closed and removed", "a set that still has subscribers (or does not exist) can be closed and removed")
					// the subscription itself is closed and removed from the set
					closes, deletes := 0, 0
					for _, c := range prog.CallsIn(fn) {
						if o := prog.CallObj(c); o != nil {
							if o.Name() == "Close" {
								closes++
							}
							if o.Name() == "Delete" && len(c.Common().Args) == 2 {
								deletes++
							}
						}
					}
					x.check(closes >= 1, k+" closes-subscription", x.fpos(fn), "the subscription is closed", "Unsubscribe no longer closes the subscription: the watcher keeps receiving events")
				}
			}
			// flush on close
			if fn := x.fn(psPkg + ".(*BatchPublisher).processLoop"); fn != nil {
				pub := x.P.FnObj(psPkg + ".(*BatchPublisher).publish")
				k := "func=" + prog.FnName(fn)
				cs := callsToIn(fn, pub)
				x.check(len(cs) >= 2, k+" publishes-on-tick-and-on-close", x.fpos(fn), "flushes on tick and on close", "the publisher no longer flushes on both the tick and the close branch")
				for i, r := range prog.Returns(fn) {
					ok := false
					for _, c := range cs {
						if prog.Dominates(c, r) && c.Block() != fn.Blocks[0] {
							// the flush on the path that leaves the loop
							if !prog.MayPrecede(r, c) {
								ok = true
							}
						}
					}
					x.check(ok, fmt.Sprintf("%s return#%d flush-before-exit", k, i+1), x.pos(r), "pending events are flushed before the loop exits", "the publisher exits without flushing the pending batch: events published just before the last unsubscribe are lost")
				}
			}
			// publish(): the batch is swapped out — the pending batch restarts from nil/a fresh slice, never from a
			// re-slice of the batch being delivered (they would share one backing array)
			if fn := x.fn(psPkg + ".(*BatchPublisher).publish"); fn != nil {
				_ = strings.TrimSpace
				ok, n := true, 0
				for _, f := range x.flushFns(fn) {
					evF := fieldNamed(f, "BatchPublisher", "events")
					if evF == nil {
						continue
					}
					for _, st := range storesTo(f, evF) {
						n++
						switch prog.Strip(st.Val).(type) {
						case *ssa.Const, *ssa.MakeSlice:
						default:
							ok = false
						}
					}
				}
				x.check(n >= 1 && ok, "func="+prog.FnName(fn)+" pending-batch-restarts-fresh", x.fpos(fn), "the pending batch restarts from nil or a fresh slice", "the pending batch is a re-slice of the batch being delivered: a Publish during the flush overwrites events that were not delivered yet")
			}
		}})

	register(&Rule{ID: "O6", Min: 3, Text: "watchers are told: after PushPull stored changes (len(pushed) > 0) or removed the document, a goroutine is started (Backend.Go) whose body calls PubSub.Publish with a DocChanged event for the document key; the event is published for every such request (the launch is not under any further condition)",
		Run: func(x *Ctx) {
			p := x.pipe()
			if !p.ok {
				return
			}
			pp := p.PushPull
			k := "func=" + prog.FnName(pp)
			beGo := x.P.FnObj("server/backend.(*Backend).Go")
			publish := x.P.FnObj(psPkg + ".(*PubSub).Publish")
			docChanged := x.P.Lookup("api/types/events.DocChanged")
			var launch ssa.CallInstruction
			var body *ssa.Function
			for _, c := range callsToIn(pp, beGo) {
				for _, a := range c.Common().Args {
					if mc, ok := a.(*ssa.MakeClosure); ok {
						if f, ok := mc.Fn.(*ssa.Function); ok && len(callsToIn(f, publish)) > 0 {
							launch, body = c, f
						}
					}
				}
			}
			if launch == nil {
				x.fail(k+" publish-after-push", x.fpos(pp), "PushPull no longer starts a goroutine that publishes the change event")
				return
			}
			// the launch happens whenever something was pushed: unreachable-without only via len(pushed)<=0 and !IsRemoved
			var pushRes ssa.Value
			for _, c := range x.callsReaching(pp, p.CreateCI) {
				if cc, ok := c.(*ssa.Call); ok {
					pushRes = cc
				}
			}
			pushedLen := VP{"len(pushed changes)", func(v ssa.Value) bool {
				c, ok := prog.Strip(v).(*ssa.Call)
				if !ok {
					return false
				}
				b, ok := c.Call.Value.(*ssa.Builtin)
				if !ok || b.Name() != "len" {
					return false
				}
				return prog.Reaches(c.Call.Args[0], func(w ssa.Value) bool {
					ex, ok := w.(*ssa.Extract)
					return ok && ex.Tuple == pushRes && ex.Index == 0
				})
			}}
			// every success return that skips the launch must be on the edge len(pushed) <= 0
			for i, r := range successReturns(pp) {
				x.guardedOrVia(fmt.Sprintf("%s ok-return#%d published-or-nothing-pushed", k, i+1), r, []Cmp{{L: pushedLen, R: vpConst(0), Want: LE}}, []ssa.Instruction{launch},
					"a request that stored changes always starts the publisher goroutine", "a request can store changes and return success without publishing the change event")
			}
			// body publishes DocChanged for the pushed document key
			okEvt := false
			for _, c := range callsToIn(body, publish) {
				ev := c.Common().Args[len(c.Common().Args)-1]
				if prog.DependsOn(ev, func(v ssa.Value) bool {
					cst, ok := v.(*ssa.Const)
					if ok && docChanged != nil {
						if dc, ok := docChanged.(*types.Const); ok && cst.Value != nil && cst.Value.ExactString() == dc.Val().ExactString() && types.Identical(cst.Type(), dc.Type()) {
							return true
						}
					}
					return false
				}) {
					okEvt = true
				}
				// not under a condition other than the actor conversion error
				nIf := 0
				for _, b := range body.Blocks {
					if iff := prog.IfOf(b); iff != nil && prog.MayPrecede(iff, c) {
						nIf++
					}
				}
				x.check(nIf <= 1, k+" publish-unconditional", x.pos(c), "the publish is not conditional (beyond the actor-id conversion)", "the publish inside the goroutine is under an additional condition")
			}
			x.check(okEvt, k+" event=DocChanged", x.fpos(body), "a DocChanged event is published", "the published event is not DocChanged")
		}})
}

func isBoolType(t types.Type) bool {
	b, ok := t.Underlying().(*types.Basic)
	return ok && b.Kind() == types.Bool
}

// fieldNamed resolves the field `name` of the receiver struct of fn (works for
// generic receivers, whose field objects differ from the uninstantiated type's).
func fieldNamed(fn *ssa.Function, typ, name string) *types.Var {
	for _, b := range fn.Blocks {
		for _, ins := range b.Instrs {
			if fa, ok := ins.(*ssa.FieldAddr); ok {
				if f := prog.FieldVar(fa); f != nil && f.Name() == name {
					if n := namedOf(fa.X.Type()); n != nil && n.Obj().Name() == typ {
						return f
					}
				}
			}
		}
	}
	return nil
}

// flushFns lists the flush function of the batching publisher together with the
// methods of the same receiver it calls synchronously (a helper that takes the batch).
func (x *Ctx) flushFns(publish *ssa.Function) []*ssa.Function {
	var out []*ssa.Function
	for f := range x.closureOf([]*ssa.Function{publish}, []string{"server/backend/pubsub"}) {
		if f == publish || (f.Signature.Recv() != nil && publish.Signature.Recv() != nil && namedOf(f.Signature.Recv().Type()) != nil &&
			namedOf(publish.Signature.Recv().Type()) != nil && namedOf(f.Signature.Recv().Type()).Obj() == namedOf(publish.Signature.Recv().Type()).Obj()) {
			out = append(out, f)
		}
	}
	sort.Slice(out, func(i, j int) bool { return out[i].Pos() < out[j].Pos() })
	return out
}

func init() {
	register(&Rule{ID: "PS.pair", Min: 3, Text: "no leaked subscription in the RPC layer: every function of server/rpc that (through its helpers) subscribes to the pub/sub and owns the subscription registers, before any other exit, a deferred function that reaches PubSub.Unsubscribe/UnsubscribeChannel — between the subscribing call and the defer only the subscribing call's own error edge returns; a helper that subscribes several resources unsubscribes the ones it already has on every error exit",
		Run: func(x *Ctx) {
			sub := []*types.Func{x.P.FnObj(psPkg + ".(*PubSub).Subscribe"), x.P.FnObj(psPkg + ".(*PubSub).SubscribeChannel")}
			unsub := []*types.Func{x.P.FnObj(psPkg + ".(*PubSub).Unsubscribe"), x.P.FnObj(psPkg + ".(*PubSub).UnsubscribeChannel")}
			for _, o := range append(sub, unsub...) {
				if o == nil {
					x.C.Unresolved(x.id(), "PubSub.Subscribe*/Unsubscribe*")
					return
				}
			}
			reachesAny := func(fn *ssa.Function, objs []*types.Func) bool {
				for _, o := range objs {
					if x.reaching(o)[fn] {
						return true
					}
				}
				return false
			}
			callsReachingAny := func(fn *ssa.Function, objs []*types.Func) []ssa.CallInstruction {
				var out []ssa.CallInstruction
				seen := map[ssa.CallInstruction]bool{}
				for _, o := range objs {
					for _, c := range x.callsReaching(fn, o) {
						if !seen[c] {
							seen[c] = true
							out = append(out, c)
						}
					}
				}
				return out
			}
			owners := 0
			for _, fn := range x.P.FuncsIn("server/rpc") {
				if fn.Parent() != nil {
					continue
				}
				var subs []ssa.CallInstruction
				for _, c := range callsReachingAny(fn, sub) {
					if _, isDefer := c.(*ssa.Defer); !isDefer {
						subs = append(subs, c)
					}
				}
				if len(subs) == 0 {
					continue
				}
				k := "func=" + prog.FnName(fn)
				// the deferred unsubscribe
				var dfr *ssa.Defer
				for _, c := range prog.CallsIn(fn) {
					d, ok := c.(*ssa.Defer)
					if !ok {
						continue
					}
					var body *ssa.Function
					switch t := prog.Strip(d.Call.Value).(type) {
					case *ssa.MakeClosure:
						body, _ = t.Fn.(*ssa.Function)
					case *ssa.Function:
						body = t
					}
					if body != nil && reachesAny(body, unsub) {
						dfr = d
					}
				}
				if dfr != nil {
					owners++
					for i, s := range subs {
						sc, isCall := s.(*ssa.Call)
						ok := prog.Dominates(s, dfr)
						x.check(ok, fmt.Sprintf("%s subscribe#%d ≺ deferred-unsubscribe", k, i+1), x.pos(s), "the unsubscribe is registered after the subscription exists", "the deferred unsubscribe is not dominated by the subscribing call")
						if !ok || !isCall {
							continue
						}
						// returns reachable from the subscribe without passing the defer must be on its error edge
						e := errNilCmp(sc)
						e.Want = NE
						for j, r := range prog.Returns(fn) {
							if !prog.MayPrecede(s, r) || mustPassBetween(s, r, []ssa.Instruction{dfr}) {
								continue
							}
							x.guardedSite(fmt.Sprintf("%s subscribe#%d exit#%d before-defer only-on-subscribe-error", k, i+1, j+1), r, []Cmp{e}, nil)
						}
					}
					continue
				}
				// a helper: on every error exit after a successful subscribe, the collected subscriptions are released
				// (single-resource helpers have nothing collected yet: their only error exits are the subscribe's own)
				var cleanups []ssa.Instruction
				for _, c := range prog.CallsIn(fn) {
					for _, callee := range x.P.Callees(c) {
						if reachesAny(callee, unsub) && !reachesAny(callee, sub) {
							cleanups = append(cleanups, c)
						}
					}
					if mc, ok := prog.Strip(c.Common().Value).(*ssa.MakeClosure); ok {
						if f, ok := mc.Fn.(*ssa.Function); ok && reachesAny(f, unsub) {
							cleanups = append(cleanups, c)
						}
					}
					// a closure stored in a local and called
					if prog.Reaches(c.Common().Value, func(w ssa.Value) bool {
						mc, ok := w.(*ssa.MakeClosure)
						if !ok {
							return false
						}
						f, ok := mc.Fn.(*ssa.Function)
						return ok && reachesAny(f, unsub)
					}) {
						cleanups = append(cleanups, c)
					}
				}
				multi := false
				for _, s := range subs {
					if prog.MayPrecede(s, s) { // inside a loop
						multi = true
					}
				}
				if len(subs) > 1 {
					multi = true
				}
				if !multi {
					continue
				}
				n := 0
				for _, r := range prog.Returns(fn) {
					if prog.ReturnsNilError(r) {
						continue
					}
					after := false
					for _, s := range subs {
						if prog.MayPrecede(s, r) {
							after = true
						}
					}
					if !after {
						continue
					}
					n++
					ok := false
					for _, s := range subs {
						if prog.MayPrecede(s, r) && mustPassBetween(s, r, cleanups) {
							ok = true
						}
					}
					x.check(ok, fmt.Sprintf("%s error-exit#%d releases-collected-subscriptions", k, n), x.pos(r), "already acquired subscriptions are released on this error exit",
						"an error exit of a helper that subscribes several resources does not release the subscriptions it already holds: they stay in the map forever")
				}
			}
			if owners < 2 {
				x.C.Vacuous(x.id()+" owners of subscriptions", owners, 2)
			}
		}})
}

func init() {
	register(&Rule{ID: "PS.dedup", Min: 2, Text: "the batching de-duplication of DocChanged events is per publisher: in the OnEnqueue callback of a document's subscriptions every access to the pending-count map is keyed by the new event's Actor — together with the self-filter (a watcher is not sent its own events) a per-document key drops the only event that would have told a client about somebody else's change",
		Run: func(x *Ctx) {
			fn := x.fn("server/backend/pubsub.newSubscriptions")
			actorF := x.P.Field("api/types/events.DocEvent.Actor")
			if fn == nil || actorF == nil {
				x.C.Unresolved(x.id(), "pubsub.newSubscriptions / DocEvent.Actor")
				return
			}
			n := 0
			for _, cl := range prog.Closures(fn) {
				// the callback with (queue, newEvent) parameters returning (queue, bool)
				if len(cl.Params) != 2 || cl.Signature.Results().Len() != 2 {
					continue
				}
				ev := cl.Params[1]
				fromActor := func(k ssa.Value) bool {
					return prog.DependsOn(k, func(w ssa.Value) bool {
						f := prog.LoadedField(w)
						if f == nil {
							if fv, ok := prog.Strip(w).(*ssa.Field); ok {
								f = prog.FieldVar(fv)
							}
						}
						return f == actorF
					}) && prog.DependsOn(k, func(w ssa.Value) bool {
						return w == ssa.Value(ev) || prog.Reaches(w, func(u ssa.Value) bool { return u == ssa.Value(ev) })
					})
				}
				i := 0
				for _, b := range cl.Blocks {
					for _, ins := range b.Instrs {
						var key ssa.Value
						switch t := ins.(type) {
						case *ssa.Lookup:
							if _, isMap := t.X.Type().Underlying().(*types.Map); isMap {
								key = t.Index
							}
						case *ssa.MapUpdate:
							key = t.Key
						}
						if key == nil {
							continue
						}
						i++
						n++
						x.check(fromActor(key), fmt.Sprintf("func=%s map-access#%d keyed-by-event.Actor", prog.FnName(cl), i), x.pos(ins), "the count is kept per publisher", "the pending-DocChanged counter is not keyed by the publisher: events of different publishers for one document suppress each other, and with the self-filter a watcher is never told about another client's change")
					}
				}
			}
			if n < 2 {
				x.C.Vacuous(x.id()+" map accesses", n, 2)
			}
		}})
}
