package rules

import (
	"fmt"
	"go/token"
	"go/types"
	"sort"
	"strings"

	"yv/internal/prog"

	"golang.org/x/tools/go/ssa"
)

// opExecutes returns the Execute method of every operation type.
func (x *Ctx) opExecutes() map[string]*ssa.Function {
	out := map[string]*ssa.Function{}
	opI := x.P.Named(opsPkg + ".Operation")
	if opI == nil {
		x.C.Unresolved(x.id(), opsPkg+".Operation")
		return out
	}
	for _, m := range x.P.Implementers(opI) {
		if m.Obj().Pkg() != opI.Obj().Pkg() {
			continue
		}
		if f := x.P.MethodOf(m, "Execute"); f != nil && f.Blocks != nil {
			out[m.Obj().Name()] = f
		}
	}
	return out
}

// mutators computes the functions of the CRDT model (packages crdt, index, splay,
// llrb, treelist, resource are the model; Root included) that may modify shared
// state: they store through a pointer that is not a fresh local object, update or
// delete from a map they did not just make, or call such a function.
func (x *Ctx) mutators() map[*ssa.Function]bool {
	if x.P == nil {
		return nil
	}
	scope := x.P.FuncsIn(crdtPkg, "pkg/index", "pkg/splay", "pkg/llrb", "pkg/treelist")
	mut := map[*ssa.Function]bool{}
	var local func(v ssa.Value) bool
	localRoot = func(v ssa.Value) bool { return local(v) }
	local = func(v ssa.Value) bool { // address rooted in a local allocation of this function
		for i := 0; i < 8; i++ {
			switch t := v.(type) {
			case *ssa.Alloc:
				return true
			case *ssa.FieldAddr:
				v = t.X
			case *ssa.IndexAddr:
				v = t.X
			case *ssa.MakeMap, *ssa.MakeSlice:
				return true
			case *ssa.Call:
				if o := prog.CallObj(t); o != nil && (strings.HasPrefix(o.Name(), "New") || strings.HasPrefix(o.Name(), "new") || strings.HasPrefix(o.Name(), "DeepCopy")) {
					return true // a freshly constructed object
				}
				return false
			case *ssa.Extract:
				v = t.Tuple
			case *ssa.Phi:
				for _, e := range t.Edges {
					if !localRoot(e) {
						return false
					}
				}
				return true
			case *ssa.UnOp:
				if a, ok := t.X.(*ssa.Alloc); ok {
					// a local variable holding a pointer: fresh only if everything stored is fresh
					fresh := true
					for _, r := range *a.Referrers() {
						if st, ok := r.(*ssa.Store); ok && st.Addr == ssa.Value(a) {
							switch st.Val.(type) {
							case *ssa.Alloc, *ssa.MakeMap, *ssa.MakeSlice:
							default:
								fresh = false
							}
						}
					}
					return fresh
				}
				return false
			default:
				return false
			}
		}
		return false
	}
	for _, fn := range scope {
		if strings.HasPrefix(fn.Name(), "DeepCopy") || strings.HasPrefix(fn.Name(), "deepCopy") {
			continue // returns a copy by contract (its stores go into the copy)
		}
		for _, b := range fn.Blocks {
			for _, ins := range b.Instrs {
				switch t := ins.(type) {
				case *ssa.Store:
					if _, isAlloc := t.Addr.(*ssa.Alloc); isAlloc {
						continue
					}
					if !local(t.Addr) {
						mut[fn] = true
					}
				case *ssa.MapUpdate:
					if !local(t.Map) {
						mut[fn] = true
					}
				case ssa.CallInstruction:
					if bi, ok := t.Common().Value.(*ssa.Builtin); ok && bi.Name() == "delete" {
						if !local(t.Common().Args[0]) {
							mut[fn] = true
						}
					}
				}
			}
		}
	}
	ci := x.calls()
	for changed := true; changed; {
		changed = false
		for _, fn := range scope {
			if mut[fn] || strings.HasPrefix(fn.Name(), "DeepCopy") || strings.HasPrefix(fn.Name(), "deepCopy") {
				continue
			}
			for _, e := range ci.out[fn] {
				if mut[e.Callee] {
					mut[fn] = true
					changed = true
					break
				}
			}
		}
	}
	return mut
}

var localRoot func(ssa.Value) bool

// callMayMutate: does this call (static, or an invoke resolved to module types)
// reach a mutator of the model?
func (x *Ctx) callMayMutate(c ssa.CallInstruction, mut map[*ssa.Function]bool) (bool, string) {
	for _, callee := range x.P.Callees(c) {
		if mut[callee] {
			return true, prog.FnName(callee)
		}
		if o := callee.Origin(); o != nil && mut[o] {
			return true, prog.FnName(o)
		}
	}
	return false, ""
}

func init() {
	register(&Rule{ID: "A5.copy", Min: 3, Text: "operations never hand their own operand to a document: the same Change is executed on the clone and then on the real root (and again by every replay), so in every Operation.Execute an element loaded from a field of the operation may be passed to a function of the CRDT model (a container mutator or a Root registration) only through DeepCopy; accessors on it (CreatedAt, …) are fine",
		Run: func(x *Ctx) {
			elI := x.P.Named(crdtPkg + ".Element")
			if elI == nil {
				x.C.Unresolved(x.id(), crdtPkg+".Element")
				return
			}
			n := 0
			for name, fn := range x.opExecutes() {
				isOpElem := func(v ssa.Value) bool {
					f := prog.LoadedField(v)
					if f == nil {
						return false
					}
					if !types.Identical(f.Type(), elI) && !isNamed(f.Type(), elI) {
						return false
					}
					base := prog.FieldBase(v)
					return base != nil && prog.Reaches(base, func(w ssa.Value) bool { return w == ssa.Value(fn.Params[0]) })
				}
				uses := 0
				for _, c := range prog.CallsIn(fn) {
					o := prog.CallObj(c)
					if o == nil {
						continue
					}
					args := c.Common().Args
					if !c.Common().IsInvoke() && o.Type().(*types.Signature).Recv() != nil && len(args) > 0 {
						args = args[1:] // the receiver of a static method call is not an argument
					}
					for _, a := range args {
						if !prog.Reaches(a, isOpElem) {
							continue
						}
						if pn := x.P.Named(crdtPkg + ".Primitive"); pn != nil && isNamed(a.Type(), pn) {
							continue // an immutable value holder that the callee only reads
						}
						uses++
						// the callee belongs to the model?
						inModel := false
						pkgPath := ""
						if o.Pkg() != nil {
							pkgPath = o.Pkg().Path()
						}
						if strings.HasSuffix(pkgPath, "/"+crdtPkg) {
							inModel = true
						}
						n++
						k := fmt.Sprintf("op=%s call=%s#%d", name, o.Name(), n)
						x.check(!inModel, k, x.pos(c), "the operand is only handed to non-model code",
							"the operation's own element is passed into the CRDT model without DeepCopy: the clone and the real document (and every replay) then share one object, so an edit of the clone writes through to the document")
					}
				}
				// the operand reaches the model through DeepCopy at least where the operation has one
				for _, c := range prog.CallsIn(fn) {
					if o := prog.CallObj(c); o != nil && o.Name() == "DeepCopy" {
						if recv := recvOf(c); recv != nil && prog.Reaches(recv, isOpElem) {
							n++
							x.hold(fmt.Sprintf("op=%s operand-deep-copied#%d", name, n), x.pos(c), "the operand is copied before it enters the document")
						}
					}
				}
			}
		}})

	register(&Rule{ID: "S6", Min: 4, Text: "vanished targets are skipped, not failed or executed: in Set.Execute and Remove.Execute the container mutation is unreachable from the edge on which isRemovedOrOrphaned(target) is true under undo/redo, and that edge returns ErrOperationSkipped; the test is made only for OpSourceUndoRedo",
		Run: func(x *Ctx) {
			orph := x.P.FnObj(opsPkg + ".isRemovedOrOrphaned")
			skipped := x.P.Lookup(opsPkg + ".ErrOperationSkipped")
			ur, okU := x.constInt(opsPkg + ".OpSourceUndoRedo")
			if orph == nil || skipped == nil || !okU {
				x.C.Unresolved(x.id(), "isRemovedOrOrphaned / ErrOperationSkipped / OpSourceUndoRedo")
				return
			}
			mut := x.mutators()
			ex := x.opExecutes()
			for _, name := range []string{"Set", "Remove"} {
				fn := ex[name]
				if fn == nil {
					x.C.Unresolved(x.id(), name+".Execute")
					continue
				}
				k := "op=" + name
				gone := isTrue(vpCall(orph))
				nm := 0
				for _, c := range prog.CallsIn(fn) {
					if m, _ := x.callMayMutate(c, mut); m {
						nm++
						x.rejectOn(fmt.Sprintf("%s mutation#%d unreachable-when-target-vanished", k, nm), c, gone)
					}
				}
				if nm == 0 {
					x.fail(k+" mutations", x.fpos(fn), "no mutation found in Execute")
				}
				okRet := false
				for _, r := range prog.Returns(fn) {
					if prog.ReturnsNilError(r) {
						continue
					}
					if prog.DependsOn(prog.ReturnValue(r, len(r.Results)-1), func(v ssa.Value) bool { g, ok := v.(*ssa.Global); return ok && g.Object() == skipped }) {
						src := vpParam(fn, 2)
						if x.quietGuarded(r, []Cmp{gone}) && x.quietGuarded(r, []Cmp{{L: src, R: vpConst(ur), Want: EQ}}) {
							okRet = true
						}
					}
				}
				x.check(okRet, k+" vanished-under-undo-redo-returns-ErrOperationSkipped", x.fpos(fn), "the operation declines with the sentinel", "a vanished target under undo/redo no longer yields ErrOperationSkipped (the undo fails or edits a removed subtree)")
			}
		}})

	s7 := func(id string, min int, only map[string]bool) {
		register(&Rule{ID: id, Min: min, Text: "source symmetry: the effect of an operation on the document must not depend on who executes it. In every Operation.Execute, code that is control-dependent on the source parameter (directly, through NeedsReverse, or through a flag derived from it and passed into the model) may return ErrOperationSkipped, build or skip the reverse operation and read state, but may not call a mutator of the CRDT model or of Root (mutators are computed: functions that store through non-local pointers or update maps, transitively)",
			Run: func(x *Ctx) {
				mut := x.mutators()
				x.C.Count("mutating functions of the CRDT model", len(mut))
				if len(mut) < 100 {
					x.C.Vacuous(x.id()+" mutators", len(mut), 100)
				}
				var names []string
				ex := x.opExecutes()
				for n := range ex {
					names = append(names, n)
				}
				sort.Strings(names)
				var analyse func(fn *ssa.Function, flag func(ssa.Value) bool, label string, depth int)
				analyse = func(fn *ssa.Function, flag func(ssa.Value) bool, label string, depth int) {
					dep := func(v ssa.Value) bool { return predicateOf(v, flag, 0) }
					// blocks from which a success return is reachable (error exits are not effects on the document)
					live := map[*ssa.BasicBlock]bool{}
					for _, r := range prog.Returns(fn) {
						last := len(r.Results) - 1
						if last >= 0 && isErrorType(r.Results[last].Type()) && !prog.ReturnsNilError(r) {
							continue
						}
						live[r.Block()] = true
					}
					for changed := true; changed; {
						changed = false
						for _, b := range fn.Blocks {
							if live[b] {
								continue
							}
							for _, s := range b.Succs {
								if live[s] {
									live[b] = true
									changed = true
								}
							}
						}
					}
					// regions control-dependent on the flag
					region := map[*ssa.BasicBlock]string{}
					nReg := 0
					for _, b := range fn.Blocks {
						iff := prog.IfOf(b)
						if iff == nil || !dep(iff.Cond) {
							continue
						}
						nReg++
						for i, s := range b.Succs {
							if len(s.Preds) != 1 {
								continue // a join, not a branch body
							}
							for _, d := range fn.Blocks {
								if s.Dominates(d) {
									region[d] = fmt.Sprintf("%s branch %d of the test at %s", label, i, x.P.InstrPos(iff))
								}
							}
						}
					}
					bad := 0
					for b, why := range region {
						if !live[b] {
							continue
						}
						for _, ins := range b.Instrs {
							c, ok := ins.(ssa.CallInstruction)
							if !ok {
								continue
							}
							if m, callee := x.callMayMutate(c, mut); m {
								bad++
								x.fail(fmt.Sprintf("%s source-conditional-mutation callee=%s", label, callee), x.pos(c),
									"a mutator of the model ("+callee+") runs only for some sources ("+why+"): the replica that performs the edit and the replicas that receive it end in different states")
							}
						}
					}
					if bad == 0 {
						x.hold(label+" source-conditional-regions", x.fpos(fn), fmt.Sprintf("%d source-conditional region(s), no mutator in them", nReg))
					}
					// flags escaping into the model
					if depth >= 2 {
						return
					}
					for _, c := range prog.CallsIn(fn) {
						callee := c.Common().StaticCallee()
						if callee == nil || callee.Blocks == nil || !strings.HasSuffix(prog.PkgOf(callee), "/"+crdtPkg) {
							continue
						}
						for i, a := range c.Common().Args {
							if i >= len(callee.Params) {
								continue
							}
							if b, ok := a.Type().Underlying().(*types.Basic); !ok || b.Kind() != types.Bool {
								continue
							}
							if dep(a) {
								pm := callee.Params[i]
								analyse(callee, func(v ssa.Value) bool { return v == ssa.Value(pm) }, label+"→"+callee.Name()+"("+pm.Name()+")", depth+1)
							}
						}
					}
				}
				for _, n := range names {
					fn := ex[n]
					if len(fn.Params) < 3 || (only != nil && !only[n]) {
						continue
					}
					src := fn.Params[2]
					analyse(fn, func(v ssa.Value) bool { return v == ssa.Value(src) }, "op="+n, 0)
				}
			}})
	}
	s7("S7", 10, nil)
	s7("S7.tree", 2, map[string]bool{"TreeEdit": true, "TreeStyle": true})

	register(&Rule{ID: "REV", Min: 12, Text: "every operation kind yields a reverse: each Operation.Execute has a success path whose ExecutionResult.Reverse is a constructed operation; Change.Execute collects them and Document pushes them (O1.history); executeUndoRedo re-tickets restored array elements (Add, ArraySet) and tree content (TreeEdit) and reconciles the stacks with the new identity in the same branch",
		Run: func(x *Ctx) {
			revF := x.P.Field(opsPkg + ".ExecutionResult.Reverse")
			if revF == nil {
				x.C.Unresolved(x.id(), opsPkg+".ExecutionResult.Reverse")
				return
			}
			for name, fn := range x.opExecutes() {
				has := false
				for _, st := range storesTo(fn, revF) {
					if !prog.IsNilConst(st.Val) {
						has = true
					}
				}
				x.check(has, "op="+name+" builds-reverse", x.fpos(fn), "a reverse operation is produced", "this operation no longer produces a reverse operation: it cannot be undone")
			}
			if fn := x.fn(docPkg + ".(*Document).executeUndoRedo"); fn != nil {
				k := "func=" + prog.FnName(fn)
				rec := x.P.FnObj(docPkg + ".(*History).ReconcileCreatedAt")
				for _, t := range []string{"Add", "ArraySet"} {
					opT := x.P.Named(opsPkg + "." + t)
					// a type assertion to *T whose ok edge leads to SetCreatedAt and ReconcileCreatedAt
					found := false
					for _, b := range fn.Blocks {
						for _, ins := range b.Instrs {
							ta, ok := ins.(*ssa.TypeAssert)
							if !ok || !isNamed(ta.AssertedType, opT) {
								continue
							}
							var okv ssa.Value
							for _, r := range *ta.Referrers() {
								if e, isE := r.(*ssa.Extract); isE && e.Index == 1 {
									okv = e
								}
							}
							if okv == nil {
								continue
							}
							g := []Cmp{isTrue(VP{"is *" + t, func(v ssa.Value) bool { return v == okv }})}
							setC, recC := false, false
							for _, c := range prog.CallsIn(fn) {
								if c.Common().IsInvoke() && c.Common().Method.Name() == "SetCreatedAt" && x.quietGuarded(c, g) {
									setC = true
								}
								if sameFunc(prog.CallObj(c), rec) && x.quietGuarded(c, g) {
									recC = true
								}
							}
							if setC && recC {
								found = true
							}
						}
					}
					x.check(found, k+" re-tickets="+t, x.fpos(fn), "the restored element gets a fresh identity and the stacks are reconciled", "undo/redo no longer re-tickets a restored "+t+" value together with ReconcileCreatedAt: the restored element collides with its own tombstone")
				}
			}
			_ = token.ADD
		}})
}

// predicateOf: v is a boolean computed from the flag by comparisons, boolean
// operators and the OpSource predicates only (not through arbitrary calls).
func predicateOf(v ssa.Value, flag func(ssa.Value) bool, depth int) bool {
	if v == nil || depth > 12 {
		return false
	}
	if flag(v) {
		return true
	}
	switch t := v.(type) {
	case *ssa.BinOp:
		return predicateOf(t.X, flag, depth+1) || predicateOf(t.Y, flag, depth+1)
	case *ssa.UnOp:
		if t.Op == token.MUL {
			if a, ok := t.X.(*ssa.Alloc); ok {
				for _, r := range *a.Referrers() {
					if st, ok := r.(*ssa.Store); ok && st.Addr == ssa.Value(a) && predicateOf(st.Val, flag, depth+1) {
						return true
					}
				}
			}
			return false
		}
		return predicateOf(t.X, flag, depth+1)
	case *ssa.Phi:
		for _, e := range t.Edges {
			if predicateOf(e, flag, depth+1) {
				return true
			}
		}
		// a short-circuit phi: the tests feeding its constant edges
		if _, conds, ok := boolPhi(t); ok {
			for _, c := range conds {
				if c.V != ssa.Value(t) && predicateOf(c.V, flag, depth+1) {
					return true
				}
			}
		}
	case *ssa.Convert:
		return predicateOf(t.X, flag, depth+1)
	case *ssa.ChangeType:
		return predicateOf(t.X, flag, depth+1)
	case *ssa.Call:
		if o := prog.CallObj(t); o != nil && o.Name() == "NeedsReverse" && len(t.Call.Args) > 0 {
			return predicateOf(t.Call.Args[0], flag, depth+1)
		}
	}
	return false
}
