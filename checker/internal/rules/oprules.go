package rules

import (
	"fmt"
	"go/token"
	"go/types"
	"sort"
	"strings"

	"yv/internal/prog"

	"golang.org/x/tools/go/ssa"
)

// opExecutes returns the Execute method of every operation type.
func (x *Ctx) opExecutes() map[string]*ssa.Function {
	out := map[string]*ssa.Function{}
	opI := x.P.Named(opsPkg + ".Operation")
	if opI == nil {
		x.C.Unresolved(x.id(), opsPkg+".Operation")
		return out
	}
	for _, m := range x.P.Implementers(opI) {
		if m.Obj().Pkg() != opI.Obj().Pkg() {
			continue
		}
		if f := x.P.MethodOf(m, "Execute"); f != nil && f.Blocks != nil {
			out[m.Obj().Name()] = f
		}
	}
	return out
}

// mutators computes the functions of the CRDT model (packages crdt, index, splay,
// llrb, treelist, resource are the model; Root included) that may modify shared
// state: they store through a pointer that is not a fresh local object, update or
// delete from a map they did not just make, or call such a function.
func (x *Ctx) mutators() map[*ssa.Function]bool {
	if x.P == nil {
		return nil
	}
	scope := x.P.FuncsIn(crdtPkg, "pkg/index", "pkg/splay", "pkg/llrb", "pkg/treelist")
	mut := map[*ssa.Function]bool{}
	var local func(v ssa.Value) bool
	localRoot = func(v ssa.Value) bool { return local(v) }
	local = func(v ssa.Value) bool { // address rooted in a local allocation of this function
		for i := 0; i < 8; i++ {
			switch t := v.(type) {
			case *ssa.Alloc:
				return true
			case *ssa.FieldAddr:
				v = t.X
			case *ssa.IndexAddr:
				v = t.X
			case *ssa.MakeMap, *ssa.MakeSlice:
				return true
			case *ssa.Call:
				if o := prog.CallObj(t); o != nil && (strings.HasPrefix(o.Name(), "New") || strings.HasPrefix(o.Name(), "new") || strings.HasPrefix(o.Name(), "DeepCopy")) {
					return true // a freshly constructed object
				}
				return false
			case *ssa.Extract:
				v = t.Tuple
			case *ssa.Phi:
				for _, e := range t.Edges {
					if !localRoot(e) {
						return false
					}
				}
				return true
			case *ssa.UnOp:
				if a, ok := t.X.(*ssa.Alloc); ok {
					// a local variable holding a pointer: fresh only if everything stored is fresh
					fresh := true
					for _, r := range *a.Referrers() {
						if st, ok := r.(*ssa.Store); ok && st.Addr == ssa.Value(a) {
							switch st.Val.(type) {
							case *ssa.Alloc, *ssa.MakeMap, *ssa.MakeSlice:
							default:
								fresh = false
							}
						}
					}
					return fresh
				}
				return false
			default:
				return false
			}
		}
		return false
	}
	for _, fn := range scope {
		if strings.HasPrefix(fn.Name(), "DeepCopy") || strings.HasPrefix(fn.Name(), "deepCopy") {
			continue // returns a copy by contract (its stores go into the copy)
		}
		for _, b := range fn.Blocks {
			for _, ins := range b.Instrs {
				switch t := ins.(type) {
				case *ssa.Store:
					if _, isAlloc := t.Addr.(*ssa.Alloc); isAlloc {
						continue
					}
					if !local(t.Addr) {
						mut[fn] = true
					}
				case *ssa.MapUpdate:
					if !local(t.Map) {
						mut[fn] = true
					}
				case ssa.CallInstruction:
					if bi, ok := t.Common().Value.(*ssa.Builtin); ok && bi.Name() == "delete" {
						if !local(t.Common().Args[0]) {
							mut[fn] = true
						}
					}
				}
			}
		}
	}
	ci := x.calls()
	for changed := true; changed; {
		changed = false
		for _, fn := range scope {
			if mut[fn] || strings.HasPrefix(fn.Name(), "DeepCopy") || strings.HasPrefix(fn.Name(), "deepCopy") {
				continue
			}
			for _, e := range ci.out[fn] {
				if mut[e.Callee] {
					mut[fn] = true
					changed = true
					break
				}
			}
		}
	}
	return mut
}

var localRoot func(ssa.Value) bool

// callMayMutate: does this call (static, or an invoke resolved to module types)
// reach a mutator of the model?
func (x *Ctx) callMayMutate(c ssa.CallInstruction, mut map[*ssa.Function]bool) (bool, string) {
	for _, callee := range x.P.Callees(c) {
		if mut[callee] {
			return true, prog.FnName(callee)
		}
		if o := callee.Origin(); o != nil && mut[o] {
			return true, prog.FnName(o)
		}
	}
	return false, ""
}

func init() {
	register(&Rule{ID: "A5.copy", Min: 3, Text: "operations never hand their own operand to a document: the same Change is executed on the clone and then on the real root (and again by every replay), so in every Operation.Execute an element loaded from a field of the operation may be passed to a function of the CRDT model (a container mutator or a Root registration) only through DeepCopy; accessors on it (CreatedAt, …) are fine",
		Run: func(x *Ctx) {
			elI := x.P.Named(crdtPkg + ".Element")
			if elI == nil {
				x.C.Unresolved(x.id(), crdtPkg+".Element")
				return
			}
			n := 0
			for name, fn := range x.opExecutes() {
				isOpElem := func(v ssa.Value) bool {
					f := prog.LoadedField(v)
					if f == nil {
						return false
					}
					if !types.Identical(f.Type(), elI) && !isNamed(f.Type(), elI) {
						return false
					}
					base := prog.FieldBase(v)
					return base != nil && prog.Reaches(base, func(w ssa.Value) bool { return w == ssa.Value(fn.Params[0]) })
				}
				uses := 0
				for _, c := range prog.CallsIn(fn) {
					o := prog.CallObj(c)
					if o == nil {
						continue
					}
					args := c.Common().Args
					if !c.Common().IsInvoke() && o.Type().(*types.Signature).Recv() != nil && len(args) > 0 {
						args = args[1:] // the receiver of a static method call is not an argument
					}
					for _, a := range args {
						if !prog.Reaches(a, isOpElem) {
							continue
						}
						if pn := x.P.Named(crdtPkg + ".Primitive"); pn != nil && isNamed(a.Type(), pn) {
							continue // an immutable value holder that the callee only reads
						}
						uses++
						// the callee belongs to the model?
						inModel := false
						pkgPath := ""
						if o.Pkg() != nil {
							pkgPath = o.Pkg().Path()
						}
						if strings.HasSuffix(pkgPath, "/"+crdtPkg) {
							inModel = true
						}
						n++
						k := fmt.Sprintf("op=%s call=%s#%d", name, o.Name(), n)
						x.check(!inModel, k, x.pos(c), "the operand is only handed to non-model code",
							"the operation's own element is passed into the CRDT model without DeepCopy: the clone and the real document (and every replay) then share one object, so an edit of the clone writes through to the document")
					}
				}
				// the operand reaches the model through DeepCopy at least where the operation has one
				for _, c := range prog.CallsIn(fn) {
					if o := prog.CallObj(c); o != nil && o.Name() == "DeepCopy" {
						if recv := recvOf(c); recv != nil && prog.Reaches(recv, isOpElem) {
							n++
							x.hold(fmt.Sprintf("op=%s operand-deep-copied#%d", name, n), x.pos(c), "the operand is copied before it enters the document")
						}
					}
				}
			}
		}})

	register(&Rule{ID: "S6", Min: 4, Text: "vanished targets are skipped, not failed or executed: in Set.Execute and Remove.Execute the container mutation is unreachable from the edge on which isRemovedOrOrphaned(target) is true under undo/redo, and that edge returns ErrOperationSkipped; the test is made only for OpSourceUndoRedo",
		Run: func(x *Ctx) {
			orph := x.P.FnObj(opsPkg + ".isRemovedOrOrphaned")
			skipped := x.P.Lookup(opsPkg + ".ErrOperationSkipped")
			ur, okU := x.constInt(opsPkg + ".OpSourceUndoRedo")
			if orph == nil || skipped == nil || !okU {
				x.C.Unresolved(x.id(), "isRemovedOrOrphaned / ErrOperationSkipped / OpSourceUndoRedo")
				return
			}
			mut := x.mutators()
			ex := x.opExecutes()
			for _, name := range []string{"Set", "Remove"} {
				fn := ex[name]
				if fn == nil {
					x.C.Unresolved(x.id(), name+".Execute")
					continue
				}
				k := "op=" + name
				gone := isTrue(vpCall(orph))
				nm := 0
				for _, c := range prog.CallsIn(fn) {
					if m, _ := x.callMayMutate(c, mut); m {
						nm++
						x.rejectOn(fmt.Sprintf("%s mutation#%d unreachable-when-target-vanished", k, nm), c, gone)
					}
				}
				if nm == 0 {
					x.fail(k+" mutations", x.fpos(fn), "no mutation found in Execute")
				}
				okRet := false
				for _, r := range prog.Returns(fn) {
					if prog.ReturnsNilError(r) {
						continue
					}
					if prog.DependsOn(prog.ReturnValue(r, len(r.Results)-1), func(v ssa.Value) bool { g, ok := v.(*ssa.Global); return ok && g.Object() == skipped }) {
						src := vpParam(fn, 2)
						if x.quietGuarded(r, []Cmp{gone}) && x.quietGuarded(r, []Cmp{{L: src, R: vpConst(ur), Want: EQ}}) {
							okRet = true
						}
					}
				}
				x.check(okRet, k+" vanished-under-undo-redo-returns-ErrOperationSkipped", x.fpos(fn), "the operation declines with the sentinel", "a vanished target under undo/redo no longer yields ErrOperationSkipped (the undo fails or edits a removed subtree)")
			}
		}})

	s7 := func(id string, min int, only map[string]bool) {
		register(&Rule{ID: id, Min: min, Text: "source symmetry: the effect of an operation on the document must not depend on who executes it. In every Operation.Execute, code that is control-dependent on the source parameter (directly, through NeedsReverse, or through a flag derived from it and passed into the model) may return ErrOperationSkipped, build or skip the reverse operation and read state, but may not call a mutator of the CRDT model or of Root (mutators are computed: functions that store through non-local pointers or update maps, transitively)",
			Run: func(x *Ctx) {
				mut := x.mutators()
				x.C.Count("mutating functions of the CRDT model", len(mut))
				if len(mut) < 100 {
					x.C.Vacuous(x.id()+" mutators", len(mut), 100)
				}
				var names []string
				ex := x.opExecutes()
				for n := range ex {
					names = append(names, n)
				}
				sort.Strings(names)
				var analyse func(fn *ssa.Function, flag func(ssa.Value) bool, label string, depth int)
				analyse = func(fn *ssa.Function, flag func(ssa.Value) bool, label string, depth int) {
					dep := func(v ssa.Value) bool { return predicateOf(v, flag, 0) }
					// blocks from which a success return is reachable (error exits are not effects on the document)
					live := map[*ssa.BasicBlock]bool{}
					for _, r := range prog.Returns(fn) {
						last := len(r.Results) - 1
						if last >= 0 && isErrorType(r.Results[last].Type()) && !prog.ReturnsNilError(r) {
							continue
						}
						live[r.Block()] = true
					}
					for changed := true; changed; {
						changed = false
						for _, b := range fn.Blocks {
							if live[b] {
								continue
							}
							for _, s := range b.Succs {
								if live[s] {
									live[b] = true
									changed = true
								}
							}
						}
					}
					// regions control-dependent on the flag
					region := map[*ssa.BasicBlock]string{}
					nReg := 0
					for _, b := range fn.Blocks {
						iff := prog.IfOf(b)
						if iff == nil || !dep(iff.Cond) {
							continue
						}
						nReg++
						for i, s := range b.Succs {
							if len(s.Preds) != 1 {
								continue // a join, not a branch body
							}
							for _, d := range fn.Blocks {
								if s.Dominates(d) {
									region[d] = fmt.Sprintf("%s branch %d of the test at %s", label, i, x.P.InstrPos(iff))
								}
							}
						}
					}
					bad := 0
					for b, why := range region {
						if !live[b] {
							continue
						}
						for _, ins := range b.Instrs {
							c, ok := ins.(ssa.CallInstruction)
							if !ok {
								continue
							}
							if m, callee := x.callMayMutate(c, mut); m {
								bad++
								x.fail(fmt.Sprintf("%s source-conditional-mutation callee=%s", label, callee), x.pos(c),
									"a mutator of the model ("+callee+") runs only for some sources ("+why+"): the replica that performs the edit and the replicas that receive it end in different states")
							}
						}
					}
					if bad == 0 {
						x.hold(label+" source-conditional-regions", x.fpos(fn), fmt.Sprintf("%d source-conditional region(s), no mutator in them", nReg))
					}
					// flags escaping into the model
					if depth >= 2 {
						return
					}
					for _, c := range prog.CallsIn(fn) {
						callee := c.Common().StaticCallee()
						if callee == nil || callee.Blocks == nil || !strings.HasSuffix(prog.PkgOf(callee), "/"+crdtPkg) {
							continue
						}
						for i, a := range c.Common().Args {
							if i >= len(callee.Params) {
								continue
							}
							if b, ok := a.Type().Underlying().(*types.Basic); !ok || b.Kind() != types.Bool {
								continue
							}
							if dep(a) {
								pm := callee.Params[i]
								analyse(callee, func(v ssa.Value) bool { return v == ssa.Value(pm) }, label+"→"+callee.Name()+"("+pm.Name()+")", depth+1)
							}
						}
					}
				}
				for _, n := range names {
					fn := ex[n]
					if len(fn.Params) < 3 || (only != nil && !only[n]) {
						continue
					}
					src := fn.Params[2]
					analyse(fn, func(v ssa.Value) bool { return v == ssa.Value(src) }, "op="+n, 0)
				}
			}})
	}
	s7("S7", 10, nil)
	s7("S7.tree", 2, map[string]bool{"TreeEdit": true, "TreeStyle": true})

	register(&Rule{ID: "REV", Min: 12, Text: "every operation kind yields a reverse: each Operation.Execute has a success path whose ExecutionResult.Reverse is a constructed operation; Change.Execute collects them and Document pushes them (O1.history); executeUndoRedo re-tickets restored array elements (Add, ArraySet) and tree content (TreeEdit) and reconciles the stacks with the new identity in the same branch",
		Run: func(x *Ctx) {
			revF := x.P.Field(opsPkg + ".ExecutionResult.Reverse")
			if revF == nil {
				x.C.Unresolved(x.id(), opsPkg+".ExecutionResult.Reverse")
				return
			}
			for name, fn := range x.opExecutes() {
				has := false
				for _, st := range storesTo(fn, revF) {
					if !prog.IsNilConst(st.Val) {
						has = true
					}
				}
				x.check(has, "op="+name+" builds-reverse", x.fpos(fn), "a reverse operation is produced", "this operation no longer produces a reverse operation: it cannot be undone")
			}
			if fn := x.fn(docPkg + ".(*Document).executeUndoRedo"); fn != nil {
				k := "func=" + prog.FnName(fn)
				rec := x.P.FnObj(docPkg + ".(*History).ReconcileCreatedAt")
				for _, t := range []string{"Add", "ArraySet"} {
					opT := x.P.Named(opsPkg + "." + t)
					// a type assertion to *T whose ok edge leads to SetCreatedAt and ReconcileCreatedAt
					found := false
					for _, b := range fn.Blocks {
						for _, ins := range b.Instrs {
							ta, ok := ins.(*ssa.TypeAssert)
							if !ok || !isNamed(ta.AssertedType, opT) {
								continue
							}
							var okv ssa.Value
							for _, r := range *ta.Referrers() {
								if e, isE := r.(*ssa.Extract); isE && e.Index == 1 {
									okv = e
								}
							}
							if okv == nil {
								continue
							}
							g := []Cmp{isTrue(VP{"is *" + t, func(v ssa.Value) bool { return v == okv }})}
							setC, recC := false, false
							for _, c := range prog.CallsIn(fn) {
								if c.Common().IsInvoke() && c.Common().Method.Name() == "SetCreatedAt" && x.quietGuarded(c, g) {
									setC = true
								}
								if sameFunc(prog.CallObj(c), rec) && x.quietGuarded(c, g) {
									recC = true
								}
							}
							if setC && recC {
								found = true
							}
						}
					}
					x.check(found, k+" re-tickets="+t, x.fpos(fn), "the restored element gets a fresh identity and the stacks are reconciled", "undo/redo no longer re-tickets a restored "+t+" value together with ReconcileCreatedAt: the restored element collides with its own tombstone")
				}
			}
			_ = token.ADD
		}})
}

// predicateOf: v is a boolean computed from the flag by comparisons, boolean
// operators and the OpSource predicates only (not through arbitrary calls).
func predicateOf(v ssa.Value, flag func(ssa.Value) bool, depth int) bool {
	if v == nil || depth > 12 {
		return false
	}
	if flag(v) {
		return true
	}
	switch t := v.(type) {
	case *ssa.BinOp:
		return predicateOf(t.X, flag, depth+1) || predicateOf(t.Y, flag, depth+1)
	case *ssa.UnOp:
		if t.Op == token.MUL {
			if a, ok := t.X.(*ssa.Alloc); ok {
				for _, r := range *a.Referrers() {
					if st, ok := r.(*ssa.Store); ok && st.Addr == ssa.Value(a) && predicateOf(st.Val, flag, depth+1) {
						return true
					}
				}
			}
			return false
		}
		return predicateOf(t.X, flag, depth+1)
	case *ssa.Phi:
		for _, e := range t.Edges {
			if predicateOf(e, flag, depth+1) {
				return true
			}
		}
		// a short-circuit phi: the tests feeding its constant edges
		if _, conds, ok := boolPhi(t); ok {
			for _, c := range conds {
				if c.V != ssa.Value(t) && predicateOf(c.V, flag, depth+1) {
					return true
				}
			}
		}
	case *ssa.Convert:
		return predicateOf(t.X, flag, depth+1)
	case *ssa.ChangeType:
		return predicateOf(t.X, flag, depth+1)
	case *ssa.Call:
		if o := prog.CallObj(t); o != nil && o.Name() == "NeedsReverse" && len(t.Call.Args) > 0 {
			return predicateOf(t.Call.Args[0], flag, depth+1)
		}
	}
	return false
}

func init() {
	register(&Rule{ID: "S7.skip", Min: 2, Text: "the undo/redo skip guard tests the element the operation acts on: every call of operations.isRemovedOrOrphaned in an Execute method is handed the element looked up by the operation's subject ticket — Remove: the element found by createdAt (the one being removed, not its container); Set: the container found by parentCreatedAt — so an undo whose target a peer already removed is skipped instead of producing a reverse operation that resurrects it on one side only",
		Run: func(x *Ctx) {
			guard := x.P.FnObj(opsPkg + ".isRemovedOrOrphaned")
			find := x.P.FnObj(crdtPkg + ".(*Root).FindByCreatedAt")
			if guard == nil || find == nil {
				x.C.Unresolved(x.id(), "isRemovedOrOrphaned / Root.FindByCreatedAt")
				return
			}
			subject := map[string]string{"Remove": "createdAt", "Set": "parentCreatedAt"}
			n := 0
			for _, fn := range x.P.FuncsIn(opsPkg) {
				for _, c := range callsToIn(fn, guard) {
					n++
					op := ""
					if r := fn.Signature.Recv(); r != nil {
						if pt, ok := r.Type().(*types.Pointer); ok {
							if nt, ok := pt.Elem().(*types.Named); ok {
								op = nt.Obj().Name()
							}
						}
					}
					want, known := subject[op]
					if !known {
						x.fail(fmt.Sprintf("op=%s skip-guard-subject", op), x.pos(c), "a skip guard appeared in an operation for which no subject is recorded: read it and add it to the table")
						continue
					}
					f := x.P.Field(opsPkg + "." + op + "." + want)
					ok := f != nil && prog.Reaches(paramArg(c, 1), func(w ssa.Value) bool {
						fc, isC := prog.Strip(w).(*ssa.Call)
						return isC && sameFunc(prog.CallObj(fc), find) && prog.LoadedField(paramArg(fc, 0)) == f
					})
					x.check(ok, fmt.Sprintf("op=%s skip-guard-subject=%s", op, want), x.pos(c), "the guard tests the element found by "+want,
						"the undo/redo skip guard of "+op+" does not test the element found by "+want+": an undo of an element a peer already removed executes and its redo re-creates the element on the peers only")
				}
			}
			for op := range subject {
				if fn := x.fn(opsPkg + ".(*" + op + ").Execute"); fn != nil && len(callsToIn(fn, guard)) == 0 {
					x.fail(fmt.Sprintf("op=%s skip-guard-present", op), x.fpos(fn), op+".Execute no longer consults isRemovedOrOrphaned during undo/redo")
				}
			}
			if n < 2 {
				x.C.Vacuous(x.id()+" guard sites", n, 2)
			}
		}})
}

func init() {
	register(&Rule{ID: "HIST.sym", Min: 3, Text: "identity reconciliation treats both stacks alike: every History.Reconcile* method reads undoStack and redoStack and hands both to the same consumer (the same replace closure / callee): an undo followed by a redo must find the re-ticketed identity in whichever stack its reverse operation was pushed to",
		Run: func(x *Ctx) {
			hT := x.P.Named(docPkg + ".History")
			uF, rF := x.P.Field(docPkg+".History.undoStack"), x.P.Field(docPkg+".History.redoStack")
			if hT == nil || uF == nil || rF == nil {
				x.C.Unresolved(x.id(), "document.History.undoStack/redoStack")
				return
			}
			n := 0
			for _, fn := range x.P.FuncsIn(docPkg) {
				r := fn.Signature.Recv()
				if r == nil || !strings.HasPrefix(fn.Name(), "Reconcile") {
					continue
				}
				if pt, ok := r.Type().(*types.Pointer); !ok || !isNamed(pt.Elem(), hT) {
					continue
				}
				n++
				consumers := func(f *types.Var) map[string]bool {
					out := map[string]bool{}
					for _, b := range fn.Blocks {
						for _, ins := range b.Instrs {
							v, ok := ins.(ssa.Value)
							if !ok || prog.LoadedField(v) != f {
								continue
							}
							if _, isLoad := v.(*ssa.UnOp); !isLoad {
								continue
							}
							for _, ref := range *v.Referrers() {
								switch t := ref.(type) {
								case *ssa.DebugRef:
								case ssa.CallInstruction:
									cc := t.Common()
									if o := prog.CallObj(t); o != nil {
										out["call "+o.FullName()] = true
									} else if cc.IsInvoke() {
										out["invoke "+cc.Method.Name()] = true
									} else {
										out["closure "+cc.Value.Name()] = true
									}
								default:
									out["inline "+fmt.Sprintf("%T", ref)] = true
								}
							}
						}
					}
					return out
				}
				cu, cr := consumers(uF), consumers(rF)
				same := len(cu) > 0 && len(cu) == len(cr)
				for k := range cu {
					if !cr[k] {
						same = false
					}
				}
				x.check(same, "func="+prog.FnName(fn)+" both-stacks-same-consumer", x.fpos(fn), "undoStack and redoStack are processed by the same consumer",
					fmt.Sprintf("the two stacks are not processed alike (undoStack: %v, redoStack: %v): an identity re-ticketed by undo/redo stays stale in one stack and the next redo/undo targets an element that does not exist", keysOf(cu), keysOf(cr)))
			}
			if n < 3 {
				x.C.Vacuous(x.id()+" Reconcile methods", n, 3)
			}
		}})
}

func keysOf(m map[string]bool) []string {
	out := make([]string, 0, len(m))
	for k := range m {
		out = append(out, k)
	}
	sort.Strings(out)
	return out
}

func init() {
	register(&Rule{ID: "J.op", Min: 15, Text: "every local mutation of the model is shipped: in pkg/document/json (the editing proxies) a call of a mutating method of the CRDT model (mutators are computed) on an element is (a) made inside a creator callback or on an object this code has just constructed (still private), or (b) paired with pushing an operation onto the change context in the same function (change.Context.Push, directly or through a callee, before or after the mutation on every path); and (c) an element that was already handed to an operation — the result of a function that takes a creator callback and pushes — is mutated again only if another operation is pushed afterwards. A mutation without its operation changes the editing copy only: the operation, the document and every peer keep the old state",
		Run: func(x *Ctx) {
			push := x.P.FnObj("pkg/document/change.(*Context).Push")
			if push == nil {
				x.C.Unresolved(x.id(), "change.Context.Push")
				return
			}
			mut := x.mutators()
			pushers := x.reaching(push)
			exempt := map[string]string{
				"CreateRange": "splits text nodes at a position without changing content; every replica performs the same split when it executes the Edit/Style that carries the position",
			}
			isPushCall := func(d ssa.CallInstruction) bool {
				if o := prog.CallObj(d); o != nil && sameFunc(o, push) {
					return true
				}
				for _, g := range x.P.Callees(d) {
					if pushers[g] {
						return true
					}
				}
				return false
			}
			isNew := func(w ssa.Value) bool {
				c, ok := prog.Strip(w).(*ssa.Call)
				if !ok {
					return false
				}
				o := prog.CallObj(c)
				return o != nil && (strings.HasPrefix(o.Name(), "New") || strings.HasPrefix(o.Name(), "new"))
			}
			jsonFns := x.P.FuncsIn("pkg/document/json")
			// a parameter is private when every caller passes a just-constructed object or its own private parameter
			var privateParam func(fn *ssa.Function, idx int, depth int) bool
			privateParam = func(fn *ssa.Function, idx int, depth int) bool {
				if depth > 3 {
					return false
				}
				sites := 0
				for _, g := range jsonFns {
					for _, c := range prog.CallsIn(g) {
						if c.Common().StaticCallee() != fn || idx >= len(c.Common().Args) {
							continue
						}
						sites++
						a := c.Common().Args[idx]
						ok := prog.Reaches(a, func(w ssa.Value) bool {
							if isNew(w) {
								return true
							}
							if pm, isP := w.(*ssa.Parameter); isP {
								for i, q := range pm.Parent().Params {
									if q == pm && (pm.Parent() == fn && i == idx || privateParam(pm.Parent(), i, depth+1)) {
										return true
									}
								}
							}
							return false
						})
						if !ok {
							return false
						}
					}
				}
				return sites > 0
			}
			n := 0
			cnt := map[string]int{}
			for _, fn := range jsonFns {
				isCreator := false
				if fn.Parent() != nil && fn.Signature.Results().Len() == 1 {
					if nt, ok := fn.Signature.Results().At(0).Type().(*types.Named); ok && nt.Obj().Name() == "Element" {
						isCreator = true
					}
				}
				for _, c := range prog.CallsIn(fn) {
					var callee *ssa.Function
					for _, g := range x.P.Callees(c) {
						if mut[g] || (g.Origin() != nil && mut[g.Origin()]) {
							callee = g
						}
					}
					if callee == nil || callee.Signature.Recv() == nil {
						continue
					}
					if strings.Contains(prog.FnName(callee), "crdt.Root)") {
						continue // Root bookkeeping (RegisterElement, RegisterGCPair, …) is not content
					}
					n++
					cnt[prog.FnName(fn)+callee.Name()]++
					key := fmt.Sprintf("func=%s mutation=%s#%d shipped", prog.FnName(fn), callee.Name(), cnt[prog.FnName(fn)+callee.Name()])
					if why, ok := exempt[callee.Name()]; ok {
						x.C.Add(obTrivial(x.id(), key, x.pos(c), "exempt: "+why))
						continue
					}
					if isCreator {
						x.hold(key, x.pos(c), "inside a creator callback: the element is not yet part of an operation")
						continue
					}
					recv := recvOf(c)
					private := prog.Reaches(recv, func(w ssa.Value) bool {
						if isNew(w) {
							return true
						}
						if pm, isP := w.(*ssa.Parameter); isP && pm.Parent() == fn {
							for i, q := range fn.Params {
								if q == pm {
									return privateParam(fn, i, 0)
								}
							}
						}
						return false
					})
					if private {
						x.hold(key, x.pos(c), "the receiver was just constructed by this code: it is not part of the document yet")
						continue
					}
					// (c) already published: the receiver derives from the result of a pusher that takes a creator callback
					published := prog.DependsOn(recv, func(w ssa.Value) bool {
						d, ok := prog.Strip(w).(*ssa.Call)
						if !ok || !isPushCall(d) {
							return false
						}
						for _, a := range d.Call.Args {
							if _, isSig := a.Type().Underlying().(*types.Signature); isSig {
								return true
							}
						}
						return false
					})
					after, before := false, false
					for _, d := range prog.CallsIn(fn) {
						if d == c || !isPushCall(d) {
							continue
						}
						if x.P.PostDominates(d, c) {
							after = true
						}
						if prog.Dominates(d, c) {
							before = true
						}
					}
					if published {
						x.check(after, key, x.pos(c), "the element was already handed to an operation, and another operation is pushed after this mutation", "the element was already copied into an operation (it is the result of a call that pushed it) and is mutated through "+prog.FnName(callee)+" afterwards without a further operation: only the local editing copy sees the mutation")
						continue
					}
					x.check(after || before, key, x.pos(c), "the mutation is paired with an operation pushed in the same function", "the model is mutated through "+prog.FnName(callee)+" and no operation is pushed in this function: only the local editing copy changes")
				}
			}
			if n < 15 {
				x.C.Vacuous(x.id()+" mutation sites", n, 15)
			}
		}})
}

func init() {
	register(&Rule{ID: "RST", Min: 10, Text: "identity-preserving restore and retombstone (text: RGATreeSplit.restore/retombstone; tree: Tree.Restore/Retombstone) are idempotent mirror images: a piece is un-tombstoned (SetRemovedAt(nil) / unremove) only on the edge where it is removed, and every un-tombstoned target is appended to the returned list the caller un-registers from GC; a piece is re-tombstoned (SetRemovedAt(t) / remove(t)) only where it is not already removed (the removed edge skips to the next piece), the stamp is the executedAt parameter, and a GC pair whose child is that very target is appended; nodes recreated for purged regions carry the span's original creation ticket, never the ticket of the undo",
		Run: func(x *Ctx) {
			type spec struct {
				fn     string
				revive bool
			}
			removedNE := Cmp{L: vpStamp("removedAt", []string{"removedAt"}, []string{"RemovedAt"}), R: vpNil, Want: NE}
			isRemoved := isTrue(vpStamp("IsRemoved()", nil, []string{"IsRemoved", "isRemoved"}))
			n := 0
			for _, sp := range []spec{{".(*RGATreeSplit).restore", true}, {".(*RGATreeSplit).retombstone", false}, {".(*Tree).Restore", true}, {".(*Tree).Retombstone", false}} {
				fn := x.fn(crdtPkg + sp.fn)
				if fn == nil {
					x.C.Unresolved(x.id(), crdtPkg+sp.fn)
					continue
				}
				k := "func=" + prog.FnName(fn)
				var ticketParam *ssa.Parameter
				for _, pm := range fn.Params {
					if pt, ok := pm.Type().(*types.Pointer); ok && isNamed(pt.Elem(), x.P.Named(timePkg+".Ticket")) {
						ticketParam = pm
					}
				}
				sites := 0
				for _, c := range prog.CallsIn(fn) {
					o := prog.CallObj(c)
					if o == nil {
						continue
					}
					var target, stamp ssa.Value
					switch o.Name() {
					case "SetRemovedAt":
						target, stamp = recvOf(c), paramArg(c, 0)
					case "unremove":
						target = recvOf(c)
					case "remove":
						if len(c.Common().Args) >= 2 {
							target, stamp = recvOf(c), paramArg(c, 0)
						}
					}
					if target == nil {
						continue
					}
					reviving := o.Name() == "unremove" || (o.Name() == "SetRemovedAt" && prog.IsNilConst(stamp))
					sites++
					n++
					sk := fmt.Sprintf("%s site=%s#%d", k, o.Name(), sites)
					if reviving {
						ok := x.quietGuarded(c, []Cmp{removedNE}) || x.quietGuarded(c, []Cmp{isRemoved})
						x.check(ok, sk+" only-a-removed-piece-is-revived", x.pos(c), "reached only on the edge where the piece is removed", "a piece is un-tombstoned without the test that it is removed: a live piece revived again is reported to the caller, which un-registers a GC pair that was never registered")
						// appended to a returned list
						app := false
						for _, ap := range builtinCalls(fn, "append") {
							if len(ap.Call.Args) < 2 || !prog.MayPrecede(c, ap) {
								continue
							}
							if prog.DependsOn(ap.Call.Args[1], func(w ssa.Value) bool { return prog.Strip(w) == prog.Strip(target) }) && ap.Block() == c.Block() {
								app = true
							}
						}
						n++
						x.check(app, sk+" revived-target-reported", x.pos(c), "the revived piece is appended to the list handed back to the caller", "a revived piece is not reported to the caller: its GC pair stays registered and the next garbage collection purges live content")
						continue
					}
					// re-tombstoning
					okLive := false
					for _, cm := range []Cmp{removedNE, isRemoved} {
						if x.quietReject(c, cm) {
							okLive = true
						}
					}
					x.check(okLive, sk+" only-a-live-piece-is-removed", x.pos(c), "the removed edge skips the piece", "a piece is re-tombstoned without skipping already-removed ones: its removal stamp is overwritten and a second GC pair is registered")
					n++
					x.check(ticketParam != nil && stamp != nil && prog.Reaches(stamp, func(w ssa.Value) bool { return w == ssa.Value(ticketParam) }), sk+" stamp=executedAt", x.pos(c), "the tombstone carries the operation's ticket", "the re-tombstoned piece is not stamped with the operation's executedAt")
					pair := false
					for _, ap := range builtinCalls(fn, "append") {
						if len(ap.Call.Args) < 2 || !prog.MayPrecede(c, ap) {
							continue
						}
						if prog.DependsOn(ap.Call.Args[1], func(w ssa.Value) bool { return prog.Strip(w) == prog.Strip(target) }) {
							pair = true
						}
					}
					n++
					x.check(pair, sk+" gc-pair-for-the-target", x.pos(c), "a GC pair with that target as child is appended", "no GC pair is returned for the re-tombstoned piece: the tombstone is never purged")
				}
				if sites == 0 {
					x.fail(k+" changes-liveness", x.fpos(fn), "the function no longer changes the liveness of any piece")
				}
				// recreated identities (text restore)
				if sp.revive {
					i := 0
					for _, c := range prog.CallsIn(fn) {
						o := prog.CallObj(c)
						if o == nil || o.Name() != "NewRGATreeSplitNodeID" {
							continue
						}
						n++
						i++
						a := paramArg(c, 0)
						f := prog.LoadedField(a)
						if f == nil {
							if fv, ok := prog.Strip(a).(*ssa.Field); ok {
								f = prog.FieldVar(fv)
							}
						}
						x.check(f != nil && f.Name() == "createdAt" && (ticketParam == nil || !prog.Reaches(a, func(w ssa.Value) bool { return w == ssa.Value(ticketParam) })), fmt.Sprintf("%s recreated-id#%d=span.createdAt", k, i), x.pos(c), "the recreated node carries the span's original creation ticket", "a recreated node does not carry the original creation ticket of the span: operations of other replicas that address the original identity no longer find it")
					}
				}
			}
			if n < 10 {
				x.C.Vacuous(x.id()+" sites", n, 10)
			}
		}})
}

// quietReject: rejectOn without reporting.
func (x *Ctx) quietReject(site ssa.Instruction, c Cmp) bool {
	fn := site.Parent()
	seen, ok := false, true
	for _, b := range fn.Blocks {
		iff := prog.IfOf(b)
		if iff == nil {
			continue
		}
		r, found := relOnTrue(iff.Cond, c.L, c.R, nil)
		if !found {
			continue
		}
		var bad *ssa.BasicBlock
		switch {
		case implies(r, c.Want):
			bad = b.Succs[0]
		case implies(negRel(r), c.Want):
			bad = b.Succs[1]
		default:
			continue
		}
		seen = true
		reach := map[*ssa.BasicBlock]bool{}
		q := []*ssa.BasicBlock{bad}
		for len(q) > 0 {
			cur := q[len(q)-1]
			q = q[:len(q)-1]
			if reach[cur] || (cur != b && cur.Dominates(b)) || cur == b {
				continue
			}
			reach[cur] = true
			q = append(q, cur.Succs...)
		}
		if reach[site.Block()] {
			ok = false
		}
	}
	return seen && ok
}

func init() {
	register(&Rule{ID: "OBS.edit", Min: 3, Text: "an undo/redo that changed something is propagated: Edit.Execute decides whether its identity-preserving restore/retombstone branch was observable from the effect lists the model hands back — every list of revived or recreated nodes returned by Text.Restore and the list of pairs returned by Text.Retombstone flows (through its length) into the Observable flag of the result returned on that branch; executeUndoRedo appends the change to the local changes only when some operation was observable, so an effect list left out means content that shows locally and never reaches the server",
		Run: func(x *Ctx) {
			fn := x.fn(opsPkg + ".(*Edit).Execute")
			obsF := x.P.Field(opsPkg + ".ExecutionResult.Observable")
			if fn == nil || obsF == nil {
				x.C.Unresolved(x.id(), "operations.Edit.Execute / ExecutionResult.Observable")
				return
			}
			// the Observable values stored into returned results
			var obsVals []ssa.Value
			for _, st := range storesTo(fn, obsF) {
				obsVals = append(obsVals, st.Val)
			}
			n := 0
			for _, c := range prog.CallsIn(fn) {
				o := prog.CallObj(c)
				if o == nil || !(o.Name() == "Restore" || o.Name() == "Retombstone") || c.Value() == nil {
					continue
				}
				for _, ref := range *c.Value().Referrers() {
					ex, ok := ref.(*ssa.Extract)
					if !ok {
						continue
					}
					sl, isSl := ex.Type().Underlying().(*types.Slice)
					if !isSl {
						continue
					}
					_, isPtr := sl.Elem().Underlying().(*types.Pointer)
					if o.Name() == "Restore" && !isPtr {
						continue // the born-tombstoned split remainders: GC bookkeeping, nothing a peer can see
					}
					n++
					feeds := false
					isEx := func(w ssa.Value) bool { return w == ssa.Value(ex) }
					for _, ov := range obsVals {
						if prog.DependsOn(ov, isEx) {
							feeds = true
						}
						// a || b || c is control flow: the operands decide which constant edge of the phi is taken
						prog.DependsOn(ov, func(w ssa.Value) bool {
							ph, ok := w.(*ssa.Phi)
							if !ok {
								return false
							}
							for _, pb := range ph.Block().Preds {
								conds := x.P.ControlDeps(pb)
								if iff := prog.IfOf(pb); iff != nil {
									conds = append(conds, iff)
								}
								for _, ifi := range conds {
									if ifi.Block().Parent() == fn && prog.DependsOn(ifi.Cond, isEx) {
										feeds = true
									}
								}
							}
							return false
						})
					}
					x.check(feeds, fmt.Sprintf("func=%s effects-of=%s result#%d feeds-Observable", prog.FnName(fn), o.Name(), ex.Index), x.pos(c), "the effect list decides Observable", "an effect list returned by "+o.Name()+" does not flow into the Observable flag: an undo/redo whose only effect is in that list (e.g. content recreated after it was garbage-collected) is applied locally but never appended to the local changes")
				}
			}
			if n < 3 {
				x.C.Vacuous(x.id()+" effect lists", n, 3)
			}
		}})

	register(&Rule{ID: "HIST.cap", Min: 4, Text: "the history stacks are LIFO and evict the oldest entry: PushUndo and PushRedo, on the edge where the stack is full, re-slice it from index 1 (dropping element 0) before appending; PopUndo and PopRedo return element len-1 and re-slice to [:len-1]",
		Run: func(x *Ctx) {
			n := 0
			for _, sp := range []struct{ fn, field string }{{"PushUndo", "undoStack"}, {"PushRedo", "redoStack"}, {"PopUndo", "undoStack"}, {"PopRedo", "redoStack"}} {
				fn := x.fn(docPkg + ".(*History)." + sp.fn)
				f := x.P.Field(docPkg + ".History." + sp.field)
				if fn == nil || f == nil {
					x.C.Unresolved(x.id(), docPkg+".History."+sp.fn)
					continue
				}
				n++
				k := "func=" + prog.FnName(fn)
				isLenMinus1 := func(v ssa.Value) bool {
					base, kk := affine(v)
					c, ok := prog.Strip(base).(*ssa.Call)
					if !ok || kk != -1 {
						return false
					}
					bi, isB := c.Call.Value.(*ssa.Builtin)
					return isB && bi.Name() == "len" && prog.LoadedField(c.Call.Args[0]) == f
				}
				var slices []*ssa.Slice
				for _, b := range fn.Blocks {
					for _, ins := range b.Instrs {
						if sl, ok := ins.(*ssa.Slice); ok && prog.LoadedField(sl.X) == f {
							slices = append(slices, sl)
						}
					}
				}
				if strings.HasPrefix(sp.fn, "Push") {
					ok := false
					for _, sl := range slices {
						lo, isLo := int64(0), false
						if sl.Low != nil {
							lo, isLo = prog.IntConst(sl.Low)
						}
						if isLo && lo == 1 && sl.High == nil {
							ok = true
						}
					}
					x.check(ok && len(slices) == 1, k+" evicts-oldest", x.fpos(fn), "a full stack drops element 0", "a full stack no longer drops its oldest entry (element 0): the entry evicted is a recent one and a later undo reverts an edit out of order")
					continue
				}
				okSlice, okElem := false, false
				for _, sl := range slices {
					if sl.Low == nil && sl.High != nil && isLenMinus1(sl.High) {
						okSlice = true
					}
				}
				for _, b := range fn.Blocks {
					for _, ins := range b.Instrs {
						if ia, ok := ins.(*ssa.IndexAddr); ok && prog.LoadedField(ia.X) == f && isLenMinus1(ia.Index) {
							okElem = true
						}
					}
				}
				x.check(okSlice && okElem, k+" pops-newest", x.fpos(fn), "returns element len-1 and shrinks to [:len-1]", "the pop no longer takes the newest entry (element len-1) and shrinks the stack by it")
			}
			if n < 4 {
				x.C.Vacuous(x.id()+" stack operations", n, 4)
			}
		}})

	register(&Rule{ID: "POS.inv", Min: 2, Text: "normalizePos and refinePos of RGATreeSplit are inverse walks over the physical chain in one unit: the length they add (normalizePos, over the prev links) and subtract (refinePos, over the next links) for every node they step over is the node's live length Len() (0 for a tombstone) in both — only the node the offset starts in is measured by its content; an undo anchor normalised in one unit and refined in the other lands beyond every tombstone to its left",
		Run: func(x *Ctx) {
			n := 0
			for _, sp := range []struct{ fn, link string }{{"normalizePos", "prev"}, {"refinePos", "next"}} {
				fn := x.fn(crdtPkg + ".(*RGATreeSplit)." + sp.fn)
				if fn == nil {
					x.C.Unresolved(x.id(), crdtPkg+".RGATreeSplit."+sp.fn)
					continue
				}
				n++
				units := map[string]bool{}
				for _, c := range prog.CallsIn(fn) {
					name := ""
					if o := prog.CallObj(c); o != nil {
						name = o.Name()
					} else if f := c.Common().StaticCallee(); f != nil && f.Origin() != nil {
						name = f.Origin().Name()
					}
					if name != "Len" && name != "contentLen" {
						continue
					}
					rv := recvOf(c)
					// a node reached over the chain link (the loop variable), not the starting node
					stepped := prog.Reaches(rv, func(w ssa.Value) bool {
						f := prog.LoadedField(w)
						return f != nil && f.Name() == sp.link
					})
					if stepped {
						units[name] = true
					}
				}
				x.check(len(units) == 1 && units["Len"], "func="+prog.FnName(fn)+" stepped-nodes-measured-by-Len", x.fpos(fn), "every node stepped over counts with its live length", fmt.Sprintf("the nodes stepped over are measured by %v instead of the live length Len() only: tombstones are counted on one side of the normalise/refine pair and skipped on the other", keysOf(units)))
			}
			if n < 2 {
				x.C.Vacuous(x.id()+" functions", n, 2)
			}
		}})
}

func init() {
	register(&Rule{ID: "HIST.cover", Min: 4, Text: "identity reconciliation covers every stacked operation that carries an array identity: for every operation type of package operations that offers SetCreatedAt or SetPrevCreatedAt (the setters exist for exactly this purpose), History.ReconcileCreatedAt calls that setter on that type, and it also looks at the parent identity (ParentCreatedAt) of the stacked operations, through which edits made inside a re-ticketed container name it; and executeUndoRedo applies the same rewriting to the operations that follow in the entry it is executing — an operation type left out keeps pointing at the identity an undo has just replaced; on the replica that performs the undo the old tombstone is still next to the new element, on a peer that already collected it the change cannot be applied",
		Run: func(x *Ctx) {
			fn := x.fn(docPkg + ".(*History).ReconcileCreatedAt")
			opI := x.P.Named(opsPkg + ".Operation")
			if fn == nil || opI == nil {
				x.C.Unresolved(x.id(), "History.ReconcileCreatedAt / operations.Operation")
				return
			}
			called := map[string]bool{}
			// ReconcileCreatedAt, its closures and the helpers of the package it calls
			clo := x.closureOf([]*ssa.Function{fn}, []string{docPkg})
			var fns []*ssa.Function
			for g := range clo {
				fns = append(fns, g)
				fns = append(fns, prog.Closures(g)...)
			}
			for _, g := range fns {
				for _, c := range prog.CallsIn(g) {
					if o := prog.CallObj(c); o != nil && o.Type().(*types.Signature).Recv() != nil {
						if nt := namedOf(o.Type().(*types.Signature).Recv().Type()); nt != nil {
							called[nt.Obj().Name()+"."+o.Name()] = true
						}
					}
				}
			}
			n := 0
			for _, t := range x.P.Implementers(opI) {
				if t.Obj().Pkg() != opI.Obj().Pkg() {
					continue
				}
				for _, setter := range []string{"SetCreatedAt", "SetPrevCreatedAt"} {
					if x.P.MethodOf(t, setter) == nil {
						continue
					}
					n++
					k := t.Obj().Name() + "." + setter
					x.check(called[k], "op="+t.Obj().Name()+" setter="+setter+" reconciled", x.fpos(fn), "ReconcileCreatedAt re-points this identity", "ReconcileCreatedAt never calls "+k+": a stacked "+t.Obj().Name()+" keeps the identity an undo/redo has replaced and anchors on a tombstone that peers may already have collected")
				}
			}
			// the identity a stacked operation names as its *parent*: when the re-ticketed element is a
			// container (a counter, an object, a text in an array), the operations stacked for edits made
			// inside it name it through ParentCreatedAt
			readsParent := false
			for k := range called {
				if strings.HasSuffix(k, ".ParentCreatedAt") {
					readsParent = true
				}
			}
			n++
			x.check(readsParent, "parent-identity-of-stacked-operations reconciled", x.fpos(fn), "ReconcileCreatedAt also looks at the parent identity of the stacked operations",
				"ReconcileCreatedAt never looks at ParentCreatedAt: when undo re-inserts a removed array element that is a container under a fresh identity, the operations stacked for edits made inside it (an Increase on the counter, a Set in the object) still name the old identity and run on the tombstone — [counter 0]: increase 5, delete, undo, undo leaves [5], not [0]")
			// the entry being executed: executeUndoRedo reconciles the operations that follow in the same entry too —
			// every call of ReconcileCreatedAt there goes with a call, in the same block, of a function that reaches
			// the identity setters and is handed (a slice of) the executing entries
			if host := x.fn(docPkg + ".(*Document).executeUndoRedo"); host != nil {
				recObj, _ := fn.Object().(*types.Func)
				reachesSetter := func(f *ssa.Function) bool {
					for g := range x.closureOf([]*ssa.Function{f}, []string{docPkg}) {
						for _, c := range prog.CallsIn(g) {
							if o := prog.CallObj(c); o != nil && (o.Name() == "SetCreatedAt" || o.Name() == "SetPrevCreatedAt") {
								return true
							}
						}
					}
					return false
				}
				var pops []ssa.Value
				for _, c := range prog.CallsIn(host) {
					if o := prog.CallObj(c); o != nil && (o.Name() == "PopUndo" || o.Name() == "PopRedo") && c.Value() != nil {
						pops = append(pops, c.Value())
					}
				}
				for i, c := range callsToIn(host, recObj) {
					n++
					ok := false
					for _, c2 := range prog.CallsIn(host) {
						callee := c2.Common().StaticCallee()
						if callee == nil || c2 == c || c2.Block() != c.Block() || callee == fn || !reachesSetter(callee) {
							continue
						}
						for _, a := range c2.Common().Args {
							if prog.DependsOn(a, func(w ssa.Value) bool {
								for _, p := range pops {
									if w == p {
										return true
									}
								}
								return false
							}) {
								ok = true
							}
						}
					}
					x.check(ok, fmt.Sprintf("func=%s ReconcileCreatedAt#%d rest-of-the-executing-entry-reconciled", prog.FnName(host), i+1), x.pos(c),
						"the operations that follow in the executing entry are reconciled as well",
						"the re-issued identity is rewritten on the stacks only: the operations that follow in the entry being executed still name the old identity — undoing an update that appended X and removed it again leaves X in the array; a redo after GC of an update that appended X and Y fails with 'child not found'")
				}
			}
			if n < 4 {
				x.C.Vacuous(x.id()+" identity setters", n, 4)
			}
		}})

	register(&Rule{ID: "HIST.iter", Min: 1, Text: "stacked undo/redo entries are reconciled after every remote change, not after the pack: in Document.applyChanges every path from applying a change to the document (InternalDocument.ApplyChanges) to the next iteration of the change loop passes the History.IsEmpty test that guards the reconcile block (only an error return leaves the loop earlier) — normalised positions are sums over live predecessors, so a position computed after a later change of the same pack has tombstoned something in front of it is a different position",
		Run: func(x *Ctx) {
			fn := x.fn(docPkg + ".(*Document).applyChanges")
			apply := x.P.FnObj(docPkg + ".(*InternalDocument).ApplyChanges")
			isEmpty := x.P.FnObj(docPkg + ".(*History).IsEmpty")
			if fn == nil || apply == nil || isEmpty == nil {
				x.C.Unresolved(x.id(), "Document.applyChanges / InternalDocument.ApplyChanges / History.IsEmpty")
				return
			}
			as, es := callsToIn(fn, apply), callsToIn(fn, isEmpty)
			k := "func=" + prog.FnName(fn)
			if len(as) != 1 || len(es) == 0 {
				x.fail(k+" shape", x.fpos(fn), "applyChanges no longer applies each change and tests History.IsEmpty before reconciling")
				return
			}
			a := as[0]
			// the loop header: a block that dominates the apply and is reachable from it
			var head *ssa.BasicBlock
			for _, b := range fn.Blocks {
				if b != a.Block() && b.Dominates(a.Block()) && prog.ReachableFrom(a.Block(), nil)[b] {
					head = b
				}
			}
			if head == nil {
				x.fail(k+" loop", x.fpos(fn), "the change loop was not found")
				return
			}
			ok := true
			for _, sc := range a.Block().Succs {
				bypass := true
				for _, e := range es {
					_ = e
				}
				// can the header be reached again without passing any IsEmpty block?
				seen := map[*ssa.BasicBlock]bool{}
				for _, e := range es {
					seen[e.Block()] = true
				}
				q := []*ssa.BasicBlock{sc}
				reached := false
				for len(q) > 0 {
					cb := q[len(q)-1]
					q = q[:len(q)-1]
					if seen[cb] {
						continue
					}
					seen[cb] = true
					if cb == head {
						reached = true
						break
					}
					q = append(q, cb.Succs...)
				}
				if !reached {
					bypass = false
				}
				if bypass {
					ok = false
				}
			}
			x.check(ok, k+" reconcile-guard-in-every-iteration", x.pos(a), "every path to the next change passes the History.IsEmpty test", "the next change can be applied without the reconcile block having been reached for this one (reconciliation batched over the pack or skipped for some changes): stacked undo positions are normalised against a document that later changes of the pack have already altered")
		}})
}

func init() {
	register(&Rule{ID: "REG.elem", Min: 3, Text: "every element that enters the document is registered: in each Operation.Execute that hands a value to Root.RegisterElement (Set, Add, ArraySet, …), every path from the model insertion to a success return passes the registration — unconditionally, whatever the state of the value (an element that lost the LWW race and is a tombstone from the start is still addressable: its author keeps sending operations into it, and a replica that has no entry for it fails them with 'not applicable datatype')",
		Run: func(x *Ctx) {
			reg := x.P.FnObj(crdtPkg + ".(*Root).RegisterElement")
			opI := x.P.Named(opsPkg + ".Operation")
			if reg == nil || opI == nil {
				x.C.Unresolved(x.id(), "Root.RegisterElement / operations.Operation")
				return
			}
			n := 0
			for _, t := range x.P.Implementers(opI) {
				if t.Obj().Pkg() != opI.Obj().Pkg() {
					continue
				}
				fn := x.P.MethodOf(t, "Execute")
				if fn == nil {
					continue
				}
				regs := callsToIn(fn, reg)
				if len(regs) == 0 {
					continue
				}
				n++
				k := "op=" + t.Obj().Name()
				// the registered value
				val := paramArg(regs[0], 0)
				// the insertion: the call before the registration that is handed the same value and is a crdt mutator
				var insert ssa.CallInstruction
				for _, c := range prog.CallsIn(fn) {
					o := prog.CallObj(c)
					if o == nil || o.Pkg() == nil || !strings.HasSuffix(o.Pkg().Path(), "/"+crdtPkg) || sameFunc(o, reg) || o.Name() == "DeepCopy" {
						continue
					}
					if nt := o.Type().(*types.Signature).Recv(); nt == nil || strings.Contains(nt.Type().String(), "Root") {
						continue
					}
					args := c.Common().Args
					if len(args) > 0 && !c.Common().IsInvoke() {
						args = args[1:]
					}
					for _, a := range args {
						if prog.Strip(a) == prog.Strip(val) && prog.MayPrecede(c, regs[0]) {
							insert = c
						}
					}
				}
				if insert == nil {
					x.fail(k+" insertion", x.fpos(fn), "no model insertion of the registered value was found before RegisterElement")
					continue
				}
				var vias []ssa.Instruction
				for _, r := range regs {
					vias = append(vias, r)
				}
				ok := true
				for _, r := range prog.Returns(fn) {
					if !prog.ReturnsNilError(r) || !prog.MayPrecede(insert, r) {
						continue
					}
					if !mustPassBetween(insert, r, vias) {
						ok = false
					}
				}
				x.check(ok, k+" inserted-value-always-registered", x.pos(regs[0]), "every success path after the insertion registers the element", "a success path after the insertion skips Root.RegisterElement (the registration depends on the value's state): the element is in the document but cannot be addressed by the operations its author sends next")
			}
			if n < 3 {
				x.C.Vacuous(x.id()+" operations", n, 3)
			}
		}})
}

func init() {
	register(&Rule{ID: "J.acc", Min: 6, Text: "every size change is accounted: in package json (the editing proxies) each resource.DataSize that a mutating call of the CRDT model returns (the diff of Text.Edit/Style, Tree.Edit/Style/RemoveStyle, …) flows into Context.Acc in the same function — the editing copy's accumulated size is what Document.Update compares with the size limit, so a proxy that forgets to account (one of two sibling entry points) lets an update over the limit through: it runs on the document, joins the pending changes and lands on the undo stack",
		Run: func(x *Ctx) {
			acc := x.P.FnObj(changePkg + ".(*Context).Acc")
			dsT := x.P.Named("pkg/document/resource.DataSize")
			if acc == nil || dsT == nil {
				x.C.Unresolved(x.id(), "change.Context.Acc / resource.DataSize")
				return
			}
			n := 0
			for _, fn := range x.P.FuncsIn("pkg/document/json") {
				accs := callsToIn(fn, acc)
				i := 0
				for _, c := range prog.CallsIn(fn) {
					o := prog.CallObj(c)
					if o == nil || o.Pkg() == nil || !strings.HasSuffix(o.Pkg().Path(), "/"+crdtPkg) || c.Value() == nil {
						continue
					}
					var diffs []ssa.Value
					if isNamed(c.Value().Type(), dsT) {
						diffs = append(diffs, c.Value())
					}
					for _, r := range *c.Value().Referrers() {
						if ex, ok := r.(*ssa.Extract); ok && isNamed(ex.Type(), dsT) {
							diffs = append(diffs, ex)
						}
					}
					for _, d := range diffs {
						i++
						n++
						ok := false
						for _, a := range accs {
							if prog.DependsOn(paramArg(a, 0), func(w ssa.Value) bool { return w == d }) {
								ok = true
							}
						}
						x.check(ok, fmt.Sprintf("func=%s diff-of=%s#%d accounted", prog.FnName(fn), o.Name(), i), x.pos(c), "the size diff reaches Context.Acc", "the size diff returned by "+o.Name()+" never reaches Context.Acc: the editing copy's size stays behind and the size limit is not enforced for this entry point")
					}
				}
			}
			if n < 6 {
				x.C.Vacuous(x.id()+" size diffs", n, 6)
			}
		}})
}
