package rules

import (
	"fmt"
	"go/types"

	"yv/internal/prog"

	"golang.org/x/tools/go/ssa"
)

// mustPassBetween: every path from instruction `from` to instruction `to` passes
// one of the via instructions.
func mustPassBetween(from, to ssa.Instruction, via []ssa.Instruction) bool {
	if !prog.MayPrecede(from, to) {
		return true // vacuous
	}
	viaIn := map[*ssa.BasicBlock][]int{}
	for _, v := range via {
		viaIn[v.Block()] = append(viaIn[v.Block()], prog.InstrIndex(v))
	}
	fb, fi := from.Block(), prog.InstrIndex(from)
	tb, ti := to.Block(), prog.InstrIndex(to)
	between := func(b *ssa.BasicBlock, lo, hi int) bool {
		for _, i := range viaIn[b] {
			if i > lo && i < hi {
				return true
			}
		}
		return false
	}
	if fb == tb && fi < ti {
		if between(fb, fi, ti) {
			// the straight-line path is covered; a loop path would have to leave and re-enter
		} else {
			return false
		}
	}
	// paths leaving fb
	if between(fb, fi, 1<<30) {
		return true
	}
	// BFS from fb successors; blocks with a via are passable only up to the via
	seen := map[*ssa.BasicBlock]bool{}
	q := append([]*ssa.BasicBlock{}, fb.Succs...)
	for len(q) > 0 {
		b := q[len(q)-1]
		q = q[:len(q)-1]
		if seen[b] {
			continue
		}
		seen[b] = true
		if b == tb {
			if !between(b, -1, ti) {
				return false
			}
			// reached target only after a via: fine; but do not continue past
		}
		if len(viaIn[b]) > 0 {
			continue // every continuation passes the via in this block
		}
		q = append(q, b.Succs...)
	}
	return true
}

// nilStores lists stores of nil into field f in fn.
func nilStores(fn *ssa.Function, f *types.Var) []ssa.Instruction {
	var out []ssa.Instruction
	for _, st := range storesTo(fn, f) {
		if prog.IsNilConst(st.Val) {
			out = append(out, st)
		}
	}
	return out
}

func init() {
	register(&Rule{ID: "O5.clone", Min: 6, Text: "the tentative copy is discarded on every failure exit: in Document.Update every error return that can follow the updater callback (and precedes the execution on the real root) is preceded on all paths by stores of nil into cloneRoot and clonePresences, and a deferred function that performs both resets (conditional only on a completion flag) is registered before the callback runs, covering panics; in executeUndoRedo the same holds for every error return after the change was executed on the clone",
		Run: func(x *Ctx) {
			cloneRoot := x.P.Field(docPkg + ".Document.cloneRoot")
			clonePres := x.P.Field(docPkg + ".Document.clonePresences")
			execM := x.P.FnObj(changePkg + ".(*Change).Execute")
			rootF := x.P.Field(docPkg + ".InternalDocument.root")
			if cloneRoot == nil || clonePres == nil || execM == nil || rootF == nil {
				x.C.Unresolved(x.id(), "Document.cloneRoot/clonePresences, Change.Execute, InternalDocument.root")
				return
			}
			isRootExec := func(c ssa.CallInstruction) bool {
				return sameFunc(prog.CallObj(c), execM) && prog.LoadedField(c.Common().Args[1]) == rootF
			}
			isCloneExec := func(c ssa.CallInstruction) bool {
				return sameFunc(prog.CallObj(c), execM) && prog.LoadedField(c.Common().Args[1]) == cloneRoot
			}
			if fn := x.fn(docPkg + ".(*Document).Update"); fn != nil {
				k := "func=" + prog.FnName(fn)
				// the updater call: a dynamic call of the function-typed parameter
				var upd ssa.CallInstruction
				for _, c := range prog.CallsIn(fn) {
					if pm, ok := c.Common().Value.(*ssa.Parameter); ok && pm.Parent() == fn {
						upd = c
					}
				}
				var rootExec ssa.CallInstruction
				for _, c := range prog.CallsIn(fn) {
					if isRootExec(c) {
						rootExec = c
					}
				}
				if upd == nil || rootExec == nil {
					x.fail(k+" shape", x.fpos(fn), "Update no longer calls the updater and then executes the change on the real root")
				} else {
					r1, r2 := nilStores(fn, cloneRoot), nilStores(fn, clonePres)
					n := 0
					for _, r := range prog.Returns(fn) {
						if prog.ReturnsNilError(r) || !prog.MayPrecede(upd, r) || prog.MayPrecede(rootExec, r) {
							continue
						}
						n++
						ok := mustPassBetween(upd, r, r1) && mustPassBetween(upd, r, r2)
						x.check(ok, fmt.Sprintf("%s error-exit#%d discards-clone", k, n), x.pos(r), "cloneRoot and clonePresences are reset before this failure exit",
							"an error return after the updater ran keeps the edited clone: Root() then shows content the document does not have")
					}
					if n == 0 {
						x.fail(k+" error-exits", x.fpos(fn), "no failure exit after the updater found")
					}
					// panic cover: a Defer of a closure that resets both, dominating the updater call
					cover := false
					for _, c := range prog.CallsIn(fn) {
						d, ok := c.(*ssa.Defer)
						if !ok || !prog.Dominates(d, upd) {
							continue
						}
						var body *ssa.Function
						if mc, ok := d.Call.Value.(*ssa.MakeClosure); ok {
							body, _ = mc.Fn.(*ssa.Function)
						}
						if body != nil && len(nilStores(body, cloneRoot)) > 0 && len(nilStores(body, clonePres)) > 0 {
							cover = true
						}
					}
					x.check(cover, k+" panic-exit discards-clone", x.pos(upd), "a deferred reset is registered before the updater runs", "a panicking updater leaves the edited clone in place (no deferred reset before the callback)")
					// success of the updater is required before the change is taken
					if uc, ok := upd.(*ssa.Call); ok {
						x.guardedSite(k+" updater-error-returns", rootExec, []Cmp{errNilCmp(uc)}, nil)
					}
				}
			}
			if fn := x.fn(docPkg + ".(*Document).executeUndoRedo"); fn != nil {
				k := "func=" + prog.FnName(fn)
				var cloneExec, rootExec ssa.CallInstruction
				for _, c := range prog.CallsIn(fn) {
					if isCloneExec(c) {
						cloneExec = c
					}
					if isRootExec(c) {
						rootExec = c
					}
				}
				if cloneExec == nil || rootExec == nil {
					x.fail(k+" shape", x.fpos(fn), "undo/redo no longer executes the change on the clone and on the real root")
				} else {
					r1, r2 := nilStores(fn, cloneRoot), nilStores(fn, clonePres)
					n := 0
					for _, r := range prog.Returns(fn) {
						if prog.ReturnsNilError(r) || !prog.MayPrecede(cloneExec, r) {
							continue
						}
						n++
						ok := mustPassBetween(cloneExec, r, r1) && mustPassBetween(cloneExec, r, r2)
						x.check(ok, fmt.Sprintf("%s error-exit#%d discards-clone", k, n), x.pos(r), "the clone is discarded before this failure exit",
							"an error return after the clone executed part of the change keeps the clone: clone and document differ")
					}
					if n == 0 {
						x.fail(k+" error-exits", x.fpos(fn), "no failure exit after the clone execution found")
					}
				}
			}
		}})

	register(&Rule{ID: "O1.update", Min: 12, Text: "clone first, then the real root, same change, one commit unit: in Update the execution on the real root is unreachable from the schema-invalid edge and from the size-exceeded edge; in executeUndoRedo the clone execution dominates the root execution and both receive the same change and source; the append to localChanges and the advance of changeID are made together (each dominates or post-dominates the other), only past the success edge of the root execution, and the appended change is the executed one; Document.applyChanges executes every remote change on the clone and then on the document in the same loop iteration; Document.GarbageCollect purges clone and document with the same vector; a snapshot discards the clone before it is applied",
		Run: func(x *Ctx) {
			cloneRoot := x.P.Field(docPkg + ".Document.cloneRoot")
			clonePres := x.P.Field(docPkg + ".Document.clonePresences")
			execM := x.P.FnObj(changePkg + ".(*Change).Execute")
			rootF := x.P.Field(docPkg + ".InternalDocument.root")
			localCh := x.P.Field(docPkg + ".InternalDocument.localChanges")
			changeID := x.P.Field(docPkg + ".InternalDocument.changeID")
			nextID := x.P.FnObj(changePkg + ".(*Context).NextID")
			if cloneRoot == nil || execM == nil || rootF == nil || localCh == nil || changeID == nil || nextID == nil {
				x.C.Unresolved(x.id(), "Document/InternalDocument fields, Change.Execute, Context.NextID")
				return
			}
			commitUnit := func(fn *ssa.Function, rootExec *ssa.Call) {
				k := "func=" + prog.FnName(fn)
				ls, cs := storesTo(fn, localCh), storesTo(fn, changeID)
				if len(ls) != 1 || len(cs) != 1 {
					x.fail(k+" commit-unit", x.fpos(fn), fmt.Sprintf("expected one append to localChanges and one advance of changeID, found %d and %d", len(ls), len(cs)))
					return
				}
				l, c := ls[0], cs[0]
				together := (prog.Dominates(l, c) && x.P.PostDominates(c, l)) || (prog.Dominates(c, l) && x.P.PostDominates(l, c))
				x.check(together, k+" commit-unit", x.pos(l), "localChanges and changeID are updated together", "localChanges can be appended without advancing changeID (or the reverse): the next change reuses a clientSeq or leaves a gap")
				x.guardedSite(k+" commit-after-root-success", l, []Cmp{errNilCmp(rootExec)}, nil)
				// the appended value is the executed change
				executed := rootExec.Call.Args[0]
				ok := sliceContains(l.Val, func(v ssa.Value) bool { return prog.Strip(v) == prog.Strip(executed) })
				x.check(ok, k+" appended=executed", x.pos(l), "the change appended for sending is the one executed", "the change appended to localChanges is not the change that was executed on the document")
				x.check(flowsFromCallTo(c.Val, nextID), k+" changeID=ctx.NextID()", x.pos(c), "changeID advances to the context's next ID", "changeID is not advanced with Context.NextID()")
			}
			findExec := func(fn *ssa.Function, field *types.Var) *ssa.Call {
				var out *ssa.Call
				for _, c := range prog.CallsIn(fn) {
					if cc, ok := c.(*ssa.Call); ok && sameFunc(prog.CallObj(cc), execM) && prog.LoadedField(cc.Call.Args[1]) == field {
						out = cc
					}
				}
				return out
			}
			if fn := x.fn(docPkg + ".(*Document).Update"); fn != nil {
				k := "func=" + prog.FnName(fn)
				rootExec := findExec(fn, rootF)
				if rootExec == nil {
					x.fail(k+" root-exec", x.fpos(fn), "Update no longer executes the change on the real root")
				} else {
					valid := x.P.Field("pkg/schema.ValidationResult.Valid")
					if valid == nil {
						x.C.Unresolved(x.id(), "pkg/schema.ValidationResult.Valid")
					} else {
						x.rejectOn(k+" schema-invalid-never-reaches-root", rootExec, isFalse(vpField(valid)))
					}
					limit := x.P.Field(docPkg + ".Document.MaxSizeLimit")
					total := VP{"clone size Total()", func(v ssa.Value) bool {
						c, ok := prog.Strip(v).(*ssa.Call)
						return ok && prog.CallObj(c) != nil && prog.CallObj(c).Name() == "Total"
					}}
					if limit == nil {
						x.C.Unresolved(x.id(), docPkg+".Document.MaxSizeLimit")
					} else {
						x.rejectOn(k+" size-exceeded-never-reaches-root", rootExec, Cmp{L: vpField(limit), R: total, Want: LT})
					}
					commitUnit(fn, rootExec)
					// source is Local
					if local, ok := x.constInt("pkg/document/operations.OpSourceLocal"); ok {
						x.check(vpConst(local).match(rootExec.Call.Args[3]), k+" source=Local", x.pos(rootExec), "local execution", "the user's change is not executed as OpSourceLocal")
					}
				}
			}
			if fn := x.fn(docPkg + ".(*Document).executeUndoRedo"); fn != nil {
				k := "func=" + prog.FnName(fn)
				ce, re := findExec(fn, cloneRoot), findExec(fn, rootF)
				if ce == nil || re == nil {
					x.fail(k+" execs", x.fpos(fn), "undo/redo no longer executes on clone and root")
				} else {
					x.check(prog.Dominates(ce, re), k+" clone≺root", x.pos(re), "the clone executes first", "the real root is executed before (or without) the clone")
					x.check(prog.Strip(ce.Call.Args[0]) == prog.Strip(re.Call.Args[0]), k+" same-change", x.pos(re), "clone and root execute the same change", "clone and root execute different changes")
					x.check(prog.Strip(ce.Call.Args[3]) == prog.Strip(re.Call.Args[3]) || sameConst(ce.Call.Args[3], re.Call.Args[3]), k+" same-source", x.pos(re), "same source on both", "clone and root are executed under different sources")
					x.guardedSite(k+" clone-error-returns-before-root", re, []Cmp{errNilCmp(ce)}, nil)
					commitUnit(fn, re)
				}
			}
			if fn := x.fn(docPkg + ".(*Document).applyChanges"); fn != nil {
				k := "func=" + prog.FnName(fn)
				ce := findExec(fn, cloneRoot)
				apply := x.P.FnObj(docPkg + ".(*InternalDocument).ApplyChanges")
				as := callsToIn(fn, apply)
				if ce == nil || len(as) != 1 {
					x.fail(k+" lock-step", x.fpos(fn), "remote changes are no longer applied to the clone and to the document")
				} else {
					a := as[0].(*ssa.Call)
					x.check(prog.Dominates(ce, a), k+" clone≺document", x.pos(a), "clone first", "the document is changed before the clone")
					same := sliceContains(a.Call.Args[1], func(v ssa.Value) bool { return prog.Strip(v) == prog.Strip(ce.Call.Args[0]) })
					x.check(same, k+" same-change", x.pos(a), "the same change goes to clone and document", "clone and document receive different changes")
					x.guardedSite(k+" clone-error-returns", a, []Cmp{errNilCmp(ce)}, nil)
					if remote, ok := x.constInt("pkg/document/operations.OpSourceRemote"); ok {
						x.check(vpConst(remote).match(ce.Call.Args[3]), k+" source=Remote", x.pos(ce), "remote execution", "remote changes are not executed as OpSourceRemote on the clone")
					}
				}
			}
			if fn := x.fn(docPkg + ".(*Document).GarbageCollect"); fn != nil {
				k := "func=" + prog.FnName(fn)
				rootGC := x.P.FnObj(crdtPkg + ".(*Root).GarbageCollect")
				docGC := x.P.FnObj(docPkg + ".(*InternalDocument).GarbageCollect")
				a, b := callsToIn(fn, rootGC), callsToIn(fn, docGC)
				ok := len(a) == 1 && len(b) == 1 && prog.Strip(a[0].Common().Args[1]) == ssa.Value(fn.Params[1]) && prog.Strip(b[0].Common().Args[1]) == ssa.Value(fn.Params[1])
				x.check(ok, k+" purges-clone-and-document", x.fpos(fn), "both are purged with the same vector", "garbage collection no longer purges the clone and the document with the same vector")
				if len(a) == 1 {
					x.guardedSite(k+" clone-gc-only-if-clone", a[0], []Cmp{{L: vpField(cloneRoot), R: vpNil, Want: NE}}, nil)
				}
			}
			// only Document.GarbageCollect may purge one side
			{
				rootGC := x.P.FnObj(crdtPkg + ".(*Root).GarbageCollect")
				docGC := x.P.FnObj(docPkg + ".(*InternalDocument).GarbageCollect")
				docT := x.P.Named(docPkg + ".Document")
				for _, fn := range x.P.FuncsIn(docPkg) {
					root := fn
					for root.Parent() != nil {
						root = root.Parent()
					}
					if root.Signature.Recv() == nil || !isNamed(root.Signature.Recv().Type(), docT) || root.Name() == "GarbageCollect" {
						continue
					}
					for _, c := range append(callsTo([]*ssa.Function{fn}, rootGC), callsTo([]*ssa.Function{fn}, docGC)...) {
						x.fail("func="+prog.FnName(fn)+" one-sided-gc", x.pos(c), "a Document method purges only the clone or only the document; Document.GarbageCollect purges both")
					}
				}
				if fn := x.fn(docPkg + ".(*Document).ApplyChangePack"); fn != nil {
					both := x.P.FnObj(docPkg + ".(*Document).GarbageCollect")
					packVV := x.P.Field(changePkg + ".Pack.VersionVector")
					cs := callsToIn(fn, both)
					x.check(len(cs) == 1 && prog.LoadedField(cs[0].Common().Args[1]) == packVV, "func="+prog.FnName(fn)+" gc-both-with-pack-vector", x.fpos(fn),
						"a change pull purges clone and document with the pack's minimum vector", "ApplyChangePack no longer purges clone and document with the response's version vector")
				}
			}
			if fn := x.fn(docPkg + ".(*Document).ApplyChangePack"); fn != nil {
				k := "func=" + prog.FnName(fn)
				snap := x.P.FnObj(docPkg + ".(*InternalDocument).applySnapshot")
				for _, c := range callsToIn(fn, snap) {
					ok := false
					for _, st := range nilStores(fn, cloneRoot) {
						if prog.Dominates(st, c) {
							ok = true
						}
					}
					ok2 := false
					for _, st := range nilStores(fn, clonePres) {
						if prog.Dominates(st, c) {
							ok2 = true
						}
					}
					x.check(ok && ok2, k+" snapshot-discards-clone", x.pos(c), "the clone is discarded before the snapshot replaces the document", "a snapshot replaces the document while the old clone is kept")
				}
				// local changes are replayed after the snapshot, after trimming
				ac := x.P.FnObj(docPkg + ".(*Document).applyChanges")
				replay := false
				for _, c := range callsToIn(fn, ac) {
					if prog.LoadedField(c.Common().Args[1]) == localCh {
						replay = true
						for _, s := range callsToIn(fn, snap) {
							x.check(prog.MayPrecede(s, c) && !prog.MayPrecede(c, s), k+" snapshot≺replay-local", x.pos(c), "unacknowledged local changes are replayed on the snapshot", "local changes are replayed before the snapshot is applied")
						}
						for _, st := range storesTo(fn, localCh) {
							x.check(prog.MayPrecede(st, c), k+" trim≺replay-local", x.pos(c), "acknowledged changes are trimmed before the replay", "local changes are replayed before the acknowledged ones are trimmed (an edit is applied twice)")
						}
					}
				}
				x.check(replay, k+" replays-local-changes", x.fpos(fn), "unacknowledged local changes are replayed on a snapshot", "a received snapshot discards unacknowledged local changes")
			}
		}})

	register(&Rule{ID: "O2.trim", Min: 2, Text: "a client keeps its local changes until they are acknowledged: localChanges is written only by Update/executeUndoRedo (append), the two ApplyChangePack trimming loops and DeepCopy; a trimming loop drops the head change only on the edge where its ClientSeq is not greater than the pack checkpoint's ClientSeq; CreateChangePack does not clear them",
		Run: func(x *Ctx) {
			localCh := x.P.Field(docPkg + ".InternalDocument.localChanges")
			clientSeqM := x.P.FnObj(changePkg + ".(*Change).ClientSeq")
			cpCS := x.P.Field(changePkg + ".Checkpoint.ClientSeq")
			if localCh == nil || clientSeqM == nil || cpCS == nil {
				x.C.Unresolved(x.id(), "InternalDocument.localChanges / Change.ClientSeq / Checkpoint.ClientSeq")
				return
			}
			allowed := map[string]string{
				"(*pkg/document.Document).Update":                  "append",
				"(*pkg/document.Document).executeUndoRedo":         "append",
				"(*pkg/document.Document).ApplyChangePack":         "trim",
				"(*pkg/document.InternalDocument).ApplyChangePack": "trim",
				"(*pkg/document.InternalDocument).DeepCopy":        "copy",
			}
			for _, fn := range x.P.ProdFuncs() {
				for i, st := range storesTo(fn, localCh) {
					kind, ok := allowed[prog.FnName(fn)]
					k := fmt.Sprintf("writer func=%s#%d", prog.FnName(fn), i+1)
					if !ok {
						x.fail(k, x.pos(st), "localChanges is written by a function outside the frozen writer set (Update, executeUndoRedo, the two ApplyChangePack, DeepCopy)")
						continue
					}
					if kind != "trim" {
						x.hold(k, x.pos(st), kind)
						continue
					}
					// trim: the store drops the head only when head.ClientSeq <= pack.Checkpoint.ClientSeq
					x.guardedSite(k+" drops-only-acknowledged", st, []Cmp{{L: vpCall(clientSeqM), R: vpField(cpCS), Want: LE}}, nil)
					// and it drops exactly one from the front: value is a Slice of the field with Low == 1
					sl, isSlice := prog.Strip(st.Val).(*ssa.Slice)
					okSlice := false
					if isSlice && prog.LoadedField(sl.X) == localCh && sl.High == nil {
						if lo, isK := prog.IntConst(sl.Low); isK && lo == 1 {
							okSlice = true
						}
					}
					x.check(okSlice, k+" drops-head-only", x.pos(st), "one change is dropped from the front", "the trim does not drop exactly the head change")
				}
			}
		}})

	register(&Rule{ID: "O1.history", Min: 6, Text: "undo/redo bookkeeping: Update pushes the reverse operations of the executed change onto the undo stack; executeUndoRedo pops the undo stack exactly on the isUndo edge and the redo stack on the other, and pushes the reverse onto the opposite stack; both push only what Change.Execute returned as ReverseOps; Change.Execute collects each operation's Reverse and skips exactly ErrOperationSkipped",
		Run: func(x *Ctx) {
			execM := x.P.FnObj(changePkg + ".(*Change).Execute")
			revF := x.P.Field(changePkg + ".ExecutionResult.ReverseOps")
			pushUndo := x.P.FnObj(docPkg + ".(*History).PushUndo")
			pushRedo := x.P.FnObj(docPkg + ".(*History).PushRedo")
			popUndo := x.P.FnObj(docPkg + ".(*History).PopUndo")
			popRedo := x.P.FnObj(docPkg + ".(*History).PopRedo")
			if execM == nil || revF == nil || pushUndo == nil || pushRedo == nil || popUndo == nil || popRedo == nil {
				x.C.Unresolved(x.id(), "History.Push*/Pop*, ExecutionResult.ReverseOps")
				return
			}
			fromReverse := func(v ssa.Value) bool {
				return prog.DependsOn(v, func(w ssa.Value) bool {
					f := prog.LoadedField(w)
					if f == nil {
						f = prog.FieldVar(w)
					}
					return f == revF
				})
			}
			if fn := x.fn(docPkg + ".(*Document).Update"); fn != nil {
				ps := callsToIn(fn, pushUndo)
				x.check(len(ps) == 1 && fromReverse(ps[0].Common().Args[1]), "func="+prog.FnName(fn)+" pushes-reverse-to-undo", x.fpos(fn), "the reverse of the executed change is pushed onto the undo stack", "Update no longer pushes the executed change's reverse operations onto the undo stack")
				x.check(len(callsToIn(fn, pushRedo)) == 0, "func="+prog.FnName(fn)+" no-redo-push", x.fpos(fn), "no redo push", "Update pushes onto the redo stack")
			}
			if fn := x.fn(docPkg + ".(*Document).executeUndoRedo"); fn != nil {
				k := "func=" + prog.FnName(fn)
				var flag *ssa.Parameter
				for _, pm := range fn.Params {
					if b, ok := pm.Type().(*types.Basic); ok && b.Kind() == types.Bool {
						flag = pm
					}
				}
				if flag == nil {
					x.fail(k+" flag", x.fpos(fn), "no isUndo parameter")
				} else {
					fp := vpIsParam(flag)
					for _, d := range []struct {
						obj  *types.Func
						cmp  Cmp
						what string
					}{{popUndo, isTrue(fp), "pop-undo-on-undo"}, {popRedo, isFalse(fp), "pop-redo-on-redo"}, {pushRedo, isTrue(fp), "push-redo-on-undo"}, {pushUndo, isFalse(fp), "push-undo-on-redo"}} {
						cs := callsToIn(fn, d.obj)
						if len(cs) != 1 {
							x.fail(k+" "+d.what, x.fpos(fn), fmt.Sprintf("%d call sites, expected 1", len(cs)))
							continue
						}
						x.guardedSite(k+" "+d.what, cs[0], []Cmp{d.cmp}, nil)
						if d.obj == pushRedo || d.obj == pushUndo {
							x.check(fromReverse(cs[0].Common().Args[1]), k+" "+d.what+" value=reverse-of-executed", x.pos(cs[0]), "the pushed entry is the reverse of what was executed", "the entry pushed onto the opposite stack is not the executed change's reverse")
						}
					}
					if ur, ok := x.constInt("pkg/document/operations.OpSourceUndoRedo"); ok {
						for _, c := range callsToIn(fn, execM) {
							x.check(vpConst(ur).match(c.Common().Args[3]), k+" source=UndoRedo", x.pos(c), "undo/redo execution", "an undo/redo change is not executed as OpSourceUndoRedo")
						}
					}
				}
			}
			if fn := x.fn(changePkg + ".(*Change).Execute"); fn != nil {
				k := "func=" + prog.FnName(fn)
				revOne := x.P.Field("pkg/document/operations.ExecutionResult.Reverse")
				skipped := x.P.Lookup("pkg/document/operations.ErrOperationSkipped")
				// ReverseOps is appended with opResult.Reverse
				ok := false
				for _, st := range storesTo(fn, revF) {
					if sliceContains(st.Val, func(v ssa.Value) bool {
						return prog.LoadedField(v) == revOne || (func() bool { f, _ := v.(*ssa.Field); return f != nil && prog.FieldVar(f) == revOne })()
					}) {
						ok = true
					}
				}
				x.check(ok, k+" collects-reverse", x.fpos(fn), "each operation's Reverse is collected", "Change.Execute no longer collects the operations' reverse operations")
				// errors.Is(err, ErrOperationSkipped) is the only error that continues
				isSkip := VP{"errors.Is(err, ErrOperationSkipped)", func(v ssa.Value) bool {
					c, ok := v.(*ssa.Call)
					if !ok || prog.CallObj(c) == nil || prog.CallObj(c).FullName() != "errors.Is" {
						return false
					}
					return prog.Reaches(c.Call.Args[1], func(w ssa.Value) bool {
						g, ok := w.(*ssa.Global)
						return ok && g.Object() == skipped
					})
				}}
				// every error return is on the not-skipped edge; and there is an error return
				nerr := 0
				for _, r := range prog.Returns(fn) {
					if prog.ReturnsNilError(r) {
						continue
					}
					nerr++
					x.guardedSite(fmt.Sprintf("%s error-return#%d not-skipped", k, nerr), r, []Cmp{isFalse(isSkip)}, nil)
				}
				x.check(nerr >= 1, k+" propagates-errors", x.fpos(fn), "other errors are returned", "Change.Execute swallows operation errors")
				// the executed list only gets operations that did not error
				exF := x.P.Field(changePkg + ".ExecutionResult.Executed")
				var opExec *ssa.Call
				for _, c := range prog.CallsIn(fn) {
					if cc, ok := c.(*ssa.Call); ok && cc.Call.IsInvoke() && cc.Call.Method.Name() == "Execute" {
						opExec = cc
					}
				}
				if opExec != nil {
					for i, st := range storesTo(fn, exF) {
						x.guardedSite(fmt.Sprintf("%s executed-append#%d only-on-success", k, i+1), st, []Cmp{errNilCmp(opExec)}, nil)
					}
					// the change's own vector is what every operation sees
					vvF := x.P.Field(changePkg + ".ID.versionVector")
					arg := opExec.Call.Args[len(opExec.Call.Args)-1]
					okVV := prog.Reaches(arg, func(v ssa.Value) bool {
						f := prog.LoadedField(v)
						if f == nil {
							if fv, ok := v.(*ssa.Field); ok {
								f = prog.FieldVar(fv)
							}
						}
						return f == vvF
					})
					x.check(okVV, k+" passes-own-version-vector", x.pos(opExec), "every operation sees the version vector of its own change", "operations are not given the version vector of their own change (visibility of concurrent deletes/styles is decided with the wrong knowledge)")
					if len(opExec.Call.Args) >= 2 {
						x.check(prog.Strip(opExec.Call.Args[1]) == ssa.Value(fn.Params[3]), k+" passes-source", x.pos(opExec), "the source is passed through", "the operation source is not passed through to the operations")
					}
				} else {
					x.fail(k+" executes-operations", x.fpos(fn), "Change.Execute no longer executes the operations")
				}
			}
		}})
}

func sameConst(a, b ssa.Value) bool {
	ca, ok1 := a.(*ssa.Const)
	cb, ok2 := b.(*ssa.Const)
	return ok1 && ok2 && ca.Value != nil && cb.Value != nil && ca.Value.ExactString() == cb.Value.ExactString()
}
