package rules

import (
	"fmt"
	"go/constant"
	"go/token"
	"go/types"
	"strings"

	"yv/internal/prog"

	"golang.org/x/tools/go/ssa"
)

const memPkg = "server/backend/database/memory"

type memTxn struct {
	Fn      *ssa.Function
	Create  *ssa.Call
	Write   bool
	Aborts  []ssa.Instruction // defer txn.Abort()
	Commits []*ssa.Call
	Writes  []*ssa.Call // Insert/Delete/DeleteAll/DeletePrefix on this txn (also through helper calls taking the txn)
	Passes  []*ssa.Call // calls that receive the txn as an argument
}

var txnWriteMethods = map[string]bool{"Insert": true, "Delete": true, "DeleteAll": true, "DeletePrefix": true}

func isMemdbTxn(t types.Type) bool {
	p, ok := t.(*types.Pointer)
	if !ok {
		return false
	}
	n, ok := p.Elem().(*types.Named)
	return ok && n.Obj().Name() == "Txn" && n.Obj().Pkg() != nil && strings.HasSuffix(n.Obj().Pkg().Path(), "go-memdb")
}

// memTxns enumerates the transactions opened in package memory.
func (x *Ctx) memTxns() []*memTxn {
	var out []*memTxn
	for _, fn := range x.P.FuncsIn(memPkg) {
		for _, ci := range prog.CallsIn(fn) {
			call, ok := ci.(*ssa.Call)
			if !ok {
				continue
			}
			o := prog.CallObj(call)
			if o == nil || o.Name() != "Txn" || !isMemdbTxn(call.Type()) {
				continue
			}
			t := &memTxn{Fn: fn, Create: call}
			if c, ok := call.Call.Args[len(call.Call.Args)-1].(*ssa.Const); ok && c.Value != nil && c.Value.Kind() == constant.Bool {
				t.Write = constant.BoolVal(c.Value)
			} else {
				t.Write = true // unknown mode: treat as a writer
			}
			for _, r := range *call.Referrers() {
				rc, ok := r.(ssa.CallInstruction)
				if !ok {
					continue
				}
				ro := prog.CallObj(rc)
				if ro == nil {
					continue
				}
				recv := recvOf(rc)
				if recv == ssa.Value(call) && isMemdbTxn(recv.Type()) && ro.Type().(*types.Signature).Recv() != nil && isMemdbTxn(ro.Type().(*types.Signature).Recv().Type()) {
					switch {
					case ro.Name() == "Abort":
						t.Aborts = append(t.Aborts, rc)
					case ro.Name() == "Commit":
						if c, ok := rc.(*ssa.Call); ok {
							t.Commits = append(t.Commits, c)
						}
					case txnWriteMethods[ro.Name()]:
						if c, ok := rc.(*ssa.Call); ok {
							t.Writes = append(t.Writes, c)
						}
					}
					continue
				}
				// passed along to a helper
				if c, ok := rc.(*ssa.Call); ok {
					for _, a := range c.Call.Args {
						if a == ssa.Value(call) {
							t.Passes = append(t.Passes, c)
						}
					}
				}
			}
			out = append(out, t)
		}
	}
	return out
}

// helperWrites: does a function that receives a txn parameter write through it?
func (x *Ctx) helperWrites(fn *ssa.Function, depth int) bool {
	if fn == nil || depth > 4 {
		return false
	}
	for _, ci := range prog.CallsIn(fn) {
		o := prog.CallObj(ci)
		if o == nil {
			continue
		}
		recv := recvOf(ci)
		if recv != nil && isMemdbTxn(recv.Type()) && txnWriteMethods[o.Name()] {
			if _, isParam := recv.(*ssa.Parameter); isParam {
				return true
			}
		}
		for _, a := range ci.Common().Args {
			if _, isParam := a.(*ssa.Parameter); isParam && isMemdbTxn(a.Type()) {
				if x.helperWrites(ci.Common().StaticCallee(), depth+1) {
					return true
				}
			}
		}
	}
	return false
}

// opensWriteTxn: functions of package memory that may (transitively) open a write
// transaction.
func (x *Ctx) opensWriteTxn() map[*ssa.Function]bool {
	set := map[*ssa.Function]bool{}
	for _, t := range x.memTxns() {
		if t.Write {
			set[t.Fn] = true
		}
	}
	ci := x.calls()
	for changed := true; changed; {
		changed = false
		for _, fn := range x.P.FuncsIn(memPkg) {
			if set[fn] {
				continue
			}
			for _, e := range ci.out[fn] {
				if set[e.Callee] && !e.Spawned {
					set[fn] = true
					changed = true
					break
				}
			}
		}
	}
	return set
}

func init() {
	register(&Rule{ID: "L8", Min: 70, Text: "memdb transactions: every Txn has a deferred Abort dominated by its creation; in a write transaction every success return reachable from a write (Insert/Delete/DeleteAll, also through helpers that take the txn) passes Commit; nothing is written through the txn after Commit; no function that may open another write transaction is called while a write transaction is open (go-memdb's writer lock is not re-entrant); all writes of one method go through one transaction (atomic multi-table updates)",
		Run: func(x *Ctx) {
			txns := x.memTxns()
			opens := x.opensWriteTxn()
			perFn := map[*ssa.Function]int{}
			for _, t := range txns {
				if t.Write {
					perFn[t.Fn]++
				}
			}
			ord := map[*ssa.Function]int{}
			for _, t := range txns {
				ord[t.Fn]++
				k := fmt.Sprintf("func=%s txn#%d", prog.FnName(t.Fn), ord[t.Fn])
				// deferred abort
				ok := false
				for _, a := range t.Aborts {
					if _, isDefer := a.(*ssa.Defer); isDefer && prog.Dominates(t.Create, a) {
						ok = true
					}
				}
				x.check(ok, k+" defer-abort", x.pos(t.Create), "defer txn.Abort() dominated by the creation", "the transaction has no deferred Abort: an early return leaves it (and, for a writer, the database write lock) open")
				if !t.Write {
					x.check(len(t.Writes) == 0, k+" read-only", x.pos(t.Create), "no write through a read transaction", "a write is issued through a read-only transaction")
					continue
				}
				writes := append([]*ssa.Call{}, t.Writes...)
				for _, pc := range t.Passes {
					if x.helperWrites(pc.Call.StaticCallee(), 0) {
						writes = append(writes, pc)
					}
				}
				if len(writes) == 0 {
					x.hold(k+" commit", x.pos(t.Create), "write transaction without writes in this function")
					continue
				}
				if len(t.Commits) == 0 {
					x.fail(k+" commit", x.pos(t.Create), "the write transaction is never committed: its writes are discarded by the deferred Abort")
					continue
				}
				cut := map[prog.Edge]bool{}
				for _, c := range t.Commits {
					for _, s := range c.Block().Succs {
						cut[prog.Edge{From: c.Block(), To: s}] = true
					}
				}
				lost := ""
				for _, w := range writes {
					reach := prog.ReachableFrom(w.Block(), cut)
					for _, r := range prog.Returns(t.Fn) {
						if !prog.ReturnsNilError(r) {
							continue
						}
						sameBlockAfterCommit := false
						for _, c := range t.Commits {
							if c.Block() == r.Block() {
								sameBlockAfterCommit = true
							}
						}
						if sameBlockAfterCommit {
							continue
						}
						if reach[r.Block()] || (r.Block() == w.Block()) {
							lost = x.pos(r)
						}
					}
				}
				x.check(lost == "", k+" commit", x.pos(t.Create), "every success return after a write passes Commit",
					"a success return at "+lost+" is reachable after a write without Commit: the write is silently rolled back")
				after := ""
				for _, c := range t.Commits {
					for _, w := range writes {
						if prog.MayPrecede(c, w) && !prog.MayPrecede(w, c) {
							after = x.pos(w)
						}
					}
				}
				x.check(after == "", k+" no-write-after-commit", x.pos(t.Create), "no write after Commit", "a write at "+after+" is issued after Commit")
				// nested writer
				nested := ""
				for _, e := range x.calls().out[t.Fn] {
					if e.Site == nil || e.Spawned || !opens[e.Callee] {
						continue
					}
					if !prog.MayPrecede(t.Create, e.Site) {
						continue
					}
					// is there a path from creation to the call avoiding every commit?
					reach := prog.ReachableFrom(t.Create.Block(), cut)
					reach[t.Create.Block()] = true
					if reach[e.Site.Block()] {
						inCommitBlockAfter := false
						for _, c := range t.Commits {
							if c.Block() == e.Site.Block() && prog.InstrIndex(c) < prog.InstrIndex(e.Site) {
								inCommitBlockAfter = true
							}
						}
						if !inCommitBlockAfter {
							nested = x.pos(e.Site) + " -> " + prog.FnName(e.Callee)
						}
					}
				}
				x.check(nested == "", k+" no-nested-writer", x.pos(t.Create), "no writer opened while this write transaction is open",
					"a function that opens a write transaction is called while this one is open ("+nested+"): go-memdb's writer lock is not re-entrant")
				x.check(perFn[t.Fn] == 1, k+" single-write-txn", x.pos(t.Create), "one write transaction per method", "the method opens several write transactions: its updates are not atomic")
			}
		}})

	register(&Rule{ID: "DB.append", Min: 6, Text: "memdb CreateChangeInfos: serverSeq values come only from DocInfo.IncreaseServerSeq (which stores and returns ServerSeq+1), one per input change in input order; the document row is written only on the edge where the freshly re-read ServerSeq equals the ServerSeq read at the start (compare-and-set, else ErrConflictOnUpdate); the stored row's ServerSeq is the increased one; changes and document row go through the same transaction",
		Run: func(x *Ctx) {
			fn := x.fn(memPkg + ".(*DB).CreateChangeInfos")
			inc := x.fn("server/backend/database.(*DocInfo).IncreaseServerSeq")
			docSS := x.P.Field("server/backend/database.DocInfo.ServerSeq")
			ciSS := x.P.Field("server/backend/database.ChangeInfo.ServerSeq")
			docT := x.P.Named("server/backend/database.DocInfo")
			ciT := x.P.Named("server/backend/database.ChangeInfo")
			if fn == nil || inc == nil || docSS == nil || ciSS == nil {
				return
			}
			k := "func=" + prog.FnName(fn)
			// IncreaseServerSeq: store (load+1), return the stored value
			okInc := false
			for _, st := range storesTo(inc, docSS) {
				if b, ok := st.Val.(*ssa.BinOp); ok && b.Op == token.ADD {
					if c, isC := prog.IntConst(b.Y); isC && c == 1 && prog.LoadedField(b.X) == docSS {
						for _, r := range prog.Returns(inc) {
							if r.Results[0] == ssa.Value(b) || prog.LoadedField(r.Results[0]) == docSS {
								okInc = true
							}
						}
					}
				}
			}
			x.check(okInc, "func="+prog.FnName(inc)+" increments-by-one", x.fpos(inc), "stores and returns ServerSeq+1", "IncreaseServerSeq no longer stores and returns ServerSeq+1 (gaps or duplicates in the log)")
			incObj := inc.Object().(*types.Func)
			// inserted ChangeInfo.ServerSeq derives from IncreaseServerSeq
			var inserts []*ssa.Call
			for _, c := range prog.CallsIn(fn) {
				if o := prog.CallObj(c); o != nil && o.Name() == "Insert" && isMemdbTxn(recvOf(c).Type()) {
					inserts = append(inserts, c.(*ssa.Call))
				}
			}
			var insCI, insDoc *ssa.Call
			for _, c := range inserts {
				obj := c.Call.Args[len(c.Call.Args)-1]
				if isNamed(prog.Strip(obj).Type(), ciT) {
					insCI = c
				}
				if isNamed(prog.Strip(obj).Type(), docT) {
					insDoc = c
				}
			}
			if insCI == nil || insDoc == nil {
				x.fail(k+" inserts", x.fpos(fn), "CreateChangeInfos no longer inserts both the change rows and the document row")
				return
			}
			x.check(recvOf(insCI) == recvOf(insDoc), k+" same-txn", x.pos(insDoc), "changes and document row are written through one transaction", "changes and document row are written through different transactions")
			// ServerSeq of the inserted ChangeInfo
			alloc := prog.Strip(insCI.Call.Args[len(insCI.Call.Args)-1])
			seqOK := false
			if a, ok := alloc.(*ssa.Alloc); ok {
				for _, r := range *a.Referrers() {
					if fa, ok := r.(*ssa.FieldAddr); ok && prog.FieldVar(fa) == ciSS {
						for _, rr := range *fa.Referrers() {
							if st, ok := rr.(*ssa.Store); ok {
								if prog.DependsOn(st.Val, func(v ssa.Value) bool {
									c, ok := v.(*ssa.Call)
									return ok && sameFunc(prog.CallObj(c), incObj)
								}) || prog.LoadedField(st.Val) == ciSS {
									// either directly the call result or cn.ServerSeq which was assigned from it
									seqOK = true
								}
							}
						}
					}
				}
			}
			// cn.ServerSeq = serverSeq (IncreaseServerSeq result) in the same loop
			assignOK := false
			for _, st := range storesTo(fn, ciSS) {
				if c, ok := prog.Strip(st.Val).(*ssa.Call); ok && sameFunc(prog.CallObj(c), incObj) && c.Block() == st.Block() && st.Block() == insCI.Block() ||
					(func() bool {
						c, ok := prog.Strip(st.Val).(*ssa.Call)
						return ok && sameFunc(prog.CallObj(c), incObj) && prog.Dominates(c, insCI)
					})() {
					assignOK = true
				}
			}
			x.check(seqOK && assignOK, k+" serverSeq-from-IncreaseServerSeq", x.pos(insCI), "each stored change takes its ServerSeq from IncreaseServerSeq in the insert loop", "the ServerSeq of stored changes does not come from DocInfo.IncreaseServerSeq called once per change")
			// number of IncreaseServerSeq calls: exactly one site, in a loop over the input
			n := len(callsToIn(fn, incObj))
			x.check(n == 1, k+" one-increase-per-change", x.fpos(fn), "one IncreaseServerSeq site", fmt.Sprintf("%d IncreaseServerSeq sites (expected one, inside the loop over the changes)", n))
			// CAS: doc insert guarded by loaded.ServerSeq == initial
			ss := vpField(docSS)
			x.guardedSite(k+" cas ServerSeq==initial", insDoc, []Cmp{{L: ss, R: ss, Want: EQ}}, nil)
			// the CAS operands come from two different reads
			// stored ServerSeq: store into the inserted doc's ServerSeq of the increased DocInfo's ServerSeq
			docArg := prog.Strip(insDoc.Call.Args[len(insDoc.Call.Args)-1])
			stOK := false
			for _, st := range storesTo(fn, docSS) {
				if prog.FieldBase(st.Addr) == nil {
					continue
				}
				if st.Addr.(*ssa.FieldAddr).X == docArg && prog.LoadedField(st.Val) == docSS && prog.Dominates(st, insDoc) {
					// source must be the DocInfo that IncreaseServerSeq was called on
					src := prog.FieldBase(st.Val)
					for _, c := range callsToIn(fn, incObj) {
						if recvOf(c) == src {
							stOK = true
						}
					}
				}
			}
			x.check(stOK, k+" row.ServerSeq=increased", x.pos(insDoc), "the stored document row takes the increased ServerSeq", "the stored document row's ServerSeq is not the increased one")
		}})
}

// onlyNil: a (possibly spilled) result that is nil on this return.
func onlyNil(v ssa.Value) bool {
	if prog.IsNilConst(v) {
		return true
	}
	return false
}

func init() {
	register(&Rule{ID: "A2", Min: 40, Text: "stored-object hygiene in the memory backend: go-memdb hands out references to the stored objects, so a value obtained from a transaction read (raw.(*T) of First/Get/Next) may not be written through, passed as the receiver of a method that writes its fields, or inserted back after modification, unless it first went through DeepCopy — a write through the stored object takes effect outside any transaction (no compare-and-set, visible to concurrent readers, not rolled back)",
		Run: func(x *Ctx) {
			// mutating methods of the record types: methods of package database that store to a field of their receiver
			mutM := map[*types.Func]bool{}
			for _, fn := range x.P.FuncsIn(dbPkg) {
				if fn.Signature.Recv() == nil || len(fn.Params) == 0 || fn.Name() == "DeepCopy" {
					continue
				}
				recv := fn.Params[0]
				for _, b := range fn.Blocks {
					for _, ins := range b.Instrs {
						switch t := ins.(type) {
						case *ssa.Store:
							if fa, ok := t.Addr.(*ssa.FieldAddr); ok && prog.Reaches(fa.X, func(w ssa.Value) bool { return w == ssa.Value(recv) }) {
								if o, ok := fn.Object().(*types.Func); ok {
									mutM[o] = true
								}
							}
						case *ssa.MapUpdate:
							if f := prog.LoadedField(t.Map); f != nil {
								if o, ok := fn.Object().(*types.Func); ok {
									mutM[o] = true
								}
							}
						}
					}
				}
			}
			// transitive within the package
			for changed := true; changed; {
				changed = false
				for _, fn := range x.P.FuncsIn(dbPkg) {
					o, ok := fn.Object().(*types.Func)
					if !ok || mutM[o] || fn.Signature.Recv() == nil || len(fn.Params) == 0 || fn.Name() == "DeepCopy" {
						continue
					}
					for _, c := range prog.CallsIn(fn) {
						if co := prog.CallObj(c); co != nil && mutM[co.Origin()] && recvOf(c) != nil && prog.Reaches(recvOf(c), func(w ssa.Value) bool { return w == ssa.Value(fn.Params[0]) }) {
							mutM[o] = true
							changed = true
						}
					}
				}
			}
			x.C.Count("mutating methods of the record types", len(mutM))
			n := map[string]int{}
			total := 0
			for _, fn := range x.P.FuncsIn(memPkg) {
				for _, b := range fn.Blocks {
					for _, ins := range b.Instrs {
						ta, ok := ins.(*ssa.TypeAssert)
						if !ok {
							continue
						}
						pt, ok := ta.AssertedType.(*types.Pointer)
						if !ok {
							continue
						}
						nt, ok := pt.Elem().(*types.Named)
						if !ok || nt.Obj().Pkg() == nil || !strings.HasSuffix(nt.Obj().Pkg().Path(), "/"+dbPkg) {
							continue
						}
						// the asserted interface value comes from a memdb read
						fromTxn := prog.Reaches(ta.X, func(w ssa.Value) bool {
							c, ok := w.(*ssa.Call)
							if !ok {
								return false
							}
							o := prog.CallObj(c)
							if o == nil {
								return false
							}
							if recv := recvOf(c); recv != nil && isMemdbTxn(recv.Type()) {
								return true
							}
							return o.Name() == "Next" && o.Pkg() != nil && strings.HasSuffix(o.Pkg().Path(), "go-memdb")
						})
						if !fromTxn {
							continue
						}
						var stored ssa.Value = ta
						if ta.CommaOk {
							stored = nil
							for _, r := range *ta.Referrers() {
								if ex, ok := r.(*ssa.Extract); ok && ex.Index == 0 {
									stored = ex
								}
							}
							if stored == nil {
								continue
							}
						}
						total++
						n[prog.FnName(fn)]++
						k := fmt.Sprintf("func=%s stored=%s#%d", prog.FnName(fn), nt.Obj().Name(), n[prog.FnName(fn)])
						bad := ""
						// every value that is this stored pointer (through phis / locals)
						isStored := func(v ssa.Value) bool {
							return prog.Reaches(v, func(w ssa.Value) bool { return w == stored })
						}
						for _, g := range append([]*ssa.Function{fn}, prog.Closures(fn)...) {
							for _, bb := range g.Blocks {
								for _, in2 := range bb.Instrs {
									switch t := in2.(type) {
									case *ssa.Store:
										if fa, ok := t.Addr.(*ssa.FieldAddr); ok && isStored(fa.X) {
											bad = "field " + prog.FieldVar(fa).Name() + " is written at " + x.pos(t)
										}
									case *ssa.MapUpdate:
										if f := prog.LoadedField(t.Map); f != nil && prog.FieldBase(t.Map) != nil && isStored(prog.FieldBase(t.Map)) {
											bad = "map field " + f.Name() + " is updated at " + x.pos(t)
										}
									case ssa.CallInstruction:
										o := prog.CallObj(t)
										if o == nil {
											continue
										}
										if mutM[o.Origin()] && recvOf(t) != nil && isStored(recvOf(t)) {
											bad = "mutating method " + o.Name() + " is called on it at " + x.pos(in2)
										}
									}
								}
							}
						}
						x.check(bad == "", k, x.pos(ta), "the stored object is only read or deep-copied",
							"a stored "+nt.Obj().Name()+" is modified in place ("+bad+"): the change bypasses the transaction (no compare-and-set, visible before commit, not rolled back on Abort)")
					}
				}
			}
			x.C.Count("stored objects read back in memory.DB", total)
		}})
}

func init() {
	register(&Rule{ID: "REC", Min: 10, Text: "rows are written complete: every record that the memory backend inserts as a composite literal (txn.Insert(table, &T{…})) sets every field of its type, except the fields listed as optional with the reason — a field left out of the literal is stored as its zero value (a change without its version vector, a client record without its epoch)",
		Run: func(x *Ctx) {
			optional := map[string]string{
				"ChangeInfo.Message":          "",
				"DocInfo.RemovedAt":           "set only by removal",
				"DocInfo.CompactedAt":         "set only by compaction",
				"DocInfo.Schema":              "set by UpdateDocInfoSchema",
				"DocInfo.Epoch":               "starts at 0",
				"DocInfo.ServerSeq":           "starts at 0",
				"DocInfo.UpdatedAt":           "",
				"UserInfo.HashedPassword":     "GitHub accounts have no password",
				"VersionVectorInfo.ProjectID": "rows are keyed by the globally unique document id; the field is not filled by this backend on the pinned tree",
				"VersionVectorInfo.ServerSeq": "not used by this backend on the pinned tree",
				"VersionVectorInfo.ID":        "assigned right after the literal (new id or the existing row's)",
			}
			n := 0
			for _, fn := range x.P.FuncsIn(memPkg) {
				cnt := map[string]int{}
				for _, c := range prog.CallsIn(fn) {
					o := prog.CallObj(c)
					if o == nil || o.Name() != "Insert" || recvOf(c) == nil || !isMemdbTxn(recvOf(c).Type()) {
						continue
					}
					al, ok := prog.Strip(c.Common().Args[len(c.Common().Args)-1]).(*ssa.Alloc)
					if !ok || al.Comment != "complit" {
						continue
					}
					un := namedOf(al.Type())
					if un == nil {
						continue
					}
					ust, ok := un.Underlying().(*types.Struct)
					if !ok {
						continue
					}
					set := map[string]bool{}
					for _, r := range *al.Referrers() {
						if fa, ok := r.(*ssa.FieldAddr); ok {
							for _, rr := range *fa.Referrers() {
								if s2, ok := rr.(*ssa.Store); ok && s2.Addr == ssa.Value(fa) {
									set[prog.FieldVar(fa).Name()] = true
								}
							}
						}
					}
					cnt[un.Obj().Name()]++
					for i := 0; i < ust.NumFields(); i++ {
						uf := ust.Field(i)
						key := un.Obj().Name() + "." + uf.Name()
						n++
						k := fmt.Sprintf("func=%s insert=%s#%d field=%s", prog.FnName(fn), un.Obj().Name(), cnt[un.Obj().Name()], uf.Name())
						if _, ok := optional[key]; ok && !set[uf.Name()] {
							x.C.Add(obTrivial(x.id(), k, x.pos(al), "optional: "+optional[key]))
							continue
						}
						x.check(set[uf.Name()], k, x.pos(al), "set in the inserted row", "the inserted "+un.Obj().Name()+" does not set "+uf.Name()+": the row is stored without it")
					}
				}
			}
			x.C.Count("fields of inserted record literals", n)
		}})
}

func init() {
	register(&Rule{ID: "DB.rmw", Min: 8, Text: "read-modify-write of a stored row (memory backend): a method that looks a row up in a table (txn.First) and then writes a row of the same record type back (txn.Insert) writes the row it loaded (its DeepCopy, modified) or a freshly built record — never the caller's own copy of the record (a parameter, or a DeepCopy of one): the caller read its copy before other requests ran, so writing it back undoes whatever they changed in the rest of the record (another document's attachment status, for ClientInfo)",
		Run: func(x *Ctx) {
			mem := x.P.Named("server/backend/database/memory.DB")
			if mem == nil {
				x.C.Unresolved(x.id(), "memory.DB")
				return
			}
			n := 0
			for _, fn := range x.P.FuncsIn("server/backend/database/memory") {
				r := fn.Signature.Recv()
				if r == nil || fn.Parent() != nil {
					continue
				}
				if pt, ok := r.Type().(*types.Pointer); !ok || !isNamed(pt.Elem(), mem) {
					continue
				}
				var firsts, inserts []ssa.CallInstruction
				for _, c := range prog.CallsIn(fn) {
					o := prog.CallObj(c)
					if o == nil || o.Pkg() == nil || !strings.Contains(o.Pkg().Path(), "go-memdb") {
						continue
					}
					switch o.Name() {
					case "First":
						firsts = append(firsts, c)
					case "Insert":
						inserts = append(inserts, c)
					}
				}
				if len(firsts) == 0 || len(inserts) == 0 {
					continue
				}
				tableOf := func(c ssa.CallInstruction) string {
					s, _ := constString(paramArg(c, 0))
					if u, ok := prog.Strip(paramArg(c, 0)).(*ssa.UnOp); ok && s == "" {
						if g, isG := u.X.(*ssa.Global); isG {
							s = g.Name()
						}
					}
					if s == "" {
						if k, ok := prog.Strip(paramArg(c, 0)).(*ssa.Const); ok && k.Value != nil {
							s = k.Value.ExactString()
						}
					}
					return s
				}
				for i, ins := range inserts {
					tbl := tableOf(ins)
					same := false
					for _, f := range firsts {
						if tableOf(f) == tbl && prog.MayPrecede(f, ins) {
							same = true
						}
					}
					if !same {
						continue
					}
					obj := paramArg(ins, 1)
					if mi, ok := obj.(*ssa.MakeInterface); ok {
						obj = mi.X
					}
					n++
					// the caller's copy: a parameter of the method, or DeepCopy of one
					var bad string
					var visit func(v ssa.Value, d int)
					seen := map[ssa.Value]bool{}
					visit = func(v ssa.Value, d int) {
						v = prog.Strip(v)
						if v == nil || seen[v] || d > 8 {
							return
						}
						seen[v] = true
						switch t := v.(type) {
						case *ssa.Parameter:
							if t.Parent() == fn && t != fn.Params[0] {
								bad = "parameter " + t.Name()
							}
						case *ssa.Phi:
							for _, e := range t.Edges {
								visit(e, d+1)
							}
						case *ssa.Call:
							if o := prog.CallObj(t); o != nil && o.Name() == "DeepCopy" && len(t.Call.Args) > 0 {
								visit(t.Call.Args[0], d+1)
							}
						case *ssa.UnOp:
							if al, ok := t.X.(*ssa.Alloc); ok {
								for _, rf := range *al.Referrers() {
									if st, isSt := rf.(*ssa.Store); isSt && st.Addr == ssa.Value(al) {
										visit(st.Val, d+1)
									}
								}
							}
						}
					}
					visit(obj, 0)
					x.check(bad == "", fmt.Sprintf("method=%s insert#%d(%s) writes-the-loaded-row", fn.Name(), i+1, tbl), x.pos(ins), "the row written back is the loaded one or a fresh record", "after looking the row up, the method writes back the caller's own copy ("+bad+"): every field of the record that another request changed since the caller read it is silently reverted")
				}
			}
			if n < 8 {
				x.C.Vacuous(x.id()+" read-modify-write inserts", n, 8)
			}
		}})
}

func init() {
	register(&Rule{ID: "DB.purge", Min: 4, Text: "purging a document's rows (memory backend, used by compaction and by document purge): purgeDocumentInternals deletes from every per-document table exactly once — the table arguments of its DeleteAll calls are pairwise distinct — and reports each count under the name of the table it was deleted from; a table deleted twice is a table not deleted, and rows of the previous generation (stored snapshots) survive a compaction: once the new log grows past their serverSeq, rebuilds start from pre-compaction content",
		Run: func(x *Ctx) {
			fn := x.fn("server/backend/database/memory.(*DB).purgeDocumentInternals")
			if fn == nil {
				x.C.Unresolved(x.id(), "memory.DB.purgeDocumentInternals")
				return
			}
			tbl := func(v ssa.Value) string {
				if s, ok := constString(v); ok {
					return s
				}
				if u, ok := prog.Strip(v).(*ssa.UnOp); ok {
					if g, isG := u.X.(*ssa.Global); isG {
						return g.Name()
					}
				}
				return ""
			}
			seen := map[string]int{}
			n := 0
			for _, c := range prog.CallsIn(fn) {
				o := prog.CallObj(c)
				if o == nil || o.Name() != "DeleteAll" {
					continue
				}
				n++
				t := tbl(paramArg(c, 0))
				seen[t]++
				x.check(t != "" && seen[t] == 1, fmt.Sprintf("func=%s delete#%d table-not-deleted-before", prog.FnName(fn), n), x.pos(c), "table "+t+" is deleted once", "table "+t+" is deleted a second time (a copy/paste slip): the table that should have been deleted here keeps the document's rows")
				// the count is reported under the same table
				var cnt ssa.Value
				for _, r := range *c.Value().Referrers() {
					if ex, ok := r.(*ssa.Extract); ok && ex.Index == 0 {
						cnt = ex
					}
				}
				okKey := false
				for _, b := range fn.Blocks {
					for _, ins := range b.Instrs {
						if mu, ok := ins.(*ssa.MapUpdate); ok && cnt != nil && prog.DependsOn(mu.Value, func(w ssa.Value) bool { return w == cnt }) {
							okKey = tbl(mu.Key) == t
						}
					}
				}
				x.check(okKey, fmt.Sprintf("func=%s delete#%d count-reported-under-its-table", prog.FnName(fn), n), x.pos(c), "the count is stored under "+t, "the number of deleted rows is not reported under the table they were deleted from")
			}
			if n < 4 {
				x.C.Vacuous(x.id()+" deletes", n, 4)
			}
		}})
}
