package rules

import (
	"go/types"

	"yv/internal/prog"

	"golang.org/x/tools/go/ssa"
)

// callIndex is the module-restricted call graph used for reachability roles
// ("the call in F that reaches Database.CreateChangeInfos").
type callIndex struct {
	out     map[*ssa.Function][]callEdgeX
	in      map[*ssa.Function][]*ssa.Function
	inSites map[*ssa.Function][]callEdgeX         // edges by callee
	direct  map[*types.Func][]ssa.CallInstruction // calls by callee object (static or invoke)
	reachMu map[*types.Func]map[*ssa.Function]bool
}

type callEdgeX struct {
	Site    ssa.CallInstruction
	Callee  *ssa.Function
	Spawned bool // runs on another goroutine
}

var callIndexCache = map[*prog.Program]*callIndex{}

func (x *Ctx) calls() *callIndex {
	if ci, ok := callIndexCache[x.P]; ok {
		return ci
	}
	ci := &callIndex{out: map[*ssa.Function][]callEdgeX{}, in: map[*ssa.Function][]*ssa.Function{}, inSites: map[*ssa.Function][]callEdgeX{},
		direct: map[*types.Func][]ssa.CallInstruction{}, reachMu: map[*types.Func]map[*ssa.Function]bool{}}
	callIndexCache[x.P] = ci
	for _, fn := range x.P.ProdFuncs() {
		for _, site := range prog.CallsIn(fn) {
			obj := prog.CallObj(site)
			if obj != nil {
				o := obj.Origin()
				ci.direct[o] = append(ci.direct[o], site)
			}
			_, isGo := site.(*ssa.Go)
			spawn := isGo || isSpawner(obj)
			if !isSpawner(obj) {
				for _, callee := range x.P.Callees(site) {
					if x.P.InModule(callee) {
						ci.out[fn] = append(ci.out[fn], callEdgeX{site, callee, isGo})
						ci.in[callee] = append(ci.in[callee], fn)
						ci.inSites[callee] = append(ci.inSites[callee], callEdgeX{site, fn, isGo})
					}
				}
			}
			for _, f := range closureArgs(site) {
				ci.out[fn] = append(ci.out[fn], callEdgeX{site, f, spawn})
				ci.in[f] = append(ci.in[f], fn)
				ci.inSites[f] = append(ci.inSites[f], callEdgeX{site, fn, spawn})
			}
		}
		// closures stored/returned rather than passed: treat as callable from the definer
		for _, a := range fn.AnonFuncs {
			found := false
			for _, e := range ci.out[fn] {
				if e.Callee == a {
					found = true
				}
			}
			if !found {
				ci.out[fn] = append(ci.out[fn], callEdgeX{nil, a, false})
				ci.in[a] = append(ci.in[a], fn)
				ci.inSites[a] = append(ci.inSites[a], callEdgeX{nil, fn, false})
			}
		}
	}
	return ci
}

// reaching returns the set of production functions from which a call to obj is
// reachable (synchronously or through spawned goroutines).
func (x *Ctx) reaching(obj *types.Func) map[*ssa.Function]bool {
	ci := x.calls()
	if obj == nil {
		return nil
	}
	obj = obj.Origin()
	if s, ok := ci.reachMu[obj]; ok {
		return s
	}
	set := map[*ssa.Function]bool{}
	var work []*ssa.Function
	for _, site := range ci.direct[obj] {
		f := site.Parent()
		if !set[f] {
			set[f] = true
			work = append(work, f)
		}
	}
	for len(work) > 0 {
		f := work[len(work)-1]
		work = work[:len(work)-1]
		for _, caller := range ci.in[f] {
			if !set[caller] {
				set[caller] = true
				work = append(work, caller)
			}
		}
	}
	ci.reachMu[obj] = set
	return set
}

// callsReaching lists the call instructions of fn (not its closures) that call
// obj directly or call a function from which obj is reachable.
func (x *Ctx) callsReaching(fn *ssa.Function, obj *types.Func) []ssa.CallInstruction {
	if obj == nil {
		return nil
	}
	reach := x.reaching(obj)
	ci := x.calls()
	seen := map[ssa.CallInstruction]bool{}
	var out []ssa.CallInstruction
	for _, site := range prog.CallsIn(fn) {
		if sameFunc(prog.CallObj(site), obj) && !seen[site] {
			seen[site] = true
			out = append(out, site)
		}
	}
	for _, e := range ci.out[fn] {
		if e.Site != nil && reach[e.Callee] && !seen[e.Site] {
			seen[e.Site] = true
			out = append(out, e.Site)
		}
	}
	return out
}

// directCallers lists the production call sites of obj.
func (x *Ctx) directCallers(obj *types.Func) []ssa.CallInstruction {
	if obj == nil {
		return nil
	}
	return x.calls().direct[obj.Origin()]
}

// closureArgs lists the anonymous functions passed to a call, directly (possibly
// converted to a named function type) or inside a variadic argument.
func closureArgs(site ssa.CallInstruction) []*ssa.Function {
	var out []*ssa.Function
	var addD func(v ssa.Value, depth int)
	addD = func(v ssa.Value, depth int) {
		switch t := prog.Strip(v).(type) {
		case *ssa.MakeClosure:
			if f, ok := t.Fn.(*ssa.Function); ok {
				out = append(out, f)
			}
		case *ssa.Function:
			if t.Parent() != nil { // an anonymous function without free variables
				out = append(out, t)
			}
		case *ssa.Call:
			// a helper that builds and returns the callback
			if callee := t.Call.StaticCallee(); callee != nil && depth < 2 && len(callee.Blocks) > 0 {
				if _, isSig := t.Type().Underlying().(*types.Signature); isSig {
					for _, r := range prog.Returns(callee) {
						if len(r.Results) == 1 {
							addD(r.Results[0], depth+1)
						}
					}
				}
			}
		}
	}
	add := func(v ssa.Value) { addD(v, 0) }
	for _, a := range site.Common().Args {
		add(a)
		if sl, ok := a.(*ssa.Slice); ok {
			if al, ok := sl.X.(*ssa.Alloc); ok {
				for _, r := range *al.Referrers() {
					if ia, ok := r.(*ssa.IndexAddr); ok {
						for _, rr := range *ia.Referrers() {
							if st, ok := rr.(*ssa.Store); ok {
								add(st.Val)
							}
						}
					}
				}
			}
		}
	}
	return out
}
