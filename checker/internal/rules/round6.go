package rules

import (
	"fmt"
	"go/constant"
	"go/token"
	"go/types"
	"sort"
	"strings"

	"yv/internal/prog"

	"golang.org/x/tools/go/ssa"
)

// Rules added for the sixth round of seeded changes (third rounds of C07, C14–C20).

const ysonPkgRel = "pkg/document/yson"

// isQuoteConst: the byte/rune constant '"' or the string "\"".
func isQuoteConst(v ssa.Value) bool {
	k, ok := v.(*ssa.Const)
	if !ok || k.Value == nil {
		return false
	}
	switch k.Value.Kind() {
	case constant.Int:
		n, exact := constant.Int64Val(k.Value)
		return exact && n == '"'
	case constant.String:
		return constant.StringVal(k.Value) == `"`
	}
	return false
}

// looksAtQuotes: fn searches for or compares with the quote character.
func looksAtQuotes(fn *ssa.Function) bool {
	for _, b := range fn.Blocks {
		for _, ins := range b.Instrs {
			for _, op := range ins.Operands(nil) {
				if op != nil && *op != nil && isQuoteConst(*op) {
					switch ins.(type) {
					case *ssa.BinOp, *ssa.Call:
						return true
					}
				}
			}
		}
	}
	return false
}

func init() {
	register(&Rule{ID: "YSON.lex", Min: 2, Text: "string literals are data: on the way from yson.Unmarshal's text to the JSON decoder, a textual replacement (strings.Replace/ReplaceAll, Regexp.Replace*) is never applied to the text as it came in — walking back from the replacement's subject through parameters and earlier replacements, the text passes through a function that looks at the quote character (a scanner that can tell literals from structure) before it reaches Unmarshal's parameter. A preprocessor that never looks at a quote cannot keep its replacements out of the literals. Keys and string values are user data and may contain any token (a ')' , 'Int('): rewritten inside a literal, a revision restore silently changes the string or fails to parse",
		Run: func(x *Ctx) {
			un := x.fn(ysonPkgRel + ".Unmarshal")
			if un == nil {
				return
			}
			clo := x.closureOf([]*ssa.Function{un}, []string{ysonPkgRel})
			isReplace := func(o *types.Func) bool {
				if o == nil || o.Pkg() == nil {
					return false
				}
				switch o.Pkg().Path() {
				case "strings":
					return o.Name() == "Replace" || o.Name() == "ReplaceAll"
				case "regexp":
					return strings.HasPrefix(o.Name(), "Replace")
				}
				return false
			}
			var fns []*ssa.Function
			for fn := range clo {
				fns = append(fns, fn)
			}
			sort.Slice(fns, func(i, j int) bool { return prog.FnName(fns[i]) < prog.FnName(fns[j]) })
			n := 0
			for _, fn := range fns {
				i := 0
				for _, c := range prog.CallsIn(fn) {
					o := prog.CallObj(c)
					if !isReplace(o) {
						continue
					}
					// the subject: first string argument (strings.*), or the one after the receiver (regexp)
					args := c.Common().Args
					var subj ssa.Value
					for _, a := range args {
						if b, ok := a.Type().Underlying().(*types.Basic); ok && b.Kind() == types.String {
							subj = a
							break
						}
					}
					if subj == nil {
						continue
					}
					i++
					n++
					ok, why := x.cutBetweenLiterals(subj, map[ssa.Value]bool{}, 0)
					x.check(ok, fmt.Sprintf("func=%s replace#%d(%s.%s) subject-is-a-piece-between-literals", prog.FnName(fn), i, o.Pkg().Name(), o.Name()), x.pos(c),
						"the replacement runs on a piece of the text cut out by quote-aware code",
						"a textual replacement is applied to text that still contains the string literals ("+why+"): a key or string value containing the token is rewritten — \"hello (world)\" comes back as \"hello (world}\" from a revision restore")
				}
			}
			if n < 2 {
				x.C.Vacuous(x.id()+" replacements on the text", n, 2)
			}
		}})
}

// cutBetweenLiterals: every origin of the string value v is a slice expression made
// in a function that looks at the quote character (or the result of a previous
// replacement on such a piece); reaching a parameter continues in every caller.
func (x *Ctx) cutBetweenLiterals(v ssa.Value, seen map[ssa.Value]bool, depth int) (bool, string) {
	v = prog.Strip(v)
	if seen[v] || depth > 12 {
		return true, ""
	}
	seen[v] = true
	// a value handled by a function that looks at the quote character: that function is the
	// scanner, what it hands on is what it chose to hand on
	if in, ok := v.(interface{ Parent() *ssa.Function }); ok && in.Parent() != nil && looksAtQuotes(in.Parent()) {
		return true, ""
	}
	switch t := v.(type) {
	case *ssa.Slice:
		return false, "sliced in " + prog.FnName(t.Parent()) + ", which never looks at a quote"
	case *ssa.Phi:
		for _, e := range t.Edges {
			if ok, why := x.cutBetweenLiterals(e, seen, depth+1); !ok {
				return false, why
			}
		}
		return true, ""
	case *ssa.Call:
		// the result of an earlier replacement is as good as its subject
		if o := prog.CallObj(t); o != nil && o.Pkg() != nil && (o.Pkg().Path() == "strings" || o.Pkg().Path() == "regexp") {
			for _, a := range t.Call.Args {
				if b, ok := a.Type().Underlying().(*types.Basic); ok && b.Kind() == types.String {
					return x.cutBetweenLiterals(a, seen, depth+1)
				}
			}
		}
		return false, "the result of " + t.String()
	case *ssa.UnOp:
		if a, ok := t.X.(*ssa.Alloc); ok && t.Op == token.MUL {
			for _, r := range *a.Referrers() {
				if st, isSt := r.(*ssa.Store); isSt && st.Addr == ssa.Value(a) {
					if ok, why := x.cutBetweenLiterals(st.Val, seen, depth+1); !ok {
						return false, why
					}
				}
			}
			return true, ""
		}
		if ia, ok := t.X.(*ssa.IndexAddr); ok {
			_ = ia
			return false, "an element of a collection"
		}
		return false, t.String()
	case *ssa.Parameter:
		fn := t.Parent()
		idx := -1
		for i, p := range fn.Params {
			if p == t {
				idx = i
			}
		}
		fo, _ := fn.Object().(*types.Func)
		if fo == nil || idx < 0 {
			return false, "parameter " + t.Name() + " of " + prog.FnName(fn)
		}
		cs := x.directCallers(fo)
		any := false
		for _, c := range cs {
			if c.Parent().Pkg == nil || !prog.IsProd(c.Parent().Pkg.Pkg.Path()) {
				continue
			}
			args := c.Common().Args
			if c.Common().IsInvoke() || idx >= len(args) {
				continue
			}
			any = true
			if ok, why := x.cutBetweenLiterals(args[idx], seen, depth+1); !ok {
				return false, why + " <- " + prog.FnName(fn)
			}
		}
		if !any {
			return false, "the whole text (parameter " + t.Name() + " of " + prog.FnName(fn) + ")"
		}
		return true, ""
	}
	return false, v.String()
}

func init() {
	register(&Rule{ID: "YSON.key", Min: 2, Text: "member names are data: in the YSON parser (package yson, what Unmarshal reaches), a JSON map that is turned into an Object (handed to parseObject on some path) is not probed with a constant key — an object's member names are chosen by the user, so a decision taken on `m[\"type\"]` misreads (or rejects) a user object that happens to have such a member; maps that can only be typed values (handed to a typed parser on every path) may be probed",
		Run: func(x *Ctx) {
			un := x.fn(ysonPkgRel + ".Unmarshal")
			po := x.fn(ysonPkgRel + ".parseObject")
			if un == nil || po == nil {
				return
			}
			poObj, _ := po.Object().(*types.Func)
			clo := x.closureOf([]*ssa.Function{un}, []string{ysonPkgRel})
			var fns []*ssa.Function
			for fn := range clo {
				fns = append(fns, fn)
			}
			sort.Slice(fns, func(i, j int) bool { return prog.FnName(fns[i]) < prog.FnName(fns[j]) })
			n := 0
			for _, fn := range fns {
				// maps handed to parseObject in this function
				asObject := map[ssa.Value]ssa.CallInstruction{}
				for _, c := range callsToIn(fn, poObj) {
					if a := argOf(c, 0); a != nil {
						asObject[prog.Strip(a)] = c
					}
				}
				i := 0
				for _, b := range fn.Blocks {
					for _, ins := range b.Instrs {
						lk, ok := ins.(*ssa.Lookup)
						if !ok {
							continue
						}
						if _, isMap := lk.X.Type().Underlying().(*types.Map); !isMap {
							continue
						}
						k, isK := lk.Index.(*ssa.Const)
						if !isK || k.Value == nil || k.Value.Kind() != constant.String {
							continue
						}
						at, becomesObject := asObject[prog.Strip(lk.X)]
						if !becomesObject {
							continue
						}
						i++
						n++
						x.fail(fmt.Sprintf("func=%s map-parsed-as-object probed-with-key=%s #%d", prog.FnName(fn), constant.StringVal(k.Value), i), x.pos(lk),
							"the map probed here with the constant key "+k.Value.ExactString()+" is parsed as an Object at "+x.pos(at)+": a user object with a member of that name is taken for something else (a typed value) or rejected")
					}
				}
				// the maps handed to parseObject without being probed are the instances that hold
				var cs []ssa.CallInstruction
				for _, c := range asObject {
					cs = append(cs, c)
				}
				sort.Slice(cs, func(i, j int) bool { return cs[i].Pos() < cs[j].Pos() })
				for j, c := range cs {
					probed := false
					for _, b := range fn.Blocks {
						for _, ins := range b.Instrs {
							if lk, ok := ins.(*ssa.Lookup); ok && prog.Strip(lk.X) == prog.Strip(argOf(c, 0)) {
								if k, isK := lk.Index.(*ssa.Const); isK && k.Value != nil && k.Value.Kind() == constant.String {
									probed = true
								}
							}
						}
					}
					if !probed {
						n++
						x.hold(fmt.Sprintf("func=%s parseObject#%d argument-not-probed", prog.FnName(fn), j+1), x.pos(c), "the map becomes an Object without a decision on one of its member names")
					}
				}
			}
			if n < 2 {
				x.C.Vacuous(x.id()+" maps parsed as objects", n, 2)
			}
		}})

	register(&Rule{ID: "IDX.walk", Min: 2, Text: "offsets are walked over live children: in pkg/index, a loop that consumes a child's live measure (its VisibleLength, or Length()/PaddedLength() without the include-removed flag) takes its children from the live-filtered accessor Children() — or, ranging over the raw children field, tests the child's removal inside the loop. A tombstoned child keeps its own length (only its ancestors' lengths are reduced), so walking raw children subtracts deleted content from a path offset or index",
		Run: func(x *Ctx) {
			childrenF := x.P.Field("pkg/index.Node.children")
			visF := x.P.Field("pkg/index.Node.VisibleLength")
			if childrenF == nil || visF == nil {
				x.C.Unresolved(x.id(), "pkg/index.Node.children / VisibleLength")
				return
			}
			n := 0
			for _, fn := range x.P.FuncsIn("pkg/index") {
				if len(fn.Blocks) == 0 || fn.Origin() != nil {
					continue
				}
				loops := prog.Loops(fn)
				i := 0
				for _, b := range fn.Blocks {
					for _, ins := range b.Instrs {
						ia, ok := ins.(*ssa.IndexAddr)
						if !ok {
							continue
						}
						// the element loaded from the slice
						var elem ssa.Value
						for _, r := range *ia.Referrers() {
							if u, isU := r.(*ssa.UnOp); isU && u.Op == token.MUL {
								elem = u
							}
						}
						if elem == nil {
							continue
						}
						// the loop this indexing runs in
						var loop *prog.Loop
						for _, l := range loops {
							if l.Body[b] && (loop == nil || len(l.Body) < len(loop.Body)) {
								loop = l
							}
						}
						if loop == nil {
							continue
						}
						// does the loop consume a live measure of the element?
						measure := ""
						var uses func(v ssa.Value, d int)
						uses = func(v ssa.Value, d int) {
							if d > 3 || v.Referrers() == nil {
								return
							}
							for _, r := range *v.Referrers() {
								switch t := r.(type) {
								case *ssa.FieldAddr:
									if sameField(prog.FieldVar(t), visF) && t.X == v {
										for _, rr := range *t.Referrers() {
											if u, isU := rr.(*ssa.UnOp); isU && loop.Body[u.Block()] {
												measure = "VisibleLength"
											}
										}
									}
								case *ssa.Call:
									o := prog.CallObj(t)
									if o != nil && recvOf(t) == v && loop.Body[t.Block()] && (o.Name() == "Length" || o.Name() == "PaddedLength") {
										// without the include flag: the variadic argument is nil
										as := t.Call.Args
										if len(as) == 1 || prog.IsNilConst(as[len(as)-1]) {
											measure = o.Name() + "()"
										}
									}
								case *ssa.Phi:
									uses(t, d+1)
								}
							}
						}
						uses(elem, 0)
						if measure == "" {
							continue
						}
						src := prog.Strip(ia.X)
						i++
						k := fmt.Sprintf("func=%s child-walk#%d measure=%s", prog.FnName(fn), i, measure)
						if c, isC := src.(*ssa.Call); isC && prog.CallObj(c) != nil && prog.CallObj(c).Name() == "Children" {
							n++
							as := c.Call.Args
							if len(as) == 1 || prog.IsNilConst(as[len(as)-1]) {
								x.hold(k, x.pos(ia), "walks Children(): removed children are left out")
							} else {
								x.C.Add(obTrivial(x.id(), k, x.pos(ia), "Children(flag): the caller's include-removed flag selects both the children and the measure"))
							}
							continue
						}
						if sameField(prog.LoadedField(src), childrenF) {
							n++
							tested := false
							for blk := range loop.Body {
								if iff := prog.IfOf(blk); iff != nil && mentionsRemoval(iff.Cond) {
									tested = true
								}
							}
							x.check(tested, k, x.pos(ia), "raw children, with a removal test inside the loop",
								"the loop walks the raw children field and consumes "+measure+" of every child, removed ones included: a tombstoned child still has its own length, so deleted content is counted into the offset (a path offset past a deleted text piece lands too far left)")
						}
					}
				}
			}
			if n < 2 {
				x.C.Vacuous(x.id()+" child walks", n, 2)
			}
		}})

	register(&Rule{ID: "LIST.tail", Min: 4, Text: "the tail pointer follows the list: every method of crdt.RGATreeList that rewires a `next` link of a list node (links a new node in, or unlinks one) also maintains RGATreeList.last in the same function — a store to `last` that is unconditional or guarded by a comparison of `last` with a node. An unlink that forgets it leaves `last` pointing at a purged node: lengths and reads stay right, the next append dereferences the dead node",
		Run: func(x *Ctx) {
			lastF := x.P.Field(crdtPkg + ".RGATreeList.last")
			nextF := x.P.Field(crdtPkg + ".RGATreeListNode.next")
			listT := x.P.Named(crdtPkg + ".RGATreeList")
			if lastF == nil || nextF == nil || listT == nil {
				x.C.Unresolved(x.id(), crdtPkg+".RGATreeList.last / RGATreeListNode.next")
				return
			}
			x.mutators() // sets localRoot
			// rewiring: a store into the next field of a node that already is in the list — not of
			// a node this function has just constructed and not the detaching nil
			rewiresIn := func(fn *ssa.Function) []ssa.Instruction {
				var out []ssa.Instruction
				for _, st := range storesTo(fn, nextF) {
					if prog.IsNilConst(st.Val) {
						continue
					}
					fa, _ := st.Addr.(*ssa.FieldAddr)
					if fa != nil && localRoot != nil && localRoot(fa.X) {
						continue
					}
					out = append(out, st)
				}
				return out
			}
			helpers := map[*ssa.Function]bool{} // package-level functions that link a node after another
			for _, fn := range x.P.FuncsIn(crdtPkg) {
				if fn.Signature.Recv() == nil && fn.Parent() == nil && len(rewiresIn(fn)) > 0 {
					helpers[fn] = true
				}
			}
			n := 0
			for _, fn := range x.P.FuncsIn(crdtPkg) {
				r := fn.Signature.Recv()
				if r == nil || fn.Parent() != nil {
					continue
				}
				if pt, ok := r.Type().(*types.Pointer); !ok || !isNamed(pt.Elem(), listT) {
					continue
				}
				rewires := rewiresIn(fn)
				for _, c := range prog.CallsIn(fn) {
					if callee := c.Common().StaticCallee(); callee != nil && helpers[callee] {
						rewires = append(rewires, c)
					}
				}
				if len(rewires) == 0 {
					continue
				}
				n++
				ok := false
				for _, st := range storesTo(fn, lastF) {
					deps := x.P.ControlDeps(st.Block())
					if len(deps) == 0 {
						ok = true
					}
					for _, iff := range deps {
						if bo, isB := iff.Cond.(*ssa.BinOp); isB && (prog.LoadedField(bo.X) == lastF || prog.LoadedField(bo.Y) == lastF) {
							ok = true
						}
					}
				}
				x.check(ok, "func="+prog.FnName(fn)+" rewires-next maintains-last", x.pos(rewires[0]), "the function also updates last (unconditionally or when the node involved is the last one)",
					"the function rewires a next link of the list but never updates RGATreeList.last: when the node involved is the last one, last keeps pointing at a node that is no longer (or not yet) the tail — after a purge the next append dereferences the released node")
			}
			if n < 4 {
				x.C.Vacuous(x.id()+" functions rewiring next", n, 4)
			}
		}})
}

// passesThrough: every path from the function entry to site passes one of the via
// instructions (same block and earlier, or a cut of the via blocks' out-edges).
func passesThrough(site ssa.Instruction, via []ssa.Instruction) bool {
	fn := site.Parent()
	cut := map[prog.Edge]bool{}
	for _, v := range via {
		if v.Block() == site.Block() && prog.InstrIndex(v) < prog.InstrIndex(site) {
			return true
		}
		for _, s := range v.Block().Succs {
			cut[prog.Edge{From: v.Block(), To: s}] = true
		}
	}
	return len(cut) > 0 && prog.CutDisconnects(fn, site.Block(), cut)
}

// sameField: the same struct field, also across instantiations of a generic type.
func sameField(a, b *types.Var) bool {
	return a != nil && b != nil && (a == b || (a.Pos() == b.Pos() && a.Name() == b.Name()))
}

// storesToField: like storesTo, matching the field across generic instantiations.
func storesToField(fn *ssa.Function, f *types.Var) []*ssa.Store {
	var out []*ssa.Store
	for _, b := range fn.Blocks {
		for _, ins := range b.Instrs {
			if st, ok := ins.(*ssa.Store); ok {
				if fa, isFA := st.Addr.(*ssa.FieldAddr); isFA && sameField(prog.FieldVar(fa), f) {
					out = append(out, st)
				}
			}
		}
	}
	return out
}

func asInstrs[T ssa.Instruction](in []T) []ssa.Instruction {
	out := make([]ssa.Instruction, 0, len(in))
	for _, i := range in {
		out = append(out, i)
	}
	return out
}

func init() {
	register(&Rule{ID: "REV.push", Min: 3, Text: "a revision restore that reports success has written the content back: in revisions.Restore every return of a nil error is reached only through the call of packs.PushPull, that call only through Document.Update, and the Update callback calls SetYSON with the parsed snapshot and deletes the existing members first — there is no early success exit (an empty snapshot is content too: restoring it must empty the document)",
		Run: func(x *Ctx) {
			fn := x.fn("server/revisions.Restore")
			pp := x.P.FnObj("server/packs.PushPull")
			upd := x.P.FnObj(docPkg + ".(*Document).Update")
			if fn == nil || pp == nil || upd == nil {
				if pp == nil || upd == nil {
					x.C.Unresolved(x.id(), "packs.PushPull / Document.Update")
				}
				return
			}
			k := "func=" + prog.FnName(fn)
			pushes := callsToIn(fn, pp)
			updates := callsToIn(fn, upd)
			i := 0
			for _, r := range prog.Returns(fn) {
				if !prog.ReturnsNilError(r) {
					continue
				}
				i++
				x.check(passesThrough(r, asInstrs(pushes)), fmt.Sprintf("%s ok-return#%d passes-PushPull", k, i), x.pos(r), "success is reported only after the push",
					"Restore returns nil on a path that never pushed the restored content: the caller is told the document was restored while it still holds the later content")
			}
			for j, c := range pushes {
				x.check(passesThrough(c, asInstrs(updates)), fmt.Sprintf("%s PushPull#%d after-Update", k, j+1), x.pos(c), "the pushed pack comes after the update that rewrites the content",
					"the push can be reached without the Update that rewrites the document from the snapshot")
			}
			// the callback deletes and sets
			setY := x.P.FnObj("pkg/document/json.(*Object).SetYSON")
			del := x.P.FnObj("pkg/document/json.(*Object).Delete")
			// the updater: the function value handed to Update — a closure of Restore, or one built by a helper
			var updaters []*ssa.Function
			for _, c := range updates {
				updaters = append(updaters, closureArgs(c)...)
			}
			if len(updaters) == 0 {
				updaters = prog.Closures(fn)
			}
			for _, cl := range updaters {
				if setY == nil || del == nil {
					x.C.Unresolved(x.id(), "json.Object.SetYSON / Delete")
					break
				}
				sets := callsToIn(cl, setY)
				dels := callsToIn(cl, del)
				if len(sets) == 0 && len(dels) == 0 {
					continue
				}
				ok := len(sets) > 0 && len(dels) > 0
				for _, r := range prog.Returns(cl) {
					if prog.ReturnsNilError(r) && !passesThrough(r, asInstrs(sets)) {
						ok = false
					}
				}
				x.check(ok, k+" callback deletes-then-sets", x.fpos(cl), "the existing members are deleted and the snapshot is set on every successful path of the callback",
					"the update callback no longer deletes the existing members and sets the parsed snapshot on every successful path")
			}
		}})

	register(&Rule{ID: "PS.closed", Min: 2, Text: "dead means closed: in pubsub.Subscription every store of true into the closed flag is followed, in the same critical section, by close(events) (the close post-dominates the store), and every close(events) is preceded by such a store — Close() does nothing once the flag is set, so a path that only sets the flag leaves the watcher's channel open forever: its stream neither gets events nor ends",
		Run: func(x *Ctx) {
			closedF := x.P.Field("server/backend/pubsub.Subscription.closed")
			eventsF := x.P.Field("server/backend/pubsub.Subscription.events")
			if closedF == nil || eventsF == nil {
				x.C.Unresolved(x.id(), "pubsub.Subscription.closed / events")
				return
			}
			n := 0
			for _, fn := range x.P.FuncsIn("server/backend/pubsub") {
				if fn.Origin() != nil || len(fn.Blocks) == 0 {
					continue
				}
				var closes []ssa.Instruction
				for _, c := range builtinCalls(fn, "close") {
					if len(c.Call.Args) == 1 && sameField(prog.LoadedField(c.Call.Args[0]), eventsF) {
						closes = append(closes, c)
					}
				}
				var sets []ssa.Instruction
				for _, st := range storesToField(fn, closedF) {
					if k, ok := st.Val.(*ssa.Const); ok && k.Value != nil && k.Value.Kind() == constant.Bool && constant.BoolVal(k.Value) {
						sets = append(sets, st)
					}
				}
				for i, st := range sets {
					n++
					ok := false
					for _, c := range closes {
						if (c.Block() == st.Block() && prog.InstrIndex(c) > prog.InstrIndex(st)) || x.P.PostDominates(c, st) {
							ok = true
						}
					}
					x.check(ok, fmt.Sprintf("func=%s closed=true#%d followed-by-close(events)", prog.FnName(fn), i+1), x.pos(st), "the channel is closed where the flag is set",
						"the subscription is marked closed without closing its events channel: Close() is a no-op once the flag is set, so nobody ever closes the channel — the watcher drains what is buffered and then waits forever, missing every later change")
				}
				for i, c := range closes {
					n++
					x.check(passesThrough(c, sets), fmt.Sprintf("func=%s close(events)#%d after-closed=true", prog.FnName(fn), i+1), x.pos(c), "the flag is set before the channel is closed",
						"the events channel is closed on a path that does not set the closed flag first: a later Publish sends on the closed channel")
				}
			}
			if n < 2 {
				x.C.Vacuous(x.id()+" flag/close sites", n, 2)
			}
		}})

	register(&Rule{ID: "OBS.acc", Min: 1, Text: "a change is observable if any of its operations is: in change.Change.Execute the value stored into ExecutionResult.Observable inside the loop over the operations depends on the field's previous value (an accumulation) or is the constant true — overwritten per operation, a change whose last operation happens to be a no-op counts as unobservable and the undo/redo built from it is applied locally but never queued for pushing",
		Run: func(x *Ctx) {
			obsF := x.P.Field(changePkg + ".ExecutionResult.Observable")
			if obsF == nil {
				x.C.Unresolved(x.id(), changePkg+".ExecutionResult.Observable")
				return
			}
			n := 0
			for _, fn := range x.P.FuncsIn(changePkg, docPkg) {
				loops := prog.Loops(fn)
				for i, st := range storesTo(fn, obsF) {
					inLoop := false
					for _, l := range loops {
						if l.Body[st.Block()] {
							inLoop = true
						}
					}
					if !inLoop {
						continue
					}
					n++
					acc := prog.DependsOn(st.Val, func(v ssa.Value) bool {
						return prog.LoadedField(v) == obsF && sameAccessPath(prog.FieldBase(v), prog.FieldBase(st.Addr))
					})
					if k, ok := st.Val.(*ssa.Const); ok && k.Value != nil && k.Value.Kind() == constant.Bool && constant.BoolVal(k.Value) {
						acc = true
					}
					// `old || new` is a phi of true and new, selected by a test of the old value
					if ph, ok := st.Val.(*ssa.Phi); ok && !acc {
						loadsOld := func(v ssa.Value) bool {
							return prog.LoadedField(v) == obsF && sameAccessPath(prog.FieldBase(v), prog.FieldBase(st.Addr))
						}
						for _, p := range ph.Block().Preds {
							ifs := x.P.ControlDeps(p)
							if iff := prog.IfOf(p); iff != nil {
								ifs = append(ifs, iff)
							}
							for _, iff := range ifs {
								if prog.DependsOn(iff.Cond, loadsOld) {
									acc = true
								}
							}
						}
					}
					x.check(acc, fmt.Sprintf("func=%s store#%d accumulates", prog.FnName(fn), i+1), x.pos(st), "the summary is accumulated over the operations",
						"Observable is overwritten by every operation: only the last executed operation decides; an undo whose last operation is a no-op is applied to the document but dropped from the local changes, and peers never get it")
				}
			}
			if n < 1 {
				x.C.Vacuous(x.id()+" stores in loops", n, 1)
			}
		}})
}

// crdtPointerish: a pointer to (or slice of pointers to, or interface of) a type of the CRDT model package.
func crdtPointerish(t types.Type) bool {
	switch u := t.(type) {
	case *types.Slice:
		return crdtPointerish(u.Elem())
	case *types.Pointer:
		if n, ok := u.Elem().(*types.Named); ok && n.Obj().Pkg() != nil {
			// positions and primitives are immutable values: sharing them is harmless
			if strings.HasSuffix(n.Obj().Name(), "Pos") || n.Obj().Name() == "Primitive" {
				return false
			}
			return strings.HasSuffix(n.Obj().Pkg().Path(), "/"+crdtPkg)
		}
	case *types.Named:
		if _, isI := u.Underlying().(*types.Interface); isI && u.Obj().Pkg() != nil {
			return strings.HasSuffix(u.Obj().Pkg().Path(), "/"+crdtPkg)
		}
	}
	return false
}

func init() {
	register(&Rule{ID: "J.alias", Min: 3, Text: "what an operation carries is not what was linked into the editing copy: in pkg/document/json (the editing proxies), a CRDT object (element, tree node, or a slice of them) handed to a constructor of package operations is not the same value that the function also hands to a mutating method of the CRDT model (which links it into the editing copy) — one of the two is a DeepCopy. Shared, a later edit in the same Update that splits or fills the inserted node also rewrites the content of the operation already queued: the document and the peers execute something else than the editing copy did",
		Run: func(x *Ctx) {
			mut := x.mutators()
			n := 0
			for _, fn := range x.P.FuncsIn("pkg/document/json") {
				if len(fn.Blocks) == 0 {
					continue
				}
				// values linked into the model in this function
				type use struct {
					v  ssa.Value
					at ssa.CallInstruction
				}
				var linked []use
				var carried []use
				for _, c := range prog.CallsIn(fn) {
					o := prog.CallObj(c)
					if o == nil || o.Pkg() == nil {
						continue
					}
					args := c.Common().Args
					switch {
					case strings.HasSuffix(o.Pkg().Path(), "/"+opsPkg) && strings.HasPrefix(o.Name(), "New"):
						for _, a := range args {
							if crdtPointerish(a.Type()) {
								carried = append(carried, use{a, c})
							}
						}
					case strings.HasSuffix(o.Pkg().Path(), "/"+crdtPkg):
						if may, _ := x.callMayMutate(c, mut); !may {
							continue
						}
						start := 0
						if !c.Common().IsInvoke() && o.Type().(*types.Signature).Recv() != nil {
							start = 1 // the receiver is the container, not what is linked in
						}
						for _, a := range args[start:] {
							if crdtPointerish(a.Type()) {
								linked = append(linked, use{a, c})
							}
						}
					}
				}
				if len(carried) == 0 || len(linked) == 0 {
					continue
				}
				isCopy := func(v ssa.Value) bool {
					return prog.Reaches(v, func(w ssa.Value) bool {
						c, ok := prog.Strip(w).(*ssa.Call)
						return ok && prog.CallObj(c) != nil && strings.HasPrefix(prog.CallObj(c).Name(), "DeepCopy")
					})
				}
				for i, cv := range carried {
					n++
					bad := ""
					for _, lv := range linked {
						if !(prog.Strip(cv.v) == prog.Strip(lv.v) || sameAccessPath(cv.v, lv.v)) {
							continue
						}
						if isCopy(cv.v) && prog.Strip(cv.v) != prog.Strip(lv.v) {
							continue
						}
						bad = x.pos(lv.at)
					}
					x.check(bad == "", fmt.Sprintf("func=%s operand#%d(%s) not-the-linked-object", prog.FnName(fn), i+1, prog.CallObj(cv.at).Name()), x.pos(cv.at),
						"the operation carries an object of its own",
						"the object handed to the operation is the very object linked into the editing copy at "+bad+": a later edit of that node in the same Update changes what the queued operation inserts on the document and on every peer")
				}
			}
			if n < 3 {
				x.C.Vacuous(x.id()+" operation operands next to a linking call", n, 3)
			}
		}})

	register(&Rule{ID: "LOOP.fresh", Min: 2, Text: "one container per item: in the CRDT model and its proxies (packages crdt, json, operations, converter), an object that is filled inside a loop (a method call on it, or a map update) and built into a value made per iteration (argument of a New…/new… constructor or a field of a composite literal inside the loop) is allocated inside that loop — allocated once before the loop, every item shares it and ends up with the union of everything that was put in",
		Run: func(x *Ctx) {
			n := 0
			for _, fn := range x.P.FuncsIn(crdtPkg, "pkg/document/json", opsPkg, convPkg) {
				if len(fn.Blocks) == 0 || fn.Origin() != nil {
					continue
				}
				loops := prog.Loops(fn)
				if len(loops) == 0 {
					continue
				}
				k := 0
				for _, b := range fn.Blocks {
					for _, ins := range b.Instrs {
						var obj ssa.Value
						switch t := ins.(type) {
						case *ssa.Call:
							o := prog.CallObj(t)
							if o != nil && (strings.HasPrefix(o.Name(), "New") || strings.HasPrefix(o.Name(), "new")) && t.Call.StaticCallee() != nil {
								if _, isP := t.Type().(*types.Pointer); isP {
									obj = t
								}
							}
						case *ssa.MakeMap:
							obj = t
						}
						if obj == nil || obj.Referrers() == nil {
							continue
						}
						// direct uses, and uses through the local variable it was assigned to
						var users []ssa.Instruction
						for _, r := range *obj.Referrers() {
							users = append(users, r)
							if st, ok := r.(*ssa.Store); ok && st.Val == obj {
								if a, isA := st.Addr.(*ssa.Alloc); isA {
									for _, ar := range *a.Referrers() {
										if u, isU := ar.(*ssa.UnOp); isU && u.Referrers() != nil {
											users = append(users, *u.Referrers()...)
										}
									}
								}
							}
						}
						isObj := func(v ssa.Value) bool {
							v = prog.Strip(v)
							if v == obj {
								return true
							}
							if u, ok := v.(*ssa.UnOp); ok {
								if a, isA := u.X.(*ssa.Alloc); isA {
									for _, ar := range *a.Referrers() {
										if st, isSt := ar.(*ssa.Store); isSt && st.Addr == ssa.Value(a) && st.Val == obj {
											return true
										}
									}
								}
							}
							return false
						}
						for _, l := range loops {
							filled, built := false, false
							var builtAt ssa.Instruction
							for _, u := range users {
								if !l.Body[u.Block()] {
									continue
								}
								switch t := u.(type) {
								case *ssa.MapUpdate:
									if isObj(t.Map) {
										filled = true
									}
								case *ssa.Store:
									if isObj(t.Val) {
										if fa, ok := t.Addr.(*ssa.FieldAddr); ok {
											if _, isA := fa.X.(*ssa.Alloc); isA && l.Body[fa.X.(*ssa.Alloc).Block()] {
												built, builtAt = true, u
											}
										}
									}
								case *ssa.Call:
									o := prog.CallObj(t)
									if o == nil {
										continue
									}
									if r := recvOf(t); r != nil && isObj(r) {
										if o.Name() == "Set" || o.Name() == "Add" || o.Name() == "Put" || o.Name() == "Insert" || o.Name() == "Append" || o.Name() == "SetInternal" {
											filled = true
										}
										continue
									}
									if strings.HasPrefix(o.Name(), "New") || strings.HasPrefix(o.Name(), "new") {
										for _, a := range t.Call.Args {
											if isObj(a) {
												built, builtAt = true, u
											}
										}
									}
								}
							}
							if !(filled && built) {
								continue
							}
							k++
							n++
							inside := l.Body[b]
							x.check(inside, fmt.Sprintf("func=%s container#%d fresh-per-iteration", prog.FnName(fn), k), x.pos(builtAt),
								"allocated inside the loop that fills it and builds it into a per-item value",
								"the container built into every item of this loop is allocated once, at "+x.pos(ins)+", outside the loop: all items share it, and each ends up with everything the loop put in (restored text spans all get the union of the spans' attributes)")
						}
					}
				}
			}
			if n < 2 {
				x.C.Vacuous(x.id()+" per-item containers", n, 2)
			}
		}})
}

func init() {
	register(&Rule{ID: "DC.path", Min: 20, Text: "a copied field is copied on every path: in every DeepCopy method of the document model (packages crdt, document, change, time, presence/inner, json), a field of the copy that the method assigns from the source (clone.f = … n.f …) is assigned on every path to every successful return — unless the conditions that decide about the assignment are about that field itself (nil tests of n.f). A field copied under an unrelated condition (only for text nodes, only when some other field is set) is silently reset in the other copies: the editing copy shown to users is made by DeepCopy, so it then executes later remote operations differently from the document",
		Run: func(x *Ctx) {
			n := 0
			for _, fn := range x.P.FuncsIn(docPkg, changePkg, crdtPkg, timePkg, "pkg/document/presence/inner", "pkg/document/json") {
				if fn.Name() != "DeepCopy" || fn.Signature.Recv() == nil || fn.Parent() != nil || len(fn.Blocks) == 0 {
					continue
				}
				if o := fn.Origin(); o != nil && o != fn {
					continue
				}
				rt := fn.Signature.Recv().Type()
				if p, ok := rt.(*types.Pointer); ok {
					rt = p.Elem()
				}
				nt, ok := rt.(*types.Named)
				if !ok {
					continue
				}
				if _, ok := nt.Underlying().(*types.Struct); !ok {
					continue
				}
				recv := fn.Params[0]
				// stores into fields of a value of the receiver's type that is not the receiver
				byField := map[*types.Var][]*ssa.Store{}
				var order []*types.Var
				for _, b := range fn.Blocks {
					for _, ins := range b.Instrs {
						st, ok := ins.(*ssa.Store)
						if !ok {
							continue
						}
						fa, ok := st.Addr.(*ssa.FieldAddr)
						if !ok {
							continue
						}
						if bn := namedOf(fa.X.Type()); bn == nil || bn.Obj() != nt.Origin().Obj() {
							continue
						}
						if prog.Reaches(fa.X, func(w ssa.Value) bool { return w == ssa.Value(recv) }) {
							continue
						}
						// inside a composite literal every field is stored in one block: nothing to decide
						f := prog.FieldVar(fa)
						if f == nil {
							continue
						}
						// the value comes from the same field of the source
						fromSrc := prog.DependsOn(st.Val, func(w ssa.Value) bool {
							lf := prog.LoadedField(w)
							return lf != nil && sameField(lf, f)
						})
						if !fromSrc {
							continue
						}
						if _, seen := byField[f]; !seen {
							order = append(order, f)
						}
						byField[f] = append(byField[f], st)
					}
				}
				var oks []*ssa.Return
				for _, r := range prog.Returns(fn) {
					if fn.Signature.Results().Len() < 2 || prog.ReturnsNilError(r) {
						// a return of a nil copy is not a successful copy
						if len(r.Results) > 0 && prog.IsNilConst(prog.ReturnValue(r, 0)) {
							continue
						}
						oks = append(oks, r)
					}
				}
				for _, f := range order {
					sts := byField[f]
					n++
					k := fmt.Sprintf("func=%s field=%s assigned-on-every-path", prog.FnName(fn), f.Name())
					bad := ""
					for _, r := range oks {
						if passesThrough(r, asInstrs(sts)) {
							continue
						}
						// excused when every deciding condition of the stores is about the field itself
						excused := true
						for _, st := range sts {
							for _, iff := range x.P.ControlDeps(st.Block()) {
								about := prog.DependsOn(iff.Cond, func(w ssa.Value) bool {
									lf := prog.LoadedField(w)
									return lf != nil && sameField(lf, f)
								})
								if !about {
									excused = false
								}
							}
						}
						if !excused {
							bad = x.pos(r)
						}
					}
					x.check(bad == "", k, x.pos(sts[0]), "every successful return comes after the assignment (or the assignment depends only on the field itself)",
						"the copy's field "+f.Name()+" is assigned from the source only on some paths: the successful return at "+bad+" is reachable without it, under a condition that is not about the field — copies made on that path lose the field (element split links dropped from the user's editing copy make it apply a later remote delete or style to one half only)")
				}
			}
			if n < 20 {
				x.C.Vacuous(x.id()+" copied fields", n, 20)
			}
		}})

	register(&Rule{ID: "SPAN.clamp", Min: 2, Text: "a restored or re-removed range is the intersection of the span and the piece: in crdt.RGATreeSplit, for every call of isolateRange made while walking the pieces of a span (a value with start/end fields), the upper bound handed over is bounded above by span.end (it is span.end, min(…, span.end), or arrives over an edge guarded by ≤ span.end) and the lower bound is bounded below by span.start (span.start, max(…, span.start), guarded, or a cursor that starts at span.start and only moves to upper bounds already clamped). Unclamped, the redo of a deletion inside a node that a purge-and-restore rebuilt as one piece removes the whole prefix of the piece, not the span",
		Run: func(x *Ctx) {
			iso := x.P.FnObj(crdtPkg + ".(*RGATreeSplit).isolateRange")
			if iso == nil {
				x.C.Unresolved(x.id(), crdtPkg+".(*RGATreeSplit).isolateRange")
				return
			}
			n := 0
			for _, fn := range x.P.FuncsIn(crdtPkg) {
				if fn.Origin() != nil || len(fn.Blocks) == 0 {
					continue
				}
				for i, c := range callsToIn(fn, iso) {
					args := c.Common().Args
					if len(args) < 4 {
						continue
					}
					lo, hi := args[2], args[3]
					fieldNamed := func(name string) VP {
						return VP{"span." + name, func(v ssa.Value) bool {
							f := prog.LoadedField(v)
							return f != nil && f.Name() == name
						}}
					}
					start, end := fieldNamed("start"), fieldNamed("end")
					// is there a span in this function at all?
					has := false
					for _, b := range fn.Blocks {
						for _, ins := range b.Instrs {
							if v, ok := ins.(ssa.Value); ok && end.match(v) {
								has = true
							}
						}
					}
					if !has {
						continue
					}
					n++
					k := fmt.Sprintf("func=%s isolateRange#%d", prog.FnName(fn), i+1)
					hiOK := boundedBy(fn, hi, end, "min", LE)
					x.check(hiOK, k+" upper<=span.end", x.pos(c), "the upper bound is clamped to the span's end",
						"the range handed to isolateRange can extend past the span's end: more than the span is restored / re-removed")
					loOK := boundedBy(fn, lo, start, "max", GE)
					if !loOK {
						// a cursor: a phi whose incoming values are span.start-bounded or upper bounds clamped to span.end
						if _, isPhi := prog.Strip(lo).(*ssa.Phi); isPhi {
							all, cnt := true, 0
							phiEdges(prog.Strip(lo), func(val ssa.Value, e prog.Edge) {
								cnt++
								if boundedBy(fn, val, start, "max", GE) || boundedBy(fn, val, end, "min", LE) {
									return
								}
								all = false
							}, map[*ssa.Phi]bool{})
							loOK = all && cnt > 0
						}
					}
					x.check(loOK, k+" lower>=span.start", x.pos(c), "the lower bound is clamped to the span's start",
						"the range handed to isolateRange starts at the piece's own start even when the span starts later: the characters of the piece in front of the span are re-removed (or restored) too — after insert ABCD, delete BC, undo, undo, GC, redo, redo the text is D instead of AD")
				}
			}
			if n < 2 {
				x.C.Vacuous(x.id()+" isolateRange calls in span walks", n, 2)
			}
		}})

	register(&Rule{ID: "TREE.anchor", Min: 3, Text: "the place where content goes in is the resolved from-position: in crdt.Tree.Edit the parent and the left sibling handed to the split step and used as the insertion anchor (Tree.split's arguments, the receiver of InsertAt/InsertAfter of new content) derive only from the lookup of the `from` position — through FindTreeNodesWithSplitText and the advance past unknown split siblings — never from the range narrowing, which may only feed collectBetween; and collectBetween's `to` side derives only from the lookup of `to`. Narrowing written back into the anchor moves the inserted element into the other half of a concurrently split parent on one replica only",
		Run: func(x *Ctx) {
			fn := x.fn(crdtPkg + ".(*Tree).Edit")
			find := x.P.FnObj(crdtPkg + ".(*Tree).FindTreeNodesWithSplitText")
			adv := x.P.FnObj(crdtPkg + ".(*Tree).advancePastUnknownSplitSiblings")
			split := x.P.FnObj(crdtPkg + ".(*Tree).split")
			coll := x.P.FnObj(crdtPkg + ".(*Tree).collectBetween")
			if fn == nil || find == nil || split == nil || coll == nil {
				if find == nil || split == nil || coll == nil {
					x.C.Unresolved(x.id(), "Tree.FindTreeNodesWithSplitText / split / collectBetween")
				}
				return
			}
			finds := callsToIn(fn, find)
			if len(finds) < 2 || len(fn.Params) < 3 {
				x.fail("func="+prog.FnName(fn)+" lookups", x.fpos(fn), "Tree.Edit no longer resolves its two positions with FindTreeNodesWithSplitText")
				return
			}
			// which lookup resolves which parameter
			lookupOf := func(pm *ssa.Parameter) ssa.Value {
				for _, c := range finds {
					if a := paramArg(c, 0); a != nil && prog.Reaches(a, func(w ssa.Value) bool { return w == ssa.Value(pm) }) {
						return c.Value()
					}
				}
				return nil
			}
			fromCall, toCall := lookupOf(fn.Params[1]), lookupOf(fn.Params[2])
			if fromCall == nil || toCall == nil {
				x.fail("func="+prog.FnName(fn)+" lookups", x.fpos(fn), "the lookups of the from and to positions were not found")
				return
			}
			// every leaf of v (through phis, local variables and the advance step) is an extract of call
			var only func(v ssa.Value, call ssa.Value, seen map[ssa.Value]bool) (bool, string)
			only = func(v ssa.Value, call ssa.Value, seen map[ssa.Value]bool) (bool, string) {
				v = prog.Strip(v)
				if seen[v] {
					return true, ""
				}
				seen[v] = true
				switch t := v.(type) {
				case *ssa.Extract:
					if t.Tuple == call {
						return true, ""
					}
					return false, "a result of " + t.Tuple.String()
				case *ssa.Phi:
					for _, e := range t.Edges {
						if ok, why := only(e, call, seen); !ok {
							return false, why
						}
					}
					return true, ""
				case *ssa.UnOp:
					if a, ok := t.X.(*ssa.Alloc); ok && t.Op == token.MUL {
						for _, r := range *a.Referrers() {
							if st, isSt := r.(*ssa.Store); isSt && st.Addr == ssa.Value(a) {
								if ok, why := only(st.Val, call, seen); !ok {
									return false, why
								}
							}
						}
						return true, ""
					}
				case *ssa.Call:
					if adv != nil && sameFunc(prog.CallObj(t), adv) {
						return only(paramArg(t, 0), call, seen)
					}
				}
				return false, v.String()
			}
			k := "func=" + prog.FnName(fn)
			for i, c := range callsToIn(fn, split) {
				for j, name := range []string{"parent", "left"} {
					ok, why := only(paramArg(c, j), fromCall, map[ssa.Value]bool{})
					x.check(ok, fmt.Sprintf("%s split#%d %s-from-the-from-lookup", k, i+1, name), x.pos(c), "derives only from the lookup of the from position",
						"the "+name+" handed to the split step can be "+why+", not what the from position resolved to: the narrowing for the collect range leaked into the insertion anchor, so the new content lands in the other half of a concurrently split parent on the replica that saw the split first")
				}
			}
			for i, c := range callsToIn(fn, coll) {
				for j, name := range []string{"toParent", "toLeft"} {
					ok, why := only(paramArg(c, 2+j), toCall, map[ssa.Value]bool{})
					x.check(ok, fmt.Sprintf("%s collectBetween#%d %s-from-the-to-lookup", k, i+1, name), x.pos(c), "derives only from the lookup of the to position",
						"the "+name+" of the collected range can be "+why+", not what the to position resolved to")
				}
			}
			// the receiver of the insertion of new content
			for _, m := range []string{"InsertAt", "InsertAfter"} {
				o := x.P.FnObj(crdtPkg + ".(*TreeNode)." + m)
				for i, c := range callsToIn(fn, o) {
					r := recvOf(c)
					if r == nil {
						continue
					}
					ok, why := only(r, fromCall, map[ssa.Value]bool{})
					x.check(ok, fmt.Sprintf("%s %s#%d receiver-from-the-from-lookup", k, m, i+1), x.pos(c), "content is inserted under the parent the from position resolved to",
						"new content is inserted under "+why+", not under the parent the from position resolved to")
				}
			}
		}})
}

func init() {
	register(&Rule{ID: "DET.order", Min: 3, Text: "what replicas are told does not depend on Go's map order: in the document model (packages crdt, operations, json, document, change, presence) a slice that a function returns and that was filled while ranging over a map is sorted before it is returned, or its elements are (GC) pairs that the callers only register by key, or the function is one of the two hash-table node accessors (RHT.Nodes, ElementRHT.Nodes: unordered by contract, listed with their consumers) — anything else ends up in an operation or is consumed positionally: the restore spans of a text deletion travel in the reverse operation, and the peer that purged the tombstones rebuilds the runs in the order it is given, while the author merely revives them in place",
		Run: func(x *Ctx) {
			isSort := func(c ssa.CallInstruction) bool {
				o := prog.CallObj(c)
				if o == nil || o.Pkg() == nil {
					if f := c.Common().StaticCallee(); f != nil && f.Origin() != nil && f.Origin().Pkg != nil {
						return strings.HasSuffix(f.Origin().Pkg.Pkg.Path(), "slices") && strings.HasPrefix(f.Origin().Name(), "Sort")
					}
					return false
				}
				p := o.Pkg().Path()
				return (p == "sort" || p == "slices") && (strings.HasPrefix(o.Name(), "Sort") || o.Name() == "Strings" || o.Name() == "Slice" || o.Name() == "SliceStable" || o.Name() == "Ints")
			}
			gcPair := x.P.Named(crdtPkg + ".GCPair")
			// accessors that hand out the nodes of a hash table: unordered by contract
			unordered := map[string]string{
				"(*" + crdtPkg + ".RHT).Nodes":        "the attribute table's node set; consumers are the marshal functions (sorted: DET.map), the snapshot encoder (decoded into a map again), DeepCopy and GC (by key)",
				"(*" + crdtPkg + ".ElementRHT).Nodes": "the object's member node set; consumers are the snapshot encoder (decoded into a map again), DeepCopy, and GC (by key)",
			}
			n := 0
			for _, fn := range x.P.FuncsIn(crdtPkg, opsPkg, "pkg/document/json", docPkg, changePkg, "pkg/document/presence", "pkg/document/presence/inner") {
				if len(fn.Blocks) == 0 || fn.Parent() != nil {
					continue
				}
				if o := fn.Origin(); o != nil && o != fn {
					continue
				}
				lname := strings.ToLower(fn.Name())
				if strings.Contains(lname, "marshal") {
					continue // DET.map
				}
				i := 0
				loops := prog.Loops(fn)
				for _, b := range fn.Blocks {
					for _, ins := range b.Instrs {
						rg, ok := ins.(*ssa.Range)
						if !ok {
							continue
						}
						if _, isMap := rg.X.Type().Underlying().(*types.Map); !isMap {
							continue
						}
						// the loop of this range: the one whose header holds its Next
						var body map[*ssa.BasicBlock]bool
						for _, r := range *rg.Referrers() {
							if nx, isN := r.(*ssa.Next); isN {
								for _, l := range loops {
									if l.Header == nx.Block() {
										body = l.Body
									}
								}
							}
						}
						fed := func(v ssa.Value) bool {
							return prog.DependsOn(v, func(w ssa.Value) bool {
								nx, isN := w.(*ssa.Next)
								return isN && nx.Iter == ssa.Value(rg)
							})
						}
						for _, ap := range builtinCalls(fn, "append") {
							if body == nil || !body[ap.Block()] {
								continue // filled from a (sorted) copy of the keys, not in map order
							}
							isFed := false
							for _, a := range ap.Call.Args[1:] {
								if fed(a) {
									isFed = true
								}
							}
							if !isFed {
								continue
							}
							// does the collected slice reach a return value?
							returned := false
							for _, r := range prog.Returns(fn) {
								for ri := range r.Results {
									if prog.DependsOn(prog.ReturnValue(r, ri), func(w ssa.Value) bool { return w == ssa.Value(ap) }) {
										if _, isSl := r.Results[ri].Type().Underlying().(*types.Slice); isSl {
											returned = true
										}
									}
								}
							}
							if !returned {
								continue
							}
							i++
							n++
							k := fmt.Sprintf("func=%s map-range#%d returned-slice-is-ordered", prog.FnName(fn), i)
							if sl, isSl := ap.Type().Underlying().(*types.Slice); isSl && gcPair != nil && isNamed(sl.Elem(), gcPair) {
								x.C.Add(obTrivial(x.id(), k, x.pos(ap), "GC pairs: the callers register them by key, order is irrelevant"))
								continue
							}
							if why, ok := unordered[prog.FnName(fn)]; ok {
								x.C.Add(obTrivial(x.id(), k, x.pos(ap), "unordered by contract: "+why))
								continue
							}
							sorted := false
							for _, c := range prog.CallsIn(fn) {
								if !isSort(c) {
									continue
								}
								for _, a := range c.Common().Args {
									if prog.DependsOn(a, func(w ssa.Value) bool { return w == ssa.Value(ap) }) {
										sorted = true
									}
								}
							}
							x.check(sorted, k, x.pos(ap), "sorted before it is returned",
								"the returned slice is filled in Go's random map order and never sorted: its order differs from run to run, and whoever consumes it positionally (the restore spans carried by the reverse operation of a text deletion; the peer that purged the tombstones rebuilds the runs in that order) gives different results on different replicas")
						}
					}
				}
			}
			if n < 3 {
				x.C.Vacuous(x.id()+" slices collected from maps and returned", n, 3)
			}
		}})
}

func init() {
	register(&Rule{ID: "CP.store", Min: 2, Text: "a recorded checkpoint is recorded whole: in the methods of database.ClientInfo that store a document's checkpoint (they assign ClientDocInfo.ClientSeq from a parameter: UpdateCheckpoint), every return of a nil error is reached only after the stores of both ClientSeq and ServerSeq — the stored ClientSeq is the server's duplicate filter; a success exit that skips it (an early return under a condition on the other field) leaves the filter behind the log, and the next request of the client is rejected for ever or, after a lost response, stored twice",
		Run: func(x *Ctx) {
			cSeq := x.P.Field(dbPkg + ".ClientDocInfo.ClientSeq")
			sSeq := x.P.Field(dbPkg + ".ClientDocInfo.ServerSeq")
			ciT := x.P.Named(dbPkg + ".ClientInfo")
			if cSeq == nil || sSeq == nil || ciT == nil {
				x.C.Unresolved(x.id(), dbPkg+".ClientDocInfo.ClientSeq/ServerSeq")
				return
			}
			n := 0
			for _, fn := range x.P.FuncsIn(dbPkg) {
				r := fn.Signature.Recv()
				if r == nil || fn.Parent() != nil || namedOf(r.Type()) == nil || namedOf(r.Type()).Obj() != ciT.Obj() {
					continue
				}
				fromParam := func(st *ssa.Store) bool {
					return prog.DependsOn(st.Val, func(w ssa.Value) bool {
						pm, ok := w.(*ssa.Parameter)
						return ok && pm != fn.Params[0]
					})
				}
				var cs, ss []*ssa.Store
				for _, st := range storesTo(fn, cSeq) {
					if fromParam(st) {
						cs = append(cs, st)
					}
				}
				for _, st := range storesTo(fn, sSeq) {
					if fromParam(st) {
						ss = append(ss, st)
					}
				}
				if len(cs) == 0 {
					continue
				}
				i := 0
				for _, ret := range prog.Returns(fn) {
					if !prog.ReturnsNilError(ret) {
						continue
					}
					i++
					n++
					k := fmt.Sprintf("func=%s ok-return#%d", prog.FnName(fn), i)
					x.check(passesThrough(ret, asInstrs(cs)), k+" after-ClientSeq-store", x.pos(ret), "success is reported only after the ClientSeq was stored",
						"a nil error is returned on a path that never stored the ClientSeq: the server's duplicate filter stays behind what the log already holds")
					n++
					x.check(len(ss) > 0 && passesThrough(ret, asInstrs(ss)), k+" after-ServerSeq-store", x.pos(ret), "success is reported only after the ServerSeq was stored",
						"a nil error is returned on a path that never stored the ServerSeq")
				}
			}
			if n < 2 {
				x.C.Vacuous(x.id()+" success exits of checkpoint setters", n, 2)
			}
		}})

	register(&Rule{ID: "O1.gate", Min: 2, Text: "the schema and size gates of Document.Update are skipped only for changes without operations: every test one of whose outcomes bypasses schema.ValidateYorkieRuleset, or the comparison with the size limit, and that asks the change context something, asks a predicate that reads the context's operations (IsPresenceOnlyChange / HasOperations) — a predicate about the presence part (HasPresenceChange) lets an update that edits the root and also touches presence through both gates: it is executed on the document, queued and pushed although it breaks the schema or the size limit",
		Run: func(x *Ctx) {
			fn := x.fn(docPkg + ".(*Document).Update")
			opsF := x.P.Field(changePkg + ".Context.operations")
			ctxT := x.P.Named(changePkg + ".Context")
			limF := x.P.Field(docPkg + ".Document.MaxSizeLimit")
			if fn == nil || opsF == nil || ctxT == nil || limF == nil {
				if opsF == nil || ctxT == nil || limF == nil {
					x.C.Unresolved(x.id(), "change.Context.operations / Document.MaxSizeLimit")
				}
				return
			}
			// the gated sites: the validator call, and the comparison of the limit with the size
			var sites []ssa.Instruction
			var names []string
			for _, c := range prog.CallsIn(fn) {
				if o := prog.CallObj(c); o != nil && o.Pkg() != nil && strings.HasSuffix(o.Pkg().Path(), "/pkg/schema") && strings.HasPrefix(o.Name(), "Validate") {
					sites = append(sites, c)
					names = append(names, "schema")
				}
			}
			for _, b := range fn.Blocks {
				for _, ins := range b.Instrs {
					bo, ok := ins.(*ssa.BinOp)
					if !ok || !(bo.Op == token.LSS || bo.Op == token.GTR || bo.Op == token.LEQ || bo.Op == token.GEQ) {
						continue
					}
					if prog.LoadedField(bo.X) == limF || prog.LoadedField(bo.Y) == limF {
						if _, isK := bo.Y.(*ssa.Const); isK {
							continue // MaxSizeLimit > 0
						}
						if _, isK := bo.X.(*ssa.Const); isK {
							continue
						}
						sites = append(sites, bo)
						names = append(names, "size")
					}
				}
			}
			readsOps := func(callee *ssa.Function) bool {
				for _, b := range callee.Blocks {
					for _, ins := range b.Instrs {
						if fa, ok := ins.(*ssa.FieldAddr); ok && prog.FieldVar(fa) == opsF {
							return true
						}
					}
				}
				return false
			}
			for i, site := range sites {
				k := fmt.Sprintf("func=%s gate=%s#%d", prog.FnName(fn), names[i], i+1)
				bad := ""
				asked := 0
				// the bypass conditions of the site: tests one of whose edges can still reach it and the other cannot
				var bypass []*ssa.If
				for _, b := range fn.Blocks {
					iff := prog.IfOf(b)
					if iff == nil || len(b.Succs) != 2 {
						continue
					}
					r0 := b.Succs[0] == site.Block() || prog.ReachableFrom(b.Succs[0], nil)[site.Block()]
					r1 := b.Succs[1] == site.Block() || prog.ReachableFrom(b.Succs[1], nil)[site.Block()]
					if r0 != r1 {
						bypass = append(bypass, iff)
					}
				}
				for _, iff := range bypass {
					prog.DependsOn(iff.Cond, func(w ssa.Value) bool {
						c, ok := w.(*ssa.Call)
						if !ok {
							return false
						}
						callee := c.Call.StaticCallee()
						if callee == nil || callee.Signature.Recv() == nil || namedOf(callee.Signature.Recv().Type()) == nil || namedOf(callee.Signature.Recv().Type()).Obj() != ctxT.Obj() {
							return false
						}
						if b, isB := c.Type().(*types.Basic); !isB || b.Kind() != types.Bool {
							return false
						}
						asked++
						if !readsOps(callee) {
							bad = callee.Name()
						}
						return false
					})
				}
				x.check(bad == "" && asked > 0, k+" skipped-only-without-operations", x.pos(site), "the gate's bypass asks whether the change has operations",
					"the gate is bypassed on the answer of Context."+bad+", which does not look at the operations: an update that edits the root and also touches presence skips the gate")
			}
		}})
}

func init() {
	register(&Rule{ID: "STALE.list", Min: 5, Text: "a child list is looked at after the structure was changed, not before: index.Node.Children() hands out a fresh slice — a snapshot. In the tree model (packages crdt, index) a function that takes such a snapshot and later reads it (indexes it, ranges over it, takes its length) does not call, between the two, a function that changes which nodes are children of some node (one that writes index.Node.children, directly or through its callees: Split, InsertAt/After/Before, Append, Prepend, RemoveChild, SetChildren …; the function's own recursion into a child excepted) — the RGA skip in Tree.FindTreeNodesWithSplitText walks the siblings right of the split text node, which exist only after the split",
		Run: func(x *Ctx) {
			childrenF := x.P.Field("pkg/index.Node.children")
			if childrenF == nil {
				x.C.Unresolved(x.id(), "pkg/index.Node.children")
				return
			}
			// functions that change a children slice, transitively (within the model)
			scope := x.P.FuncsIn(crdtPkg, "pkg/index")
			structural := map[*ssa.Function]bool{}
			for _, fn := range scope {
				for _, b := range fn.Blocks {
					for _, ins := range b.Instrs {
						if st, ok := ins.(*ssa.Store); ok {
							if fa, isFA := st.Addr.(*ssa.FieldAddr); isFA && sameField(prog.FieldVar(fa), childrenF) {
								structural[fn] = true
							}
						}
					}
				}
			}
			for changed := true; changed; {
				changed = false
				for _, fn := range scope {
					if structural[fn] {
						continue
					}
					for _, e := range x.calls().out[fn] {
						if structural[e.Callee] || (e.Callee.Origin() != nil && structural[e.Callee.Origin()]) {
							structural[fn] = true
							changed = true
							break
						}
					}
				}
			}
			n := 0
			for _, fn := range scope {
				if len(fn.Blocks) == 0 || (fn.Origin() != nil && fn.Origin() != fn) {
					continue
				}
				i := 0
				for _, c := range prog.CallsIn(fn) {
					cc, ok := c.(*ssa.Call)
					if !ok || prog.CallObj(cc) == nil || prog.CallObj(cc).Name() != "Children" {
						continue
					}
					if _, isSl := cc.Type().Underlying().(*types.Slice); !isSl {
						continue
					}
					// the reads of the snapshot
					var reads []ssa.Instruction
					var walk func(v ssa.Value, d int)
					walk = func(v ssa.Value, d int) {
						if d > 3 || v.Referrers() == nil {
							return
						}
						for _, r := range *v.Referrers() {
							switch t := r.(type) {
							case *ssa.IndexAddr, *ssa.Range, *ssa.Slice:
								reads = append(reads, r)
							case *ssa.Call:
								if bi, isB := t.Call.Value.(*ssa.Builtin); isB && bi.Name() == "len" {
									reads = append(reads, r)
								}
							case *ssa.Phi:
								walk(t, d+1)
							case *ssa.Store:
								if a, isA := t.Addr.(*ssa.Alloc); isA && t.Val == v {
									for _, ar := range *a.Referrers() {
										if u, isU := ar.(*ssa.UnOp); isU {
											walk(u, d+1)
										}
									}
								}
							}
						}
					}
					walk(cc, 0)
					if len(reads) == 0 {
						continue
					}
					i++
					n++
					bad := ""
					for _, m := range prog.CallsIn(fn) {
						callee := m.Common().StaticCallee()
						if callee == nil {
							continue
						}
						if !(structural[callee] || (callee.Origin() != nil && structural[callee.Origin()])) {
							continue
						}
						if callee == fn || callee.Origin() == fn {
							continue // the recursion descends into a child: it rebuilds that child's list, not the one held here
						}
						if !prog.MayPrecede(cc, m) || m == ssa.CallInstruction(cc) {
							continue
						}
						// … without a fresh snapshot in between: the call must not come before the snapshot on the way to the read
						for _, rd := range reads {
							if prog.MayPrecede(m, rd) && !(prog.MayPrecede(m, cc) && prog.Dominates(cc, rd) && !prog.Dominates(cc, m)) {
								bad = callee.Name() + " at " + x.pos(m)
							}
						}
					}
					x.check(bad == "", fmt.Sprintf("func=%s Children-snapshot#%d read-before-any-structural-change", prog.FnName(fn), i), x.pos(cc),
						"no call that changes a children list comes between taking the snapshot and reading it",
						"the child list is taken and then "+bad+" changes which nodes are children before the list is read: the reader walks a list that no longer is the structure (the RGA skip right of a just-split text node misses the split-off piece and the concurrent sibling behind it — the same insert lands in different places on two replicas)")
				}
			}
			if n < 5 {
				x.C.Vacuous(x.id()+" snapshots of child lists that are read", n, 5)
			}
		}})
}

func init() {
	register(&Rule{ID: "DEC.default", Min: 2, Text: "a decoder rejects what it does not know: in package converter every type switch over a wire oneof (the body of an Operation, of a JSONElement) — in SSA, a chain of comma-ok type assertions on one value whose interface type belongs to the generated API package — ends, on the path where no case matched, in a return of a non-nil error (or a panic); never in a continue or a fall-through. An operation from a newer SDK, a rolled-back server or a corrupted row that is skipped silently is stored, relayed and snapshotted as a shorter change while its sender keeps the effect",
		Run: func(x *Ctx) {
			n := 0
			for _, fn := range x.P.FuncsIn(convPkg) {
				if len(fn.Blocks) == 0 {
					continue
				}
				// comma-ok assertions grouped by the asserted value
				groups := map[ssa.Value][]*ssa.TypeAssert{}
				var order []ssa.Value
				for _, b := range fn.Blocks {
					for _, ins := range b.Instrs {
						ta, ok := ins.(*ssa.TypeAssert)
						if !ok || !ta.CommaOk {
							continue
						}
						nt, isN := ta.X.Type().(*types.Named)
						if !isN || nt.Obj().Pkg() == nil || !strings.HasSuffix(nt.Obj().Pkg().Path(), "/"+apiPkg) {
							continue
						}
						if _, isI := nt.Underlying().(*types.Interface); !isI {
							continue
						}
						if _, seen := groups[ta.X]; !seen {
							order = append(order, ta.X)
						}
						groups[ta.X] = append(groups[ta.X], ta)
					}
				}
				i := 0
				for _, v := range order {
					tas := groups[v]
					if len(tas) < 2 {
						continue // a single assertion is a cast, not a switch
					}
					inGroup := map[*ssa.BasicBlock]bool{}
					for _, ta := range tas {
						inGroup[ta.Block()] = true
					}
					// the no-match block: the false successor of an assertion's test that holds no further assertion of the group
					var def *ssa.BasicBlock
					for _, ta := range tas {
						iff := prog.IfOf(ta.Block())
						if iff == nil || len(ta.Block().Succs) != 2 {
							continue
						}
						f := ta.Block().Succs[1]
						if !inGroup[f] {
							def = f
						}
					}
					if def == nil {
						continue
					}
					i++
					n++
					cur := def
					for step := 0; step < 4; step++ {
						last := cur.Instrs[len(cur.Instrs)-1]
						if _, isJ := last.(*ssa.Jump); isJ && len(cur.Succs) == 1 && len(cur.Instrs) <= 2 {
							cur = cur.Succs[0]
							continue
						}
						break
					}
					ok := false
					switch t := cur.Instrs[len(cur.Instrs)-1].(type) {
					case *ssa.Return:
						ok = !prog.ReturnsNilError(t) && fn.Signature.Results().Len() > 0 && isErrorType(fn.Signature.Results().At(fn.Signature.Results().Len()-1).Type())
					case *ssa.Panic:
						ok = true
					}
					x.check(ok, fmt.Sprintf("func=%s oneof-switch#%d(%s) no-match-is-an-error", prog.FnName(fn), i, namedOf(v.Type()).Obj().Name()), x.pos(tas[0]),
						"the path on which no case matched returns an error",
						"a body that matches no case of the switch is not rejected (the no-match path continues or falls through): an unknown or empty operation is dropped silently — the change is stored and relayed without it while its sender keeps the effect")
				}
			}
			if n < 2 {
				x.C.Vacuous(x.id()+" oneof switches", n, 2)
			}
		}})
}

func init() {
	register(&Rule{ID: "N.alloc", Min: 1, Text: "a decoder allocates what the bytes hold, not what they claim: in the hand-written binary decoders of the document model (functions of packages time, crdt, change that build a *bytes.Reader over their input or take one), an integer read from the input is not the size of a make() — map or slice — unless the allocation is under a test that relates that integer to the length of the input (len(data), Reader.Len()). A truncated or hostile stored vector of 8 bytes that claims 2^22 entries otherwise allocates hundreds of MiB before the first entry fails to decode",
		Run: func(x *Ctx) {
			n := 0
			isReaderT := func(t types.Type) bool {
				if p, ok := t.(*types.Pointer); ok {
					if nt, isN := p.Elem().(*types.Named); isN && nt.Obj().Pkg() != nil {
						return nt.Obj().Pkg().Path() == "bytes" && nt.Obj().Name() == "Reader"
					}
				}
				return false
			}
			for _, fn := range x.P.FuncsIn(timePkg, crdtPkg, changePkg) {
				if len(fn.Blocks) == 0 {
					continue
				}
				// integers that come out of the input
				var counts []ssa.Value
				for _, c := range prog.CallsIn(fn) {
					cc, ok := c.(*ssa.Call)
					if !ok {
						continue
					}
					takesReader := false
					for _, a := range cc.Call.Args {
						if isReaderT(a.Type()) {
							takesReader = true
						}
					}
					if !takesReader {
						continue
					}
					// an integer result (possibly with an error)
					isInt := func(t types.Type) bool {
						b, ok := t.Underlying().(*types.Basic)
						return ok && b.Info()&types.IsInteger != 0
					}
					switch t := cc.Type().(type) {
					case *types.Tuple:
						if t.Len() > 0 && isInt(t.At(0).Type()) {
							for _, r := range *cc.Referrers() {
								if ex, isE := r.(*ssa.Extract); isE && ex.Index == 0 {
									counts = append(counts, ex)
								}
							}
						}
					default:
						if isInt(cc.Type()) {
							counts = append(counts, cc)
						}
					}
				}
				for i, cnt := range counts {
					// is it used as a loop bound or an allocation size at all?
					dep := func(v ssa.Value) bool {
						return v != nil && prog.DependsOn(v, func(w ssa.Value) bool { return w == cnt })
					}
					var makes []ssa.Instruction
					bound := false
					for _, b := range fn.Blocks {
						for _, ins := range b.Instrs {
							switch t := ins.(type) {
							case *ssa.MakeMap:
								if dep(t.Reserve) {
									makes = append(makes, t)
								}
							case *ssa.MakeSlice:
								if dep(t.Len) || dep(t.Cap) {
									makes = append(makes, t)
								}
							case *ssa.If:
								if bo, ok := t.Cond.(*ssa.BinOp); ok && (dep(bo.X) || dep(bo.Y)) {
									bound = true
								}
							}
						}
					}
					if !bound && len(makes) == 0 {
						continue // a decoded value, not a count
					}
					n++
					bad := ""
					for _, mk := range makes {
						guarded := false
						for _, iff := range x.P.ControlDeps(mk.Block()) {
							relatesToInput := prog.DependsOn(iff.Cond, func(w ssa.Value) bool {
								c, ok := w.(*ssa.Call)
								if !ok {
									return false
								}
								if bi, isB := c.Call.Value.(*ssa.Builtin); isB && bi.Name() == "len" {
									return true
								}
								o := prog.CallObj(c)
								return o != nil && (o.Name() == "Len" || o.Name() == "Size")
							})
							if relatesToInput && prog.DependsOn(iff.Cond, func(w ssa.Value) bool { return w == cnt }) {
								guarded = true
							}
						}
						if !guarded {
							bad = x.pos(mk)
						}
					}
					x.check(bad == "", fmt.Sprintf("func=%s count#%d allocation-follows-the-bytes", prog.FnName(fn), i+1), x.pos(cnt.(ssa.Instruction)),
						"the count read from the input bounds a loop only (or an allocation tested against the input's length)",
						"the make() at "+bad+" is sized by a count read from the input without relating it to the input's length: 8 bytes claiming 2^22 entries allocate hundreds of MiB — a truncated or hostile row is not rejected, it exhausts memory")
				}
			}
			if n < 1 {
				x.C.Vacuous(x.id()+" counts read from input", n, 1)
			}
		}})
}

func init() {
	register(&Rule{ID: "K.merge", Min: 2, Text: "whatever a replica applies, its clock has seen: (a) in every function of package document that executes received changes in a loop (a call of Change.Execute inside a loop), every path from a successful Execute to the next iteration or to the end of the loop passes a store into the document's changeID of the result of ID.SyncLamport / SyncClocks for that change — also for a change that altered nothing observable here (two replicas deleting the same range): its author's entry and lamport must still enter the vector, or the next local change is not newer than what it has seen; (b) InternalDocument.applySnapshot stores the result of ID.SetClocks on every successful exit — a snapshot's vector is merged whether or not its lamport is ahead of the document's own",
		Run: func(x *Ctx) {
			exec := x.P.FnObj(changePkg + ".(*Change).Execute")
			cidF := x.P.Field(docPkg + ".InternalDocument.changeID")
			if exec == nil || cidF == nil {
				x.C.Unresolved(x.id(), "Change.Execute / InternalDocument.changeID")
				return
			}
			syncStores := func(fn *ssa.Function, names ...string) []ssa.Instruction {
				var out []ssa.Instruction
				for _, st := range storesTo(fn, cidF) {
					if prog.Reaches(st.Val, func(w ssa.Value) bool {
						c, ok := w.(*ssa.Call)
						if !ok || prog.CallObj(c) == nil {
							return false
						}
						for _, nm := range names {
							if prog.CallObj(c).Name() == nm {
								return true
							}
						}
						return false
					}) {
						out = append(out, st)
					}
				}
				return out
			}
			n := 0
			for _, fn := range x.P.FuncsIn(docPkg) {
				if len(fn.Blocks) == 0 {
					continue
				}
				loops := prog.Loops(fn)
				for i, c := range callsToIn(fn, exec) {
					var loop *prog.Loop
					for _, l := range loops {
						if l.Body[c.Block()] && (loop == nil || len(l.Body) < len(loop.Body)) {
							loop = l
						}
					}
					if loop == nil {
						continue
					}
					syncs := syncStores(fn, "SyncLamport", "SyncClocks")
					if len(syncs) == 0 {
						continue // a function that replays without a clock of its own (the editing copy follows the document's)
					}
					n++
					cut := map[prog.Edge]bool{}
					same := false
					for _, s := range syncs {
						if s.Block() == c.Block() && prog.InstrIndex(s) > prog.InstrIndex(c) {
							same = true
						}
						for _, sc := range s.Block().Succs {
							cut[prog.Edge{From: s.Block(), To: sc}] = true
						}
					}
					ok := same
					if !ok {
						reach := prog.ReachableFrom(c.Block(), cut)
						// leaving the body, or coming round to the header, without a merge
						ok = !reach[loop.Header]
						if ok {
							for b := range reach {
								if !loop.Body[b] {
									// an exit from the loop: fine only if it is an error return path
									if r, isR := b.Instrs[len(b.Instrs)-1].(*ssa.Return); isR && prog.ReturnsNilError(r) {
										ok = false
									}
								}
							}
						}
					}
					x.check(ok, fmt.Sprintf("func=%s Execute#%d clock-merged-before-the-next-change", prog.FnName(fn), i+1), x.pos(c),
						"every applied change is merged into the clock",
						"a change can be executed without its ID being merged into the document's clock (a continue or an early exit between Execute and SyncLamport/SyncClocks): the replica has applied the change but its next own change carries a lamport that is not newer and a vector without the author — peers treat it as concurrent with something it had seen")
				}
			}
			if fn := x.fn(docPkg + ".(*InternalDocument).applySnapshot"); fn != nil {
				sets := syncStores(fn, "SetClocks")
				for i, r := range prog.Returns(fn) {
					if !prog.ReturnsNilError(r) {
						continue
					}
					n++
					x.check(len(sets) > 0 && passesThrough(r, sets), fmt.Sprintf("func=%s ok-return#%d snapshot-vector-merged", prog.FnName(fn), i+1), x.pos(r),
						"the snapshot's vector is merged on every successful exit",
						"applySnapshot can succeed without storing ID.SetClocks(…) into the document's clock (the merge is conditional): a receiver whose own lamport is ahead keeps a vector without the authors it has just received through the snapshot, and its next deletion of their text is dropped on every replica")
				}
			}
			if n < 2 {
				x.C.Vacuous(x.id()+" merge sites", n, 2)
			}
		}})
}

func init() {
	register(&Rule{ID: "REG.all", Min: 2, Text: "every element is findable by its identity, removed ones included: in crdt.Root.RegisterElement (used by NewRoot when a snapshot is decoded or a root is deep-copied, and when a container is inserted) every store into Root.elementMap — of the element itself and, in the walk over its descendants, of every descendant — is unconditional with respect to the element (no test of its removal or anything else about it decides the store). A replica fed by changes keeps the tombstoned container registered until GC; a snapshot-fed one that skipped it cannot apply a concurrent edit of that container (ErrNotApplicableDataType) — neither can the server's cached rebuild",
		Run: func(x *Ctx) {
			fn := x.fn(crdtPkg + ".(*Root).RegisterElement")
			mapF := x.P.Field(crdtPkg + ".Root.elementMap")
			if fn == nil || mapF == nil {
				if mapF == nil {
					x.C.Unresolved(x.id(), crdtPkg+".Root.elementMap")
				}
				return
			}
			n := 0
			for _, g := range append([]*ssa.Function{fn}, prog.Closures(fn)...) {
				for i, mu := range mapUpdatesOf(g, mapF) {
					n++
					bad := ""
					for _, iff := range x.P.ControlDeps(mu.Block()) {
						aboutElem := prog.DependsOn(iff.Cond, func(w ssa.Value) bool {
							if pm, ok := w.(*ssa.Parameter); ok {
								// the receiver of RegisterElement is the root, not the element
								return !(g == fn && pm == fn.Params[0])
							}
							return false
						})
						if aboutElem {
							bad = x.pos(iff)
						}
					}
					x.check(bad == "", fmt.Sprintf("func=%s elementMap-store#%d unconditional", prog.FnName(g), i+1), x.pos(mu),
						"the element is registered whatever its state",
						"the registration of an element depends on a test about the element (at "+bad+"): elements failing it — removed descendants of a decoded snapshot — cannot be resolved by identity, so a later change that edits a concurrently removed container fails on the snapshot-fed replica (and on the server's cached rebuild) while change-fed replicas apply it to the tombstone")
				}
			}
			if n < 2 {
				x.C.Vacuous(x.id()+" elementMap stores", n, 2)
			}
		}})
}

func init() {
	register(&Rule{ID: "LINK.sym", Min: 3, Text: "unlinking from a doubly linked chain rewires both neighbours: in the CRDT model, a function that detaches a node from a chain kept by a pair of pointer fields of its own type (prev/next, insPrev/insNext — it stores nil into both fields of the node) also stores into the forward field of the node's predecessor and into the backward field of its successor. With only one side rewired a purged node stays referenced: the piece behind a purged text run still names it as its insPrev, and the next deep copy or snapshot of the text fails (\"insPrevNode should be presence\")",
		Run: func(x *Ctx) {
			x.mutators() // sets localRoot
			n := 0
			for _, fn := range x.P.FuncsIn(crdtPkg) {
				if len(fn.Blocks) == 0 || (fn.Origin() != nil && fn.Origin() != fn) {
					continue
				}
				// nil stores per (base value, field)
				type key struct {
					base ssa.Value
					f    string
				}
				nils := map[key]*ssa.Store{}
				var all []*ssa.Store
				for _, b := range fn.Blocks {
					for _, ins := range b.Instrs {
						st, ok := ins.(*ssa.Store)
						if !ok {
							continue
						}
						fa, isFA := st.Addr.(*ssa.FieldAddr)
						if !isFA {
							continue
						}
						f := prog.FieldVar(fa)
						if f == nil {
							continue
						}
						// a pointer field to the struct's own type
						pt, isP := f.Type().(*types.Pointer)
						if !isP || namedOf(pt.Elem()) == nil || namedOf(fa.X.Type()) == nil || namedOf(pt.Elem()).Obj() != namedOf(fa.X.Type()).Obj() {
							continue
						}
						all = append(all, st)
						if prog.IsNilConst(st.Val) {
							nils[key{prog.Strip(fa.X), f.Name()}] = st
						}
					}
				}
				pairs := [][2]string{{"prev", "next"}, {"insPrev", "insNext"}}
				for _, pr := range pairs {
					for k, st := range nils {
						if k.f != pr[0] {
							continue
						}
						if _, both := nils[key{k.base, pr[1]}]; !both {
							continue
						}
						if localRoot != nil && localRoot(k.base) {
							continue // a constructor initialising a fresh node
						}
						// the node k.base is detached from the (pr[0], pr[1]) chain here
						rewired := func(via, field string) bool {
							for _, s2 := range all {
								fa := s2.Addr.(*ssa.FieldAddr)
								if prog.FieldVar(fa).Name() != field || prog.IsNilConst(s2.Val) {
									continue
								}
								// the base is the node's neighbour: loaded from node.<via>
								if lf := prog.LoadedField(fa.X); lf != nil && lf.Name() == via && sameAccessPath(prog.FieldBase(fa.X), k.base) {
									return true
								}
							}
							return false
						}
						n++
						kk := fmt.Sprintf("func=%s chain=%s/%s", prog.FnName(fn), pr[0], pr[1])
						x.check(rewired(pr[0], pr[1]), kk+" predecessor-rewired", x.pos(st), "node."+pr[0]+"."+pr[1]+" is rewired", "the node is detached but its predecessor's "+pr[1]+" link is not rewired: the predecessor keeps pointing at the detached node")
						n++
						x.check(rewired(pr[1], pr[0]), kk+" successor-rewired", x.pos(st), "node."+pr[1]+"."+pr[0]+" is rewired", "the node is detached but its successor's "+pr[0]+" link is not rewired: the piece behind a purged node still names it — the next deep copy or snapshot of the structure fails, on the server for every later rebuild")
					}
				}
			}
			if n < 3 {
				x.C.Vacuous(x.id()+" unlink sites", n, 3)
			}
		}})

	register(&Rule{ID: "IDX.flag", Min: 3, Text: "the include-removed flag decides every removal test: in pkg/index, in a function that has the flag (a bool derived from its variadic includeRemoved parameter), every branch on a node's removal (IsRemoved) is taken together with the flag — the removal test is control-dependent on a test of the flag, or its condition combines both. A removal skip that ignores the flag makes the tombstone-including pass (TotalLength, the bounds of range edits on a snapshot-loaded tree) leave tombstones out",
		Run: func(x *Ctx) {
			n := 0
			for _, fn := range x.P.FuncsIn("pkg/index") {
				if len(fn.Blocks) == 0 || (fn.Origin() != nil && fn.Origin() != fn) {
					continue
				}
				// the flag: a bool loaded from the variadic bool slice parameter
				var vparam *ssa.Parameter
				if fn.Signature.Variadic() && len(fn.Params) > 0 {
					last := fn.Params[len(fn.Params)-1]
					if sl, ok := last.Type().(*types.Slice); ok && isBoolType(sl.Elem()) {
						vparam = last
					}
				}
				if vparam == nil {
					continue
				}
				isFlag := func(v ssa.Value) bool {
					return prog.DependsOn(v, func(w ssa.Value) bool { return w == ssa.Value(vparam) })
				}
				i := 0
				for _, b := range fn.Blocks {
					iff := prog.IfOf(b)
					if iff == nil || !mentionsRemoval(iff.Cond) {
						continue
					}
					i++
					n++
					ok := isFlag(iff.Cond)
					for _, dep := range x.P.ControlDeps(b) {
						if isFlag(dep.Cond) {
							ok = true
						}
					}
					x.check(ok, fmt.Sprintf("func=%s removal-test#%d decided-with-the-flag", prog.FnName(fn), i), x.pos(iff),
						"the removal test is combined with the include-removed flag",
						"a removal test in a function that has the include-removed flag does not consult the flag: in the tombstone-including mode removed nodes are skipped as well — after decoding a snapshot TotalLength leaves the tombstones out, and range edits behind a tombstone use wrong bounds (append fails with 'from is out of range', a delete merges the next paragraph)")
				}
			}
			if n < 3 {
				x.C.Vacuous(x.id()+" removal tests in flagged functions", n, 3)
			}
		}})

	register(&Rule{ID: "ATTR.own", Min: 3, Text: "an attribute table belongs to one node: in the CRDT model a value of type *RHT that is installed in a node — stored into a field of type *RHT, or handed to a New… constructor — is not read out of another node's field (it is nil, freshly made, or a DeepCopy). Two halves of a split element that share one table change style together: a style addressed to one half shows on both",
		Run: func(x *Ctx) {
			rhtT := x.P.Named(crdtPkg + ".RHT")
			if rhtT == nil {
				x.C.Unresolved(x.id(), crdtPkg+".RHT")
				return
			}
			isRHTPtr := func(t types.Type) bool {
				p, ok := t.(*types.Pointer)
				return ok && isNamed(p.Elem(), rhtT)
			}
			n := 0
			for _, fn := range x.P.FuncsIn(crdtPkg) {
				if len(fn.Blocks) == 0 || (fn.Origin() != nil && fn.Origin() != fn) {
					continue
				}
				type site struct {
					v    ssa.Value
					at   ssa.Instruction
					what string
					self ssa.Value // the object the value is installed in (a store), if known
				}
				var sites []site
				for _, b := range fn.Blocks {
					for _, ins := range b.Instrs {
						switch t := ins.(type) {
						case *ssa.Store:
							if fa, ok := t.Addr.(*ssa.FieldAddr); ok && isRHTPtr(t.Val.Type()) && prog.FieldVar(fa) != nil {
								sites = append(sites, site{t.Val, t, "store into " + prog.FieldVar(fa).Name(), fa.X})
							}
						case *ssa.Call:
							o := prog.CallObj(t)
							if o == nil || !(strings.HasPrefix(o.Name(), "New") || strings.HasPrefix(o.Name(), "new")) {
								continue
							}
							for _, a := range t.Call.Args {
								if isRHTPtr(a.Type()) {
									sites = append(sites, site{a, t, "argument of " + o.Name(), nil})
								}
							}
						}
					}
				}
				for i, s := range sites {
					n++
					from := ""
					prog.Reaches(s.v, func(w ssa.Value) bool {
						if lf := prog.LoadedField(w); lf != nil && isRHTPtr(lf.Type()) {
							if s.self != nil && sameAccessPath(prog.FieldBase(w), s.self) {
								return false // the node's own table
							}
							from = lf.Name()
							return true
						}
						return false
					})
					x.check(from == "", fmt.Sprintf("func=%s table#%d(%s) not-taken-from-another-node", prog.FnName(fn), i+1, s.what), x.pos(s.at),
						"the table is nil, fresh or a copy",
						"the attribute table installed here is the one read from another node's field "+from+" (no DeepCopy in between): both nodes share it — after an element split, Style or RemoveStyle addressed to one half changes both")
				}
			}
			if n < 3 {
				x.C.Vacuous(x.id()+" table installations", n, 3)
			}
		}})
}

func init() {
	register(&Rule{ID: "POS.zero", Min: 1, Text: "a local position never names a text node with nothing consumed: in crdt.Tree.FindPos, on the branch where the node the index tree answered with is a text node, that node itself is taken as the left sibling only where the local offset is known to be non-zero (the read of the node's value is reachable only over the offset != 0 edge). Offset 0 of a text node means \"in front of it\"; encoded as (text node, +0) the resolver reads it as \"behind the whole node\", and an insert at the index in front of a text that follows an element lands behind the text",
		Run: func(x *Ctx) {
			fn := x.fn(crdtPkg + ".(*Tree).FindPos")
			if fn == nil {
				return
			}
			var node, off ssa.Value
			for _, b := range fn.Blocks {
				for _, ins := range b.Instrs {
					u, ok := ins.(*ssa.UnOp)
					if !ok || u.Op != token.MUL {
						continue
					}
					fa, isFA := u.X.(*ssa.FieldAddr)
					if !isFA || namedOf(fa.X.Type()) == nil || namedOf(fa.X.Type()).Obj().Name() != "TreePos" {
						continue
					}
					if f := prog.FieldVar(fa); f != nil {
						switch f.Name() {
						case "Node":
							if node == nil {
								node = u
							}
						case "Offset":
							if off == nil {
								off = u
							}
						}
					}
				}
			}
			if node == nil || off == nil {
				x.fail("func="+prog.FnName(fn)+" shape", x.fpos(fn), "FindPos no longer reads Node and Offset of the index tree's answer")
				return
			}
			// the text branch
			var textSucc *ssa.BasicBlock
			for _, b := range fn.Blocks {
				iff := prog.IfOf(b)
				if iff == nil {
					continue
				}
				if c, ok := iff.Cond.(*ssa.Call); ok && prog.CallObj(c) != nil && prog.CallObj(c).Name() == "IsText" && recvOf(c) == node {
					textSucc = b.Succs[0]
				}
			}
			if textSucc == nil {
				x.fail("func="+prog.FnName(fn)+" shape", x.fpos(fn), "FindPos no longer branches on IsText of the answered node")
				return
			}
			nonZero := []Cmp{{L: vpValue(off), R: vpConst(0), Want: NE}}
			n := 0
			for _, b := range fn.Blocks {
				if !(b == textSucc || textSucc.Dominates(b)) {
					continue
				}
				for _, ins := range b.Instrs {
					u, ok := ins.(*ssa.UnOp)
					if !ok || u.Op != token.MUL {
						continue
					}
					fa, isFA := u.X.(*ssa.FieldAddr)
					if !isFA || fa.X != node || prog.FieldVar(fa) == nil || prog.FieldVar(fa).Name() != "Value" {
						continue
					}
					n++
					x.check(x.quietGuarded(u, nonZero), fmt.Sprintf("func=%s text-node-as-left-sibling#%d only-with-nonzero-offset", prog.FnName(fn), n), x.pos(u),
						"the text node is its own left sibling only when something of it is consumed",
						"the text node itself becomes the left sibling on a path where the local offset can be 0: the position in front of a text node that is not the first child is encoded as (text, +0), which the resolver reads as behind the whole node — Edit(3,3,X) on <p><b></b>cd</p> gives <p><b></b>cdX</p>")
				}
			}
			if n < 1 {
				x.C.Vacuous(x.id()+" text-node-as-left-sibling sites", n, 1)
			}
		}})
}

// classify: a field read is request-derived when the struct is a wire message or the field is the
// Checkpoint of a change pack.
func classify(fld ssa.Value, base types.Type, why *string) {
	f := prog.FieldVar(fld)
	nt := namedOf(base)
	if f == nil || nt == nil || nt.Obj().Pkg() == nil {
		return
	}
	if strings.HasSuffix(nt.Obj().Pkg().Path(), "/"+apiPkg) {
		*why = "the request field " + nt.Obj().Name() + "." + f.Name()
		return
	}
	if nt.Obj().Name() == "Checkpoint" && strings.HasSuffix(nt.Obj().Pkg().Path(), "/"+changePkg) {
		// a Checkpoint value: where does it come from? the request pack's is client-chosen
		if fa, ok := fld.(*ssa.FieldAddr); ok {
			if pf := prog.LoadedField(fa.X); pf != nil && pf.Name() == "Checkpoint" {
				if bn := namedOf(prog.FieldBase(fa.X).Type()); bn != nil && bn.Obj().Name() == "Pack" {
					*why = "the request pack's Checkpoint"
				}
			}
			if inner, ok := fa.X.(*ssa.FieldAddr); ok {
				if pf := prog.FieldVar(inner); pf != nil && pf.Name() == "Checkpoint" {
					if bn := namedOf(inner.X.Type()); bn != nil && bn.Obj().Name() == "Pack" {
						*why = "the request pack's Checkpoint"
					}
				}
			}
		}
	}
}

func init() {
	register(&Rule{ID: "O2.cache.seq", Min: 4, Text: "only server-chosen versions are collected and cached: a rebuild that garbage-collects with the current minimum version vector and stores its result in the snapshot cache (every call that reaches Cache.Snapshot.Add — calls that pass the constant true for a bool parameter under whose false edge alone the Add sits are not such calls) is made for a ServerSeq that is computed from server state (a DocInfo row, the head before the push), never from a request: walking back from the argument through arithmetic, parameters and the callers' arguments, no field of a wire message (package api/yorkie/v1) and no Checkpoint of a request pack is reached. The minimum vector says what clients know now; an old version collected with it has lost tombstones that the changes behind it still anchor on, and from the cache it makes every later rebuild fail",
		Run: func(x *Ctx) {
			// the functions of package packs that add to the snapshot cache
			snapF := x.P.Field("server/backend/cache.Manager.Snapshot")
			if snapF == nil {
				// resolve by name: a field named Snapshot of the backend's cache manager
				for _, cand := range []string{"server/backend.Cache.Snapshot", "server/backend/cache.Cache.Snapshot", "pkg/cache.Manager.Snapshot"} {
					if f := x.P.Field(cand); f != nil {
						snapF = f
					}
				}
			}
			type addSite struct {
				fn *ssa.Function
				at ssa.CallInstruction
			}
			var adds []addSite
			for _, fn := range x.P.FuncsIn("server/packs") {
				for _, c := range prog.CallsIn(fn) {
					o := prog.CallObj(c)
					if o == nil || o.Name() != "Add" {
						continue
					}
					r := recvOf(c)
					if r == nil {
						continue
					}
					if f := prog.LoadedField(r); f != nil && f.Name() == "Snapshot" {
						adds = append(adds, addSite{fn, c})
					}
				}
			}
			if len(adds) == 0 {
				x.C.Unresolved(x.id(), "a call of Cache.Snapshot.Add in server/packs")
				return
			}
			int64Param := func(fn *ssa.Function) []int {
				var out []int
				for i, pm := range fn.Params {
					if b, ok := pm.Type().Underlying().(*types.Basic); ok && b.Kind() == types.Int64 {
						out = append(out, i)
					}
				}
				return out
			}
			// request-derived?
			var tainted func(v ssa.Value, fn *ssa.Function, depth int, seen map[ssa.Value]bool) string
			tainted = func(v ssa.Value, fn *ssa.Function, depth int, seen map[ssa.Value]bool) string {
				why := ""
				var params []*ssa.Parameter
				// the number's own data flow: arithmetic, phis, conversions, locals, field reads — not the
				// arguments of the calls that produced the structures it is read from
				var walk func(w ssa.Value, d int)
				walk = func(w ssa.Value, d int) {
					if w == nil || seen[w] || d > 30 || why != "" {
						return
					}
					seen[w] = true
					switch t := w.(type) {
					case *ssa.Parameter:
						params = append(params, t)
					case *ssa.BinOp:
						walk(t.X, d+1)
						walk(t.Y, d+1)
					case *ssa.Phi:
						for _, e := range t.Edges {
							walk(e, d+1)
						}
					case *ssa.Convert:
						walk(t.X, d+1)
					case *ssa.ChangeType:
						walk(t.X, d+1)
					case *ssa.Field:
						classify(t, t.X.Type(), &why)
					case *ssa.UnOp:
						switch ad := t.X.(type) {
						case *ssa.FieldAddr:
							classify(ad, ad.X.Type(), &why)
						case *ssa.Alloc:
							for _, r := range *ad.Referrers() {
								if st, ok := r.(*ssa.Store); ok && st.Addr == ssa.Value(ad) {
									walk(st.Val, d+1)
								}
							}
						}
					case *ssa.Extract:
						if c, ok := t.Tuple.(*ssa.Call); ok {
							if callee := c.Call.StaticCallee(); callee != nil && len(callee.Blocks) > 0 && x.P.InModule(callee) {
								for _, r := range prog.Returns(callee) {
									if t.Index < len(r.Results) {
										walk(prog.ReturnValue(r, t.Index), d+1)
									}
								}
							}
						}
					case *ssa.Call:
						if callee := t.Call.StaticCallee(); callee != nil && len(callee.Blocks) > 0 && x.P.InModule(callee) {
							for _, r := range prog.Returns(callee) {
								if len(r.Results) > 0 {
									walk(prog.ReturnValue(r, 0), d+1)
								}
							}
						}
					}
				}
				walk(v, 0)
				if why != "" || depth >= 4 {
					return why
				}
				for _, pm := range params {
					owner := pm.Parent()
					idx := -1
					for i, p := range owner.Params {
						if p == pm {
							idx = i
						}
					}
					fo, _ := owner.Object().(*types.Func)
					if fo == nil || idx < 0 {
						continue
					}
					if b, ok := pm.Type().Underlying().(*types.Basic); !ok || b.Info()&types.IsInteger == 0 {
						continue // only the number itself is followed upwards
					}
					for _, c := range x.directCallers(fo) {
						if c.Parent().Pkg == nil || !prog.IsProd(c.Parent().Pkg.Pkg.Path()) || c.Common().IsInvoke() || idx >= len(c.Common().Args) {
							continue
						}
						if w := tainted(c.Common().Args[idx], c.Parent(), depth+1, seen); w != "" {
							return w + " <- " + prog.FnName(c.Parent())
						}
					}
				}
				return ""
			}
			n := 0
			done := map[*ssa.Function]bool{}
			for _, a := range adds {
				if done[a.fn] {
					continue
				}
				done[a.fn] = true
				// a bool parameter whose false edge alone reaches the Add
				gate := -1
				for i, pm := range a.fn.Params {
					if isBoolType(pm.Type()) && x.quietGuarded(a.at, []Cmp{isFalse(vpParam(a.fn, i))}) {
						gate = i
					}
				}
				fo, _ := a.fn.Object().(*types.Func)
				if fo == nil {
					continue
				}
				// the caching call sites: of the function itself, or — when it is called by thin wrappers that pass the gate as a constant — of the wrappers
				type site struct {
					c   ssa.CallInstruction
					arg ssa.Value
				}
				var sites []site
				var collect func(f *ssa.Function, fobj *types.Func, gateIdx int, depth int)
				collect = func(f *ssa.Function, fobj *types.Func, gateIdx int, depth int) {
					for _, c := range x.directCallers(fobj) {
						if c.Parent().Pkg == nil || !prog.IsProd(c.Parent().Pkg.Pkg.Path()) || c.Common().IsInvoke() {
							continue
						}
						args := c.Common().Args
						if gateIdx >= 0 && gateIdx < len(args) && vpTrue.match(args[gateIdx]) {
							continue // not a caching build
						}
						for _, i := range int64Param(f) {
							if i < len(args) {
								// forwarded parameter of a wrapper?
								if pm, isP := args[i].(*ssa.Parameter); isP && depth < 2 && pm.Parent() == c.Parent() {
									if wo, _ := c.Parent().Object().(*types.Func); wo != nil && prog.PkgOf(c.Parent()) == prog.PkgOf(f) {
										collect(c.Parent(), wo, -1, depth+1)
										continue
									}
								}
								sites = append(sites, site{c, args[i]})
							}
						}
					}
				}
				collect(a.fn, fo, gate, 0)
				cnt := map[string]int{}
				for _, s := range sites {
					n++
					cnt[prog.FnName(s.c.Parent())]++
					why := tainted(s.arg, s.c.Parent(), 0, map[ssa.Value]bool{})
					x.check(why == "", fmt.Sprintf("caller=%s caching-rebuild#%d serverSeq-is-server-chosen", prog.FnName(s.c.Parent()), cnt[prog.FnName(s.c.Parent())]), x.pos(s.c),
						"the version that is collected and cached is computed from server state",
						"a rebuild that collects garbage with the current minimum vector and caches its result is made for a ServerSeq taken from "+why+": for an old version the vector purges tombstones the later changes still anchor on, and every later rebuild — snapshot pulls, stored snapshots, compaction — starts from the cached document and fails with 'child not found'")
				}
			}
			if n < 4 {
				x.C.Vacuous(x.id()+" caching rebuilds", n, 4)
			}
		}})
}

func init() {
	register(&Rule{ID: "GC.resp", Min: 1, Text: "a client is told what to collect only together with what it must apply first: in package packs, the store of the minimum version vector (the result of Database.UpdateMinVersionVector) into ServerPack.VersionVector is unreachable on the edge where the request's mode is push-only (it is guarded by a comparison of PushPullOptions.Mode with SyncModePushOnly that excludes it). The client applies the changes of a response before it collects with the response's vector; a push-only response has no changes, and a change the client has not pulled yet may anchor on a tombstone the vector already covers",
		Run: func(x *Ctx) {
			vvF := x.P.Field("server/packs.ServerPack.VersionVector")
			modeF := x.P.Field("server/packs.PushPullOptions.Mode")
			upd := x.P.IfaceMethod(dbPkg + ".Database.UpdateMinVersionVector")
			pushOnly, okC := x.constInt("api/types.SyncModePushOnly")
			if vvF == nil || modeF == nil || upd == nil || !okC {
				x.C.Unresolved(x.id(), "ServerPack.VersionVector / PushPullOptions.Mode / Database.UpdateMinVersionVector / types.SyncModePushOnly")
				return
			}
			notPushOnly := []Cmp{{L: vpField(modeF), R: vpConst(pushOnly), Want: NE}}
			n := 0
			for _, fn := range x.P.FuncsIn("server/packs") {
				for i, st := range storesTo(fn, vvF) {
					fromMin := prog.Reaches(st.Val, func(w ssa.Value) bool {
						ex, ok := w.(*ssa.Extract)
						if !ok {
							return false
						}
						c, isC := ex.Tuple.(*ssa.Call)
						return isC && sameFunc(prog.CallObj(c), upd)
					})
					if !fromMin {
						continue
					}
					n++
					x.guardedSite(fmt.Sprintf("func=%s min-vector-store#%d not-for-push-only", prog.FnName(fn), i+1), st, notPushOnly, nil)
				}
			}
			if n < 1 {
				x.C.Vacuous(x.id()+" stores of the minimum vector into a response", n, 1)
			}
		}})
}

func init() {
	register(&Rule{ID: "GC.stamp", Min: 4, Text: "what is born dead carries the ticket of what killed it: in the CRDT model, where an operation makes a tombstone of something it has just created or inserted itself — the position slot a losing array move still creates, tree content arriving under a parent that a concurrent edit removed — the removal stamp (a store into removedAt, or remove/SetRemovedAt) is not the operation's own ticket. Stamped with its own ticket the node is collectible as soon as everybody has seen the operation, while its author — who has not yet seen what killed it — still sees it alive and anchors the next edit on it; that edit then fails on every replica that collected the node. A stamp with the operation's ticket on something that existed before is the ordinary removal",
		Run: func(x *Ctx) {
			n := 0
			isStampCall := func(c ssa.CallInstruction) bool {
				o := prog.CallObj(c)
				return o != nil && (o.Name() == "remove" || o.Name() == "SetRemovedAt" || o.Name() == "Remove") && len(c.Common().Args) >= 2
			}
			for _, fn := range x.P.FuncsIn(crdtPkg) {
				if len(fn.Blocks) == 0 || (fn.Origin() != nil && fn.Origin() != fn) {
					continue
				}
				// the tickets of the operation being executed: ticket parameters of the function, or — in a closure — of its parent
				host := fn
				for host.Parent() != nil {
					host = host.Parent()
				}
				tps := ticketParams(host)
				if len(tps) == 0 {
					continue
				}
				isOwnTicket := func(v ssa.Value) *ssa.Parameter {
					for _, tp := range tps {
						if prog.Reaches(v, func(w ssa.Value) bool { return w == ssa.Value(tp) }) {
							return tp
						}
					}
					return nil
				}
				type stamp struct {
					at   ssa.Instruction
					node ssa.Value
					tk   *ssa.Parameter
				}
				var stamps []stamp
				for _, b := range fn.Blocks {
					for _, ins := range b.Instrs {
						switch t := ins.(type) {
						case *ssa.Store:
							fa, ok := t.Addr.(*ssa.FieldAddr)
							if !ok || prog.FieldVar(fa) == nil || prog.FieldVar(fa).Name() != "removedAt" {
								continue
							}
							if tp := isOwnTicket(t.Val); tp != nil {
								stamps = append(stamps, stamp{t, fa.X, tp})
							}
						case *ssa.Call:
							if isStampCall(t) {
								if tp := isOwnTicket(t.Call.Args[1]); tp != nil {
									stamps = append(stamps, stamp{t, t.Call.Args[0], tp})
								}
							}
						}
					}
				}
				for i, s := range stamps {
					n++
					why := ""
					// (a) the node is the result of a call of this function that was given the same ticket: created by this operation
					prog.Reaches(s.node, func(w ssa.Value) bool {
						if ex, ok := w.(*ssa.Extract); ok {
							w = ex.Tuple
						}
						c, ok := w.(*ssa.Call)
						if !ok {
							return false
						}
						for _, a := range c.Call.Args {
							if prog.Reaches(a, func(u ssa.Value) bool { return u == ssa.Value(s.tk) }) {
								why = "the node returned by " + c.Call.Value.Name() + ", which was created with this very ticket"
								return true
							}
						}
						return false
					})
					// (b) inside a callback: the node comes from the callback's parameter, and the traversal it is handed to
					// walks something this operation inserts (an argument of an Insert… call of the parent)
					if why == "" && fn.Parent() != nil {
						fromParam := prog.DependsOn(s.node, func(w ssa.Value) bool {
							pm, ok := w.(*ssa.Parameter)
							return ok && pm.Parent() == fn
						})
						if fromParam {
							p := fn.Parent()
							for _, c := range prog.CallsIn(p) {
								passed := false
								for _, cl := range closureArgs(c) {
									if cl == fn {
										passed = true
									}
								}
								if !passed {
									continue
								}
								for _, a := range c.Common().Args {
									for _, ic := range prog.CallsIn(p) {
										o := prog.CallObj(ic)
										if o == nil || !strings.HasPrefix(o.Name(), "Insert") {
											continue
										}
										for j, ia := range ic.Common().Args {
											if j == 0 {
												continue // the receiver is where it is inserted
											}
											if _, isPtr := ia.Type().(*types.Pointer); !isPtr {
												continue
											}
											if prog.DependsOn(a, func(w ssa.Value) bool { return w == ia || sameAccessPath(w, ia) }) {
												why = "what this operation inserts with " + o.Name() + " at " + x.pos(ic)
											}
										}
									}
								}
							}
						}
					}
					x.check(why == "", fmt.Sprintf("func=%s stamp#%d not-own-ticket-on-own-creation", prog.FnName(fn), i+1), x.pos(s.at),
						"the operation's ticket stamps something that existed before the operation",
						"the operation stamps "+why+" as removed with its own ticket ("+s.tk.Name()+"): the node is born dead because of something else (the move that beat this one, the removal of the parent) and must carry that ticket — with its own it is collected as soon as everybody has seen the operation, while its author still anchors on it")
				}
			}
			if n < 4 {
				x.C.Vacuous(x.id()+" removal stamps with the operation's ticket", n, 4)
			}
		}})
}
