package rules

import (
	"fmt"
	"go/types"
	"strings"

	"yv/internal/prog"

	"golang.org/x/tools/go/ssa"
)

const dbPkg = "server/backend/database"

// successReturns lists the returns of fn whose error result is nil.
func successReturns(fn *ssa.Function) []*ssa.Return {
	var out []*ssa.Return
	for _, r := range prog.Returns(fn) {
		if prog.ReturnsNilError(r) {
			out = append(out, r)
		}
	}
	return out
}

func init() {
	register(&Rule{ID: "O2.state", Min: 12, Text: "ClientInfo state machine: the Ensure* predicates return nil only on edges where the client status is activated and the document status is attached (or attaching, for the -OrAttaching form) and the document entry exists; DetachDocument/RemoveDocument write the new status only after EnsureDocumentAttachedOrAttaching succeeded; AttachDocument writes only for an activated client whose document is not already attached/detached; UpdateCheckpoint writes only for an existing entry; UpdateDocStatus dispatches Removed→RemoveDocument, Detached→DetachDocument; IsAttached is true only for status attached",
		Run: func(x *Ctx) {
			activated, ok1 := x.constStr(dbPkg + ".ClientActivated")
			attached, ok2 := x.constStr(dbPkg + ".DocumentAttached")
			attaching, ok3 := x.constStr(dbPkg + ".DocumentAttaching")
			detached, ok4 := x.constStr(dbPkg + ".DocumentDetached")
			removed, ok5 := x.constStr(dbPkg + ".DocumentRemoved")
			cliStatus := x.P.Field(dbPkg + ".ClientInfo.Status")
			docStatus := x.P.Field(dbPkg + ".ClientDocInfo.Status")
			documents := x.P.Field(dbPkg + ".ClientInfo.Documents")
			if !(ok1 && ok2 && ok3 && ok4 && ok5) || cliStatus == nil || docStatus == nil || documents == nil {
				x.C.Unresolved(x.id(), "ClientInfo status constants/fields")
				return
			}
			hasDoc := x.P.FnObj(dbPkg + ".(*ClientInfo).hasDocument")
			cliActivated := Cmp{L: vpField(cliStatus), R: vpStr(activated), Want: EQ}
			docAttached := Cmp{L: vpField(docStatus), R: vpStr(attached), Want: EQ}
			docAttaching := Cmp{L: vpField(docStatus), R: vpStr(attaching), Want: EQ}
			// "entry exists": hasDocument() true, or a nil test of the map entry
			entry := VP{"Documents[docID]", func(v ssa.Value) bool {
				l, ok := prog.Strip(v).(*ssa.Lookup)
				return ok && prog.LoadedField(l.X) == documents
			}}
			exists := []Cmp{{L: entry, R: VP{"nil", prog.IsNilConst}, Want: NE}}
			if hasDoc != nil {
				exists = append(exists, isTrue(vpCall(hasDoc)))
			}

			ensure := func(name string, docCmps []Cmp) *types.Func {
				fn := x.fn(dbPkg + ".(*ClientInfo)." + name)
				if fn == nil {
					return nil
				}
				for i, r := range successReturns(fn) {
					k := fmt.Sprintf("func=%s ok-return#%d", prog.FnName(fn), i+1)
					x.guardedSite(k+" client-activated", r, []Cmp{cliActivated}, nil)
					if docCmps != nil {
						x.guardedSite(k+" doc-status", r, docCmps, nil)
						x.guardedSite(k+" entry-exists", r, exists, nil)
					}
				}
				if len(successReturns(fn)) == 0 {
					x.fail("func="+prog.FnName(fn)+" ok-return", x.fpos(fn), "the predicate never succeeds")
				}
				return fn.Object().(*types.Func)
			}
			ensure("EnsureActivated", nil)
			ensure("EnsureDocumentAttached", []Cmp{docAttached})
			ensAoA := ensure("EnsureDocumentAttachedOrAttaching", []Cmp{docAttached, docAttaching})

			// Detach / Remove: status stores guarded by the ensure call
			for _, spec := range []struct{ name, status string }{{"DetachDocument", detached}, {"RemoveDocument", removed}} {
				fn := x.fn(dbPkg + ".(*ClientInfo)." + spec.name)
				if fn == nil {
					continue
				}
				sts := storesTo(fn, docStatus)
				if len(sts) == 0 {
					x.fail("func="+prog.FnName(fn)+" status-write", x.fpos(fn), "the method no longer writes the document status")
				}
				for i, st := range sts {
					k := fmt.Sprintf("func=%s status-write#%d", prog.FnName(fn), i+1)
					x.check(vpStr(spec.status).match(st.Val), k+" value", x.pos(st), "writes "+spec.status, "writes a status other than "+spec.status)
					var ens *ssa.Call
					for _, c := range prog.CallsIn(fn) {
						if cc, ok := c.(*ssa.Call); ok && ensAoA != nil && sameFunc(prog.CallObj(cc), ensAoA) {
							ens = cc
						}
					}
					if ens == nil {
						x.fail(k+" guarded-by-ensure", x.pos(st), "no EnsureDocumentAttachedOrAttaching before the status write")
					} else {
						x.guardedSite(k+" guarded-by-ensure", st, []Cmp{errNilCmp(ens)}, nil)
					}
				}
			}
			// AttachDocument: the map write is guarded by client activated and not-already-attached
			if fn := x.fn(dbPkg + ".(*ClientInfo).AttachDocument"); fn != nil {
				isAlreadyDetached := x.P.FnObj(dbPkg + ".(*ClientInfo).IsAlreadyDetached")
				for i, mu := range mapUpdatesOf(fn, documents) {
					k := fmt.Sprintf("func=%s entry-write#%d", prog.FnName(fn), i+1)
					x.guardedSite(k+" client-activated", mu, []Cmp{cliActivated}, nil)
					nots := []Cmp{{L: vpField(docStatus), R: vpStr(attached), Want: NE}}
					if hasDoc != nil {
						nots = append(nots, isFalse(vpCall(hasDoc)))
					}
					x.guardedSite(k+" not-already-attached", mu, nots, nil)
					if isAlreadyDetached != nil {
						x.guardedSite(k+" not-already-detached", mu, []Cmp{isFalse(vpCall(isAlreadyDetached))}, nil)
					}
				}
				if len(mapUpdatesOf(fn, documents)) == 0 {
					x.fail("func="+prog.FnName(fn)+" entry-write", x.fpos(fn), "AttachDocument no longer records the attachment")
				}
			}
			// UpdateCheckpoint: stores guarded by entry exists
			if fn := x.fn(dbPkg + ".(*ClientInfo).UpdateCheckpoint"); fn != nil {
				for _, fname := range []string{"ServerSeq", "ClientSeq"} {
					f := x.P.Field(dbPkg + ".ClientDocInfo." + fname)
					for i, st := range storesTo(fn, f) {
						x.guardedSite(fmt.Sprintf("func=%s write=%s#%d entry-exists", prog.FnName(fn), fname, i+1), st, exists, nil)
					}
				}
			}
			// IsAttached: the boolean result is a comparison == attached
			if fn := x.fn(dbPkg + ".(*ClientInfo).IsAttached"); fn != nil {
				ok := false
				for _, r := range successReturns(fn) {
					v := prog.ReturnValue(r, 0)
					if rel, found := relOnTrue(v, vpField(docStatus), vpStr(attached), nil); found && rel == EQ {
						ok = true
					}
				}
				x.check(ok, "func="+prog.FnName(fn)+" result=(status==attached)", x.fpos(fn), "true exactly for status attached", "IsAttached is no longer (status == attached): version-vector rows of detached clients would be kept or attached ones dropped")
			}
			// the boolean predicates: true only for exactly the state they name
			for _, pd := range []struct {
				name, status string
				extra        bool // also requires the boolean parameter
			}{{"IsAttaching", attaching, false}, {"IsAlreadyDetached", detached, true}} {
				fn := x.fn(dbPkg + ".(*ClientInfo)." + pd.name)
				if fn == nil {
					continue
				}
				ts := trueSites(fn, 0)
				if len(ts) == 0 {
					x.fail("func="+prog.FnName(fn)+" true-result", x.fpos(fn), "the predicate is never true")
				}
				for i, s := range ts {
					k := fmt.Sprintf("func=%s true#%d", prog.FnName(fn), i+1)
					x.guardedBool(k+" status=="+pd.status, s, []Cmp{{L: vpField(docStatus), R: vpStr(pd.status), Want: EQ}})
					x.guardedBool(k+" entry-exists", s, exists)
					if pd.extra {
						for pi, pm := range fn.Params {
							if isBoolType(pm.Type()) {
								x.guardedBool(k+" flag-set", s, []Cmp{isTrue(vpParam(fn, pi))})
							}
						}
					}
				}
			}
			// UpdateDocStatus dispatch
			if fn := x.fn(dbPkg + ".(*ClientInfo).UpdateDocStatus"); fn != nil {
				stRemoved, okA := x.constInt("pkg/document.StatusRemoved")
				stDetached, okB := x.constInt("pkg/document.StatusDetached")
				if okA && okB {
					var statusParam VP
					for _, pm := range fn.Params {
						if n, ok := types.Unalias(pm.Type()).(*types.Named); ok && n.Obj().Name() == "StatusType" {
							statusParam = vpParam(fn, indexOfParam(fn, pm))
						}
					}
					for _, d := range []struct {
						callee string
						val    int64
					}{{"RemoveDocument", stRemoved}, {"DetachDocument", stDetached}} {
						obj := x.P.FnObj(dbPkg + ".(*ClientInfo)." + d.callee)
						sites := callsToIn(fn, obj)
						if len(sites) == 0 {
							x.fail("func="+prog.FnName(fn)+" dispatch="+d.callee, x.fpos(fn), "UpdateDocStatus no longer calls "+d.callee)
						}
						for _, s := range sites {
							x.guardedSite("func="+prog.FnName(fn)+" dispatch="+d.callee, s, []Cmp{{L: statusParam, R: vpConst(d.val), Want: EQ}}, nil)
						}
						// and the other direction: the status value never reaches UpdateCheckpoint
					}
					upd := x.P.FnObj(dbPkg + ".(*ClientInfo).UpdateCheckpoint")
					for _, s := range callsToIn(fn, upd) {
						x.guardedSite("func="+prog.FnName(fn)+" default-not-removed", s, []Cmp{{L: statusParam, R: vpConst(stRemoved), Want: NE}}, nil)
						x.guardedSite("func="+prog.FnName(fn)+" default-not-detached", s, []Cmp{{L: statusParam, R: vpConst(stDetached), Want: NE}}, nil)
					}
				}
			}
		}})

	register(&Rule{ID: "O3.attach", Min: 8, Text: "edits are accepted only from an activated client that has the document attached: inside PushPull the log append is reachable only through the success edge of ClientInfo.EnsureDocumentAttachedOrAttaching or the edge on which the client is the server's own (IsServerClient); the only producer of an unchecked ClientInfo is database.SystemClientInfo, called only from server/revisions and server/documents; every other ClientInfo passed to PushPull derives from clients.FindActiveClientInfo (whose success edge requires EnsureActivated)",
		Run: func(x *Ctx) {
			p := x.pipe()
			if !p.ok {
				return
			}
			ens := x.P.FnObj(dbPkg + ".(*ClientInfo).EnsureDocumentAttachedOrAttaching")
			ens2 := x.P.FnObj(dbPkg + ".(*ClientInfo).EnsureDocumentAttached")
			isServer := x.P.FnObj(dbPkg + ".(*ClientInfo).IsServerClient")
			if ens == nil || isServer == nil {
				x.C.Unresolved(x.id(), "ClientInfo.EnsureDocumentAttachedOrAttaching / IsServerClient")
				return
			}
			pp := p.PushPull
			var cmps []Cmp
			for _, c := range prog.CallsIn(pp) {
				if cc, ok := c.(*ssa.Call); ok && (sameFunc(prog.CallObj(cc), ens) || sameFunc(prog.CallObj(cc), ens2)) {
					cmps = append(cmps, errNilCmp(cc))
				}
			}
			cmps = append(cmps, isTrue(vpCall(isServer)))
			for _, push := range x.callsReaching(pp, p.CreateCI) {
				if _, isGo := push.(*ssa.Go); isGo {
					continue
				}
				x.guardedSite("func="+prog.FnName(pp)+" attachment-check≺push", push, cmps, nil)
			}
			// IsServerClient compares the id with the initial actor id
			if fn := x.fn(dbPkg + ".(*ClientInfo).IsServerClient"); fn != nil {
				initial := x.P.Lookup("pkg/document/time.InitialActorID")
				ok := false
				for _, r := range prog.Returns(fn) {
					v := prog.ReturnValue(r, 0)
					if b, isB := v.(*ssa.BinOp); isB && relOfToken(b.Op) == EQ {
						dep := func(w ssa.Value) bool {
							return prog.DependsOn(w, func(u ssa.Value) bool { g, ok := u.(*ssa.Global); return ok && g.Object() == initial })
						}
						if dep(b.X) || dep(b.Y) {
							ok = true
						}
					}
				}
				x.check(ok, "func="+prog.FnName(fn)+" ==InitialActorID", x.fpos(fn), "the server client is exactly the initial actor id", "IsServerClient no longer tests for the initial actor id: ordinary clients could bypass the attachment check")
			}
			// who may build a system client
			sys := x.P.FnObj(dbPkg + ".SystemClientInfo")
			for _, c := range x.directCallers(sys) {
				pk := strings.TrimPrefix(prog.PkgOf(c.Parent()), prog.Mod+"/")
				x.check(pk == "server/revisions" || pk == "server/documents", "caller-of=SystemClientInfo func="+prog.FnName(c.Parent()), x.pos(c),
					"system client built by a server-side writer", "a system client (exempt from the attachment check) is built outside server/revisions and server/documents")
			}
			// provenance of the ClientInfo argument at each PushPull call
			findActive := x.P.FnObj("server/clients.FindActiveClientInfo")
			attachDoc := x.P.FnObj("server/clients.AttachDocument")
			ppObj, _ := pp.Object().(*types.Func)
			for _, c := range x.directCallers(ppObj) {
				arg := paramArg(c, 3)
				k := "caller=" + prog.FnName(c.Parent()) + " clientInfo-provenance"
				if prog.Reaches(arg, vpCall(sys).M) {
					x.hold(k, x.pos(c), "system client")
					continue
				}
				okProv := prog.Reaches(arg, func(v ssa.Value) bool {
					if vpCall(findActive).match(v) {
						return true
					}
					if ex, ok := v.(*ssa.Extract); ok {
						if call, ok := ex.Tuple.(*ssa.Call); ok {
							if sameFunc(prog.CallObj(call), findActive) {
								return true
							}
							if sameFunc(prog.CallObj(call), attachDoc) {
								return prog.Reaches(paramArg(call, 2), func(w ssa.Value) bool {
									if ex2, ok := w.(*ssa.Extract); ok {
										if c2, ok := ex2.Tuple.(*ssa.Call); ok {
											return sameFunc(prog.CallObj(c2), findActive)
										}
									}
									return false
								})
							}
						}
					}
					return false
				})
				x.check(okProv, k, x.pos(c), "the ClientInfo comes from clients.FindActiveClientInfo", "the ClientInfo passed to PushPull does not come from clients.FindActiveClientInfo (activation is not checked)")
			}
			if fa := x.fn("server/clients.FindActiveClientInfo"); fa != nil {
				ea := x.P.FnObj(dbPkg + ".(*ClientInfo).EnsureActivated")
				var ec *ssa.Call
				for _, c := range prog.CallsIn(fa) {
					if cc, ok := c.(*ssa.Call); ok && sameFunc(prog.CallObj(cc), ea) {
						ec = cc
					}
				}
				for i, r := range successReturns(fa) {
					k := fmt.Sprintf("func=%s ok-return#%d after EnsureActivated", prog.FnName(fa), i+1)
					if ec == nil {
						x.fail(k, x.pos(r), "FindActiveClientInfo returns a client without EnsureActivated")
					} else {
						x.guardedSite(k, r, []Cmp{errNilCmp(ec)}, nil)
					}
				}
			}
		}})

	register(&Rule{ID: "O2.removed", Min: 3, Text: "a removed document stays removed and takes no further change: in the push function a non-empty list reaches the log append only on the edge where DocInfo.IsRemoved() (read under the push lock) is false; the response always carries the document's removed state (ServerPack.ApplyDocInfo on every success path of the pull); the storage layer sets RemovedAt exactly under the isRemoved flag",
		Run: func(x *Ctx) {
			p := x.pipe()
			if !p.ok {
				return
			}
			isRemoved := x.P.FnObj(dbPkg + ".(*DocInfo).IsRemoved")
			if isRemoved == nil {
				x.C.Unresolved(x.id(), "DocInfo.IsRemoved")
				return
			}
			fn := p.Pusher
			// the phi at the append: every non-nil incoming edge must be cut by (IsRemoved false) or (len<=0)
			listArg := paramArg(p.PushCall, 3)
			k := "func=" + prog.FnName(fn) + " removed-guard"
			phi, ok := listArg.(*ssa.Phi)
			if !ok {
				x.fail(k, x.pos(p.PushCall), "the list passed to the append is not reset on any path (no removed/epoch discard)")
			} else {
				family := map[ssa.Value]bool{}
				prog.Reaches(listArg, func(v ssa.Value) bool { family[v] = true; return false })
				lenList := VP{"len(changes to push)", func(v ssa.Value) bool {
					c, ok := prog.Strip(v).(*ssa.Call)
					if !ok {
						return false
					}
					b, ok := c.Call.Value.(*ssa.Builtin)
					return ok && b.Name() == "len" && family[c.Call.Args[0]]
				}}
				guards, _ := GuardEdges(fn, []Cmp{isFalse(vpCall(isRemoved)), {L: lenList, R: vpConst(0), Want: LE}}, nil)
				cut := map[prog.Edge]bool{}
				for e := range guards {
					cut[e] = true
				}
				bad := ""
				open := prog.ReachableFrom(fn.Blocks[0], cut)
				open[fn.Blocks[0]] = true
				seenPhi := map[*ssa.Phi]bool{}
				var walk func(ph *ssa.Phi)
				walk = func(ph *ssa.Phi) {
					if seenPhi[ph] {
						return
					}
					seenPhi[ph] = true
					for i, e := range ph.Edges {
						if prog.IsNilConst(e) {
							continue
						}
						if q, isPhi := e.(*ssa.Phi); isPhi && q.Block() != ph.Block() && !q.Block().Dominates(fn.Blocks[0]) && isAfterLoop(q, ph) {
							walk(q)
							continue
						}
						pred := ph.Block().Preds[i]
						if cut[prog.Edge{From: pred, To: ph.Block()}] || !open[pred] {
							continue
						}
						bad = fmt.Sprintf("block %d -> %d", pred.Index, ph.Block().Index)
					}
				}
				walk(phi)
				x.check(bad == "", k, x.pos(p.PushCall), "a non-empty list reaches the append only when the document is not removed",
					"a non-empty change list can reach the log append although the document is removed ("+bad+")")
			}
			for _, c := range callsToIn(fn, isRemoved) {
				recv := recvOf(c)
				fromLocked := prog.Reaches(recv, func(v ssa.Value) bool {
					ex, ok := v.(*ssa.Extract)
					if !ok {
						return false
					}
					call, ok := ex.Tuple.(*ssa.Call)
					return ok && sameFunc(prog.CallObj(call), p.FindDocByRef)
				})
				x.check(fromLocked, "func="+prog.FnName(fn)+" removed-state-from-fresh-read", x.pos(c), "IsRemoved is asked of the DocInfo re-read under the push lock", "IsRemoved is asked of a DocInfo that was not re-read under the push lock")
			}
			// ApplyDocInfo on every success return of the function that prepares the response
			apply := x.P.FnObj("server/packs.(*ServerPack).ApplyDocInfo")
			uds := x.P.FnObj(dbPkg + ".(*ClientInfo).UpdateDocStatus")
			for _, c := range x.directCallers(uds) {
				host := c.Parent()
				if !x.reachableFrom(p.PushPull, host) || prog.PkgOf(host) != prog.PkgOf(p.PushPull) {
					continue
				}
				sites := callsToIn(host, apply)
				for i, r := range successReturns(host) {
					ok := false
					for _, s := range sites {
						if prog.Dominates(s, r) {
							ok = true
						}
					}
					x.check(ok, fmt.Sprintf("func=%s ok-return#%d carries-doc-state", prog.FnName(host), i+1), x.pos(r), "ApplyDocInfo dominates the success return", "a response is returned without the document's removed state applied")
				}
			}
			// ApplyDocInfo copies the removed flag
			if fn := x.fn("server/packs.(*ServerPack).ApplyDocInfo"); fn != nil {
				isRem := x.P.Field("server/packs.ServerPack.IsRemoved")
				ok := false
				for _, st := range storesTo(fn, isRem) {
					if vpTrue.match(st.Val) {
						// guarded by a test of the document's RemovedAt / IsRemoved
						ok = ok || x.quietGuarded(st, []Cmp{isTrue(vpCall(isRemoved)), isFalse(VP{"RemovedAt.IsZero()", func(v ssa.Value) bool {
							c, ok := v.(*ssa.Call)
							return ok && prog.CallObj(c) != nil && prog.CallObj(c).Name() == "IsZero"
						}})})
					} else if prog.DependsOn(st.Val, func(v ssa.Value) bool { return vpCall(isRemoved).match(v) }) {
						ok = true
					}
				}
				x.check(ok, "func="+prog.FnName(fn)+" sets-IsRemoved", x.fpos(fn), "the pack's removed flag follows the document", "ApplyDocInfo no longer sets the removed flag from the document")
			}
			// storage: RemovedAt written under the isRemoved parameter
			if fn := x.fn(memPkg + ".(*DB).CreateChangeInfos"); fn != nil {
				remAt := x.P.Field(dbPkg + ".DocInfo.RemovedAt")
				var flag VP
				for i, pm := range fn.Params {
					if b, ok := pm.Type().(*types.Basic); ok && b.Kind() == types.Bool {
						flag = vpParam(fn, i)
					}
				}
				sts := storesTo(fn, remAt)
				x.check(len(sts) >= 1, "func="+prog.FnName(fn)+" writes-RemovedAt", x.fpos(fn), "RemovedAt is written", "CreateChangeInfos no longer records the removal")
				for i, st := range sts {
					x.guardedSite(fmt.Sprintf("func=%s RemovedAt-write#%d under isRemoved", prog.FnName(fn), i+1), st, []Cmp{isTrue(flag)}, nil)
				}
				// the stored row (inserted DocInfo) gets it
				stored := false
				for _, c := range prog.CallsIn(fn) {
					if o := prog.CallObj(c); o != nil && o.Name() == "Insert" && isMemdbTxn(recvOf(c).Type()) {
						obj := prog.Strip(c.Common().Args[len(c.Common().Args)-1])
						for _, st := range sts {
							if st.Addr.(*ssa.FieldAddr).X == obj && prog.Dominates(st, c) || (st.Addr.(*ssa.FieldAddr).X == obj && prog.MayPrecede(st, c)) {
								stored = true
							}
						}
					}
				}
				x.check(stored, "func="+prog.FnName(fn)+" stored-row-gets-RemovedAt", x.fpos(fn), "the inserted row carries RemovedAt", "RemovedAt is set only on the returned copy, not on the stored row")
			}
		}})

	register(&Rule{ID: "O1.deactivate", Min: 4, Text: "Deactivate detaches first: in clients.Deactivate every document whose status is attached or attaching is collected (the skip edge implies neither), each is detached through the cluster client, a detach error returns, and Database.DeactivateClient is called only after the loop; both storage backends refuse to deactivate a client that still has an attached or attaching document",
		Run: func(x *Ctx) {
			fn := x.fn("server/clients.Deactivate")
			if fn == nil {
				return
			}
			attached, _ := x.constStr(dbPkg + ".DocumentAttached")
			attaching, _ := x.constStr(dbPkg + ".DocumentAttaching")
			docStatus := x.P.Field(dbPkg + ".ClientDocInfo.Status")
			deact := x.P.IfaceMethod(dbPkg + ".Database.DeactivateClient")
			k := "func=" + prog.FnName(fn)
			var detach []ssa.CallInstruction
			for _, c := range prog.CallsIn(fn) {
				if o := prog.CallObj(c); o != nil && o.Name() == "DetachDocument" {
					detach = append(detach, c)
				}
			}
			dcalls := callsToIn(fn, deact)
			if len(detach) == 0 || len(dcalls) == 0 {
				x.fail(k+" detach≺deactivate", x.fpos(fn), "Deactivate no longer detaches the documents before deactivating the client")
				return
			}
			for _, d := range dcalls {
				for _, dt := range detach {
					x.check(prog.MayPrecede(dt, d) && !prog.MayPrecede(d, dt), k+" detach≺deactivate", x.pos(d), "the detach loop precedes DeactivateClient", "DeactivateClient can run before the documents are detached")
					if dc, ok := dt.(*ssa.Call); ok {
						c := errNilCmp(dc)
						c.Want = NE
						x.rejectOn(k+" detach-error-returns", d, c)
					}
				}
			}
			// collection: appends of doc ids; the skip edges
			var app ssa.Instruction
			for _, c := range prog.CallsIn(fn) {
				if b, ok := c.Common().Value.(*ssa.Builtin); ok && b.Name() == "append" {
					if sl, ok := c.Common().Args[0].Type().Underlying().(*types.Slice); ok {
						if n, ok := sl.Elem().(*types.Named); ok && n.Obj().Name() == "ID" {
							app = c
						}
					}
				}
			}
			if app == nil {
				x.fail(k+" collects-attached", x.fpos(fn), "no collection of document ids")
				return
			}
			for _, st := range []string{attached, attaching} {
				// from the edge on which Status == st, the loop header must not be reachable without passing the append
				okAll, seen := true, false
				for _, b := range fn.Blocks {
					iff := prog.IfOf(b)
					if iff == nil {
						continue
					}
					r, found := relOnTrue(iff.Cond, vpField(docStatus), vpStr(st), nil)
					if !found {
						continue
					}
					seen = true
					var eq *ssa.BasicBlock
					if r == EQ {
						eq = b.Succs[0]
					} else if r == NE {
						eq = b.Succs[1]
					} else {
						continue
					}
					if eq == app.Block() {
						continue
					}
					cut := map[prog.Edge]bool{}
					for _, s := range app.Block().Succs {
						cut[prog.Edge{From: app.Block(), To: s}] = true
					}
					reach := prog.ReachableFrom(eq, cut)
					reach[eq] = true
					// if a detach call or a return is reachable without the append, a document of this status can be skipped
					for _, dt := range detach {
						if reach[dt.Block()] && !reach[app.Block()] {
							okAll = false
						}
					}
					// skipping = reaching the loop latch without append: approximate by reaching b again
					if reach[b] && !blockOnAllPaths(eq, app.Block(), b) {
						okAll = false
					}
				}
				x.check(seen && okAll, k+" collects status="+st, x.pos(app), "documents with status "+st+" are always collected for detachment", "a document with status "+st+" can be skipped by the detach loop")
			}
			// backends refuse
			for _, spec := range []string{memPkg + ".(*DB).DeactivateClient"} {
				bf := x.fn(spec)
				if bf == nil {
					continue
				}
				dz := x.P.FnObj(dbPkg + ".(*ClientInfo).Deactivate")
				for _, c := range callsToIn(bf, dz) {
					for _, st := range []struct{ name, val string }{{"refuses-attached", attached}, {"refuses-attaching", attaching}} {
						cmp := Cmp{L: vpField(docStatus), R: vpStr(st.val), Want: EQ}
						key := "func=" + prog.FnName(bf) + " " + st.name
						// the scan may live in a boolean helper of the package: hasAttached(clientInfo) — the edge on which the status is
						// found cannot reach the helper's `return false`, and the helper's true edge cannot reach the deactivation
						if seen, _ := cmpEdgeReaches(bf, cmp, func(*ssa.BasicBlock) bool { return false }); !seen {
							via := ""
							for _, hc := range prog.CallsIn(bf) {
								h, isCall := hc.(*ssa.Call)
								if !isCall || h.Call.StaticCallee() == nil || h.Call.StaticCallee().Pkg != bf.Pkg || len(h.Call.StaticCallee().Blocks) == 0 {
									continue
								}
								H := h.Call.StaticCallee()
								if H.Signature.Results().Len() != 1 || !isBoolType(H.Signature.Results().At(0).Type()) {
									continue
								}
								hSeen, hBad := cmpEdgeReaches(H, cmp, func(b *ssa.BasicBlock) bool {
									if len(b.Instrs) == 0 {
										return false
									}
									r, isR := b.Instrs[len(b.Instrs)-1].(*ssa.Return)
									return isR && len(r.Results) == 1 && !vpTrue.match(r.Results[0])
								})
								if !hSeen || hBad {
									continue
								}
								isH := VP{"the helper's answer", func(w ssa.Value) bool { return prog.Strip(w) == ssa.Value(h) }}
								if cSeen, cBad := cmpEdgeReaches(bf, isTrue(isH), func(b *ssa.BasicBlock) bool { return b == c.Block() }); cSeen && !cBad {
									via = prog.FnName(H)
								}
							}
							if via != "" {
								x.hold(key, x.pos(c), "the scan is done by "+via+", whose true answer cannot reach the deactivation")
								continue
							}
						}
						x.rejectOn(key, c, cmp)
					}
				}
				if len(callsToIn(bf, dz)) == 0 {
					x.fail("func="+prog.FnName(bf)+" deactivates", x.fpos(bf), "DeactivateClient no longer marks the client deactivated")
				}
			}
		}})
}

func indexOfParam(fn *ssa.Function, pm *ssa.Parameter) int {
	for i, q := range fn.Params {
		if q == pm {
			return i
		}
	}
	return -1
}

// blockOnAllPaths: every path from `from` back to `loop` passes `must`.
func blockOnAllPaths(from, must, loop *ssa.BasicBlock) bool {
	if from == must {
		return true
	}
	cut := map[prog.Edge]bool{}
	for _, s := range must.Succs {
		cut[prog.Edge{From: must, To: s}] = true
	}
	reach := prog.ReachableFrom(from, cut)
	// loop reachable without passing must?
	if reach[loop] {
		// reach includes blocks reachable with must's out-edges cut; must itself may be in reach.
		// A path to loop that does not go through must exists iff loop reachable when must is removed.
		seen := map[*ssa.BasicBlock]bool{must: true}
		q := []*ssa.BasicBlock{from}
		for len(q) > 0 {
			b := q[len(q)-1]
			q = q[:len(q)-1]
			if seen[b] {
				continue
			}
			seen[b] = true
			if b == loop {
				return false
			}
			q = append(q, b.Succs...)
		}
	}
	return true
}

// quietGuarded is guardedSite without recording an obligation.
func (x *Ctx) quietGuarded(site ssa.Instruction, cmps []Cmp) bool {
	guards, _ := GuardEdges(site.Parent(), cmps, nil)
	cut := map[prog.Edge]bool{}
	for e := range guards {
		cut[e] = true
	}
	return len(cut) > 0 && prog.CutDisconnects(site.Parent(), site.Block(), cut)
}

// isAfterLoop: q is a merge of discards (a phi that is not the loop-carried
// accumulator): one of its incoming values is nil.
func isAfterLoop(q, _ *ssa.Phi) bool {
	for _, e := range q.Edges {
		if prog.IsNilConst(e) {
			// the loop accumulator also starts from nil: require that q is not in a loop with itself
			for _, e2 := range q.Edges {
				if e2 == ssa.Value(q) {
					return false
				}
				if r, ok := e2.(*ssa.Call); ok {
					if b, ok := r.Call.Value.(*ssa.Builtin); ok && b.Name() == "append" {
						return false
					}
				}
			}
			return true
		}
	}
	return false
}

// rejectOn: wherever fn compares the roles of c, the edge on which c holds must
// not lead to site (it must leave through an error return); at least one such
// comparison exists. This is the loop form of a guard ("for every element: if bad,
// return an error"), for which a cut from the entry cannot work because the loop
// may run zero times.
// cmpEdgeReaches: from an edge of fn on which c holds, can a block satisfying target be reached without going round a loop
// through the test again? seen reports whether the roles are tested at all.
func cmpEdgeReaches(fn *ssa.Function, c Cmp, target func(*ssa.BasicBlock) bool) (seen, reaches bool) {
	for _, b := range fn.Blocks {
		iff := prog.IfOf(b)
		if iff == nil {
			continue
		}
		r, found := relOnTrue(iff.Cond, c.L, c.R, nil)
		if !found {
			continue
		}
		var bad *ssa.BasicBlock
		switch {
		case implies(r, c.Want):
			bad = b.Succs[0]
		case implies(negRel(r), c.Want):
			bad = b.Succs[1]
		default:
			continue
		}
		seen = true
		reach := map[*ssa.BasicBlock]bool{}
		q := []*ssa.BasicBlock{bad}
		for len(q) > 0 {
			cb := q[len(q)-1]
			q = q[:len(q)-1]
			if reach[cb] || (cb != b && cb.Dominates(b)) || cb == b {
				continue
			}
			reach[cb] = true
			if target(cb) {
				reaches = true
			}
			q = append(q, cb.Succs...)
		}
	}
	return seen, reaches
}

func (x *Ctx) rejectOn(key string, site ssa.Instruction, c Cmp) bool {
	fn := site.Parent()
	seen, ok := false, true
	for _, b := range fn.Blocks {
		iff := prog.IfOf(b)
		if iff == nil {
			continue
		}
		r, found := relOnTrue(iff.Cond, c.L, c.R, nil)
		if !found {
			continue
		}
		var bad *ssa.BasicBlock
		switch {
		case implies(r, c.Want):
			bad = b.Succs[0]
		case implies(negRel(r), c.Want):
			bad = b.Succs[1]
		default:
			continue
		}
		seen = true
		// reach from the bad edge without starting a new loop iteration: a block that
		// strictly dominates the test can only be re-entered by going round a loop
		reach := map[*ssa.BasicBlock]bool{}
		q := []*ssa.BasicBlock{bad}
		for len(q) > 0 {
			c := q[len(q)-1]
			q = q[:len(q)-1]
			if reach[c] || (c != b && c.Dominates(b)) || c == b {
				continue
			}
			reach[c] = true
			q = append(q, c.Succs...)
		}
		if reach[site.Block()] {
			ok = false
		}
	}
	x.check(seen && ok, key, x.pos(site), "the edge on which ("+c.String()+") holds cannot reach the site",
		map[bool]string{true: "the site is reachable from the edge on which (" + c.String() + ") holds", false: "no test of (" + c.String() + ") before the site"}[seen])
	return seen && ok
}

func init() {
	register(&Rule{ID: "O2.reattach", Min: 2, Text: "a detached document is not re-attached: in clients.AttachDocument the test ClientInfo.IsAlreadyDetached is made on the record as the caller read it — it dominates Database.TryAttaching, which overwrites the document's entry with 'attaching' and would make the test vacuous — and neither TryAttaching nor ClientInfo.AttachDocument is reachable from the edge on which the test is true (that edge returns ErrDocumentAlreadyDetached)",
		Run: func(x *Ctx) {
			fn := x.fn("server/clients.AttachDocument")
			already := x.P.FnObj(dbPkg + ".(*ClientInfo).IsAlreadyDetached")
			try := x.P.IfaceMethod(dbPkg + ".Database.TryAttaching")
			attach := x.P.FnObj(dbPkg + ".(*ClientInfo).AttachDocument")
			if fn == nil || already == nil || try == nil || attach == nil {
				x.C.Unresolved(x.id(), "clients.AttachDocument / ClientInfo.IsAlreadyDetached / Database.TryAttaching")
				return
			}
			k := "func=" + prog.FnName(fn)
			checks := callsToIn(fn, already)
			if len(checks) == 0 {
				x.fail(k+" tests-already-detached", x.fpos(fn), "AttachDocument no longer tests IsAlreadyDetached")
				return
			}
			var effects []ssa.CallInstruction
			for _, c := range prog.CallsIn(fn) {
				if c.Common().IsInvoke() && c.Common().Method == try {
					effects = append(effects, c)
				}
			}
			effects = append(effects, callsToIn(fn, attach)...)
			for i, e := range effects {
				name := "AttachDocument"
				if e.Common().IsInvoke() {
					name = e.Common().Method.Name()
				}
				dom := false
				for _, c := range checks {
					if prog.Dominates(c, e) {
						dom = true
					}
				}
				x.check(dom, fmt.Sprintf("%s effect=%s#%d after-the-test", k, name, i+1), x.pos(e), "the test dominates the effect", "the document's entry is rewritten before IsAlreadyDetached is tested: after TryAttaching the entry says 'attaching', the test can never fire, and a detached replica attaches again with its old checkpoint")
				x.rejectOn(fmt.Sprintf("%s effect=%s#%d not-when-already-detached", k, name, i+1), e, isTrue(vpCall(already)))
			}
		}})
}
