package rules

import (
	"fmt"
	"go/token"
	"go/types"
	"strings"

	"yv/internal/prog"

	"golang.org/x/tools/go/ssa"
)

// guardedField describes shared state protected by a mutex field of the same
// struct.
type guardedField struct {
	Pkg, Type string   // module-relative package, struct type name
	Mutex     string   // name of the mutex field (embedded: its type name)
	Fields    []string // guarded fields
	Why       string
	// Except: functions (prog.FnName of the origin) whose accesses are not obligations, one reason each
	Except map[string]string
}

var guardedFields = []guardedField{
	{"pkg/cmap", "shard", "RWMutex", []string{"items"}, "sharded concurrent map", nil},
	{"server/backend/pubsub", "Subscription", "mu", []string{"closed", "failureCount", "events!"}, "closed flag, failure counter, and every send/close on the events channel", nil},
	{"server/backend/pubsub", "BatchPublisher", "mutex", []string{"events"}, "pending batch", nil},
	{"pkg/locker", "Locker", "mu", []string{"locks"}, "named-lock table with reference counts", nil},
	{"server/backend/database/mongo", "ChangeStore", "mu", []string{"ranges", "tree"}, "cached change ranges", nil},
	{"pkg/document/presence/inner", "Map", "mu", []string{"presences"}, "presence map", nil},
}

type muOp struct {
	Ins   ssa.Instruction
	Base  ssa.Value // the struct pointer whose mutex is operated on
	Write bool      // Lock/Unlock (vs RLock/RUnlock)
	Defer bool
}

// mutexOps finds Lock/RLock (acq=true) or Unlock/RUnlock calls on base.<mutex> in fn.
func mutexOps(fn *ssa.Function, structName, mutexField string) (acqs, rels []muOp) {
	for _, c := range prog.CallsIn(fn) {
		o := prog.CallObj(c)
		if o == nil || o.Pkg() == nil || o.Pkg().Path() != "sync" {
			continue
		}
		name := o.Name()
		if name != "Lock" && name != "RLock" && name != "Unlock" && name != "RUnlock" && name != "TryLock" {
			continue
		}
		if len(c.Common().Args) == 0 {
			continue
		}
		fa, ok := c.Common().Args[0].(*ssa.FieldAddr)
		if !ok {
			continue
		}
		f := prog.FieldVar(fa)
		if f == nil || f.Name() != mutexField {
			continue
		}
		if n := namedOf(fa.X.Type()); n == nil || n.Obj().Name() != structName {
			continue
		}
		_, isDefer := c.(*ssa.Defer)
		op := muOp{Ins: c, Base: fa.X, Write: name == "Lock" || name == "Unlock" || name == "TryLock", Defer: isDefer}
		if name == "Lock" || name == "RLock" {
			if !isDefer {
				acqs = append(acqs, op)
			}
		} else if name != "TryLock" {
			rels = append(rels, op)
		}
	}
	return
}

func namedOf(t types.Type) *types.Named {
	if p, ok := t.(*types.Pointer); ok {
		t = p.Elem()
	}
	n, _ := t.(*types.Named)
	if n != nil && n.Origin() != nil {
		return n.Origin()
	}
	return n
}

// heldMutex: is a lock on base.<mutex> (write lock if needWrite) held on every
// path to ins inside its function?
func heldMutex(ins ssa.Instruction, base ssa.Value, acqs, rels []muOp, needWrite bool) bool {
	for _, a := range acqs {
		if needWrite && !a.Write {
			continue
		}
		if !sameAccessPath(a.Base, base) {
			continue
		}
		if !prog.Dominates(a.Ins, ins) {
			continue
		}
		ok := true
		for _, r := range rels {
			if r.Defer || !sameAccessPath(r.Base, base) {
				continue
			}
			if !prog.MayPrecede(a.Ins, r.Ins) {
				continue
			}
			// is ins reachable from r without passing the acquisition again?
			if reachWithout(r.Ins, ins, a.Ins) {
				ok = false
			}
		}
		if ok {
			return true
		}
	}
	return false
}

// reachWithout: is `to` reachable from just after `from` without executing `avoid`?
func reachWithout(from, to, avoid ssa.Instruction) bool {
	fb, fi := from.Block(), prog.InstrIndex(from)
	tb, ti := to.Block(), prog.InstrIndex(to)
	ab, ai := avoid.Block(), prog.InstrIndex(avoid)
	// straight line in from's block
	if fb == tb && ti > fi && !(ab == fb && ai > fi && ai < ti) {
		return true
	}
	if ab == fb && ai > fi {
		return false // leaving from's block passes avoid
	}
	seen := map[*ssa.BasicBlock]bool{}
	q := append([]*ssa.BasicBlock{}, fb.Succs...)
	for len(q) > 0 {
		b := q[len(q)-1]
		q = q[:len(q)-1]
		if seen[b] {
			continue
		}
		seen[b] = true
		if b == tb {
			if !(ab == b && ai < ti) {
				return true
			}
		}
		if b == ab {
			continue // passes avoid before leaving the block (avoid is somewhere in it)
		}
		q = append(q, b.Succs...)
	}
	return false
}

func init() {
	register(&Rule{ID: "L5", Min: 30, Text: "lockset for mutex-guarded state: every access to a guarded field (cmap shard items; Subscription.closed/failureCount and every send/close on its events channel; BatchPublisher.events; Locker.locks; ChangeStore ranges/tree; presence Map) happens at a point where the owning struct's mutex is held on every path — the write lock for writes — established by a dominating Lock/RLock on the same object with no release in between, or, for unexported helpers, by every caller; constructors (fresh objects) are exempt",
		Run: func(x *Ctx) { locksetRun(x, guardedFields) }})

	register(&Rule{ID: "L5.aux", Min: 20, Text: "lockset for the remaining mutex-guarded state the sync pipeline touches (the table was made by listing every struct of the production packages that carries a sync.Mutex/RWMutex and reading what each protects): the rate limiter's entry map and eviction list (pkg/limit.Limiter.mu — event webhooks are throttled through it from the push path), the cluster client pool's maps (cluster.ClientPool.mu — compaction and cache invalidation broadcast through it), the SDK's watch buffer (client.watchBuffer.mu: items, closed), and the SDK channel's actor (pkg/channel.Channel.actorMu) are accessed only with the owning mutex held on every path — the write lock for writes — by a dominating Lock/RLock on the same object or, for unexported helpers, by every caller; constructors are exempt, and so is Limiter.Close (shutdown). Not in the table, by reading: document.Document.mu serialises Update/ApplyChangePack/undo but the SDK document's accessors (Root, Marshal, Checkpoint, GarbageCollect …) are unlocked by design — the document is owned by one application goroutine plus the client's sync loop, which locks; membership.Manager, channel.Manager and trie use atomics for their shared state and the mutex for serialising writers only",
		Run: func(x *Ctx) {
			locksetRun(x, []guardedField{
				{"pkg/limit", "Limiter", "mu", []string{"evictionList", "entries"}, "rate-limit buckets", map[string]string{
					"(*pkg/limit.Limiter[K]).Close": "shutdown only: after the expiry loop has ended it reads the list's length to drain what is left (the draining itself, collectEntries, takes the lock); the backend calls it after the RPC server has stopped"}},
				{"cluster", "ClientPool", "mu", []string{"clients", "counters"}, "cluster clients per address", nil},
				{"client", "watchBuffer", "mu", []string{"items", "closed"}, "queue between watch producers and the delivering goroutine", nil},
				{"pkg/channel", "Channel", "actorMu", []string{"actorID"}, "actor of the SDK channel", nil},
			})
		}})

	register(&Rule{ID: "L5.client", Min: 4, Text: "one sync of an attachment at a time (client SDK): the sync state of a client.Attachment (changeEventReceived, lastSyncTime) is written only with Attachment.syncMu held in write mode and read with it held in some mode — Client.syncInternal builds the request from the document's checkpoint, sends it and applies the response inside that critical section, so holding the lock exclusively is what keeps two syncs of the same document from being built from the same checkpoint and both applied (a manual Sync next to the realtime loop); taken in read mode the second sync no longer waits",
		Run: func(x *Ctx) {
			locksetRun(x, []guardedField{{"client", "Attachment", "syncMu", []string{"changeEventReceived", "lastSyncTime"}, "sync state of one attachment", nil}})
		}})
}

func locksetRun(x *Ctx, table []guardedField) {
	{
		{
			total := 0
			for _, g := range table {
				st := x.P.Named(g.Pkg + "." + g.Type)
				if st == nil {
					x.C.Unresolved(x.id(), g.Pkg+"."+g.Type)
					continue
				}
				fields := map[string]bool{}
				chanFields := map[string]bool{}
				for _, f := range g.Fields {
					if strings.HasSuffix(f, "!") {
						chanFields[strings.TrimSuffix(f, "!")] = true
						continue
					}
					fields[f] = true
				}
				n := map[string]int{}
				for _, fn := range x.P.FuncsIn(g.Pkg) {
					// instantiations of generics are analysed like their origin and keyed by the origin's name
					fnKey := prog.FnName(fn)
					if o := fn.Origin(); o != nil && o != fn {
						fnKey = prog.FnName(o)
					}
					if _, skip := g.Except[fnKey]; skip {
						continue
					}
					acqs, rels := mutexOps(fn, g.Type, g.Mutex)
					// closures run inside the parent's critical section only when called synchronously; analyse them on their own
					for _, b := range fn.Blocks {
						for _, ins := range b.Instrs {
							fa, ok := ins.(*ssa.FieldAddr)
							if !ok {
								continue
							}
							nt := namedOf(fa.X.Type())
							if nt == nil || nt.Obj().Name() != g.Type || nt.Obj().Pkg() == nil || !strings.HasSuffix(nt.Obj().Pkg().Path(), g.Pkg) {
								continue
							}
							f := prog.FieldVar(fa)
							if f == nil {
								continue
							}
							if freshObject(fa.X) {
								continue // constructor / private copy
							}
							isChan := chanFields[f.Name()]
							if !fields[f.Name()] && !isChan {
								continue
							}
							// classify the accesses through this address
							type acc struct {
								at    ssa.Instruction
								write bool
								what  string
							}
							var accs []acc
							for _, r := range *fa.Referrers() {
								switch t := r.(type) {
								case *ssa.Store:
									if t.Addr == ssa.Value(fa) {
										if isChan {
											continue // assigning the channel itself happens in the constructor only
										}
										accs = append(accs, acc{t, true, "write"})
									}
								case *ssa.UnOp:
									if t.Op != token.MUL {
										continue
									}
									if isChan {
										for _, u := range *t.Referrers() {
											switch uu := u.(type) {
											case *ssa.Send:
												accs = append(accs, acc{uu, true, "send"})
											case *ssa.Select:
												for _, st := range uu.States {
													if st.Dir == types.SendOnly && st.Chan == ssa.Value(t) {
														accs = append(accs, acc{uu, true, "send"})
													}
												}
											case ssa.CallInstruction:
												if bi, ok := uu.Common().Value.(*ssa.Builtin); ok && bi.Name() == "close" {
													accs = append(accs, acc{uu, true, "close"})
												}
											}
										}
										continue
									}
									wrote := false
									for _, u := range *t.Referrers() {
										switch uu := u.(type) {
										case *ssa.MapUpdate:
											if uu.Map == ssa.Value(t) {
												accs = append(accs, acc{uu, true, "map write"})
												wrote = true
											}
										case ssa.CallInstruction:
											if bi, ok := uu.Common().Value.(*ssa.Builtin); ok && bi.Name() == "delete" {
												accs = append(accs, acc{uu, true, "map delete"})
												wrote = true
											}
										}
									}
									if !wrote {
										accs = append(accs, acc{t, false, "read"})
									}
								}
							}
							for _, a := range accs {
								total++
								n[prog.FnName(fn)]++
								k := fmt.Sprintf("type=%s.%s field=%s func=%s %s#%d", g.Pkg, g.Type, f.Name(), fnKey, a.what, n[prog.FnName(fn)])
								held := heldMutex(a.at, fa.X, acqs, rels, a.write)
								why := ""
								if !held {
									// every caller holds it (helpers called inside the critical section)
									held, why = x.callersHoldMutex(fn, g, a.write, 0)
								}
								need := "the mutex"
								if a.write {
									need = "the write lock"
								}
								x.check(held, k, x.pos(a.at), g.Type+"."+g.Mutex+" is held",
									fmt.Sprintf("%s of %s.%s without %s of %s.%s held on every path%s: a data race (for the events channel: a send on a closed channel)", a.what, g.Type, f.Name(), need, g.Type, g.Mutex, why))
							}
						}
					}
				}
			}
			x.C.Count("accesses to mutex-guarded fields", total)
		}
	}
}

// callersHoldMutex: fn is unexported (or a closure) and every synchronous call
// site of it holds the struct's mutex (any instance).
func (x *Ctx) callersHoldMutex(fn *ssa.Function, g guardedField, needWrite bool, depth int) (bool, string) {
	if depth > 4 {
		return false, ""
	}
	if fn.Parent() == nil && fn.Object() != nil && fn.Object().Exported() {
		return false, ""
	}
	edges := x.calls().inSites[fn]
	if len(edges) == 0 {
		return false, " (no caller)"
	}
	for _, e := range edges {
		if e.Spawned || e.Site == nil {
			return false, " (runs on another goroutine from " + prog.FnName(e.Callee) + ")"
		}
		caller := e.Callee
		acqs, rels := mutexOps(caller, g.Type, g.Mutex)
		held := false
		for _, a := range acqs {
			if heldMutex(e.Site, a.Base, acqs, rels, needWrite) {
				held = true
			}
		}
		if !held {
			if ok, _ := x.callersHoldMutex(caller, g, needWrite, depth+1); !ok {
				return false, " (caller " + prog.FnName(caller) + " does not hold it)"
			}
		}
	}
	return true, ""
}

// freshObject: the struct pointer denotes an object created in this function (a
// composite literal, an element/field of one, or the result of a constructor or
// DeepCopy call) — not yet shared.
func freshObject(v ssa.Value) bool {
	for i := 0; i < 6; i++ {
		switch t := v.(type) {
		case *ssa.Alloc:
			return true
		case *ssa.FieldAddr:
			v = t.X
		case *ssa.IndexAddr:
			v = t.X
		case *ssa.Call:
			o := prog.CallObj(t)
			return o != nil && (o.Name() == "DeepCopy" || strings.HasPrefix(o.Name(), "New"))
		default:
			return false
		}
	}
	return false
}

func init() {
	register(&Rule{ID: "L7", Min: 10, Text: "reference-count protocol of the named-lock table (pkg/locker): in Lock/RLock/TryLock the waiter increment happens while the table mutex is held and the blocking acquisition of the named lock comes only after the table mutex was released (holding it across a blocking lock deadlocks every other key); in Unlock/RUnlock the named lock is released, the counter decremented, tested and the entry deleted — in that order, all inside the table's critical section, and the entry is deleted only on the edge where the count is zero (otherwise a goroutine about to wait would lock an entry that is no longer in the table, and two goroutines hold 'the same' lock)",
		Run: func(x *Ctx) {
			g := guardedField{"pkg/locker", "Locker", "mu", nil, "", nil}
			callNamed := func(fn *ssa.Function, recvType, name string) []ssa.CallInstruction {
				var out []ssa.CallInstruction
				for _, c := range prog.CallsIn(fn) {
					o := prog.CallObj(c)
					if o == nil || o.Name() != name {
						continue
					}
					if r := recvOf(c); r != nil && namedOf(r.Type()) != nil && namedOf(r.Type()).Obj().Name() == recvType {
						out = append(out, c)
					}
				}
				return out
			}
			for _, m := range []struct{ name, block string }{{"Lock", "Lock"}, {"RLock", "RLock"}, {"TryLock", "TryLock"}} {
				fn := x.fn("pkg/locker.(*Locker)." + m.name)
				if fn == nil {
					continue
				}
				k := "func=" + prog.FnName(fn)
				acqs, rels := mutexOps(fn, g.Type, g.Mutex)
				incs := callNamed(fn, "lockCtr", "inc")
				blocks := callNamed(fn, "lockCtr", m.block)
				if len(incs) != 1 || len(blocks) != 1 || len(acqs) == 0 {
					x.fail(k+" shape", x.fpos(fn), "expected one waiter increment and one acquisition of the named lock under the table mutex")
					continue
				}
				x.check(heldMutex(incs[0], acqs[0].Base, acqs, rels, true), k+" increment-under-table-mutex", x.pos(incs[0]), "the waiter is counted before the table mutex is released",
					"the waiter increment is outside the table's critical section: a concurrent Unlock can delete the entry this goroutine is about to wait on")
				// the blocking call: a non-deferred release dominates it and no re-acquisition lies between
				released := false
				for _, r := range rels {
					if r.Defer || !prog.Dominates(r.Ins, blocks[0]) {
						continue
					}
					re := false
					for _, a := range acqs {
						if prog.MayPrecede(r.Ins, a.Ins) && prog.MayPrecede(a.Ins, blocks[0]) {
							re = true
						}
					}
					if !re {
						released = true
					}
				}
				x.check(released, k+" named-lock-acquired-after-table-mutex-released", x.pos(blocks[0]), "the blocking acquisition happens outside the table's critical section",
					"the named lock is acquired while the table mutex is still held: one contended key blocks every Lock/Unlock of every other key")
				x.check(prog.Dominates(incs[0], blocks[0]), k+" increment-before-acquire", x.pos(blocks[0]), "counted, then acquired", "the named lock is acquired before the waiter is counted")
			}
			for _, m := range []struct{ name, rel string }{{"Unlock", "Unlock"}, {"RUnlock", "RUnlock"}} {
				fn := x.fn("pkg/locker.(*Locker)." + m.name)
				if fn == nil {
					continue
				}
				k := "func=" + prog.FnName(fn)
				acqs, rels := mutexOps(fn, g.Type, g.Mutex)
				rel := callNamed(fn, "lockCtr", m.rel)
				dec := callNamed(fn, "lockCtr", "dec")
				cnt := callNamed(fn, "lockCtr", "count")
				var del ssa.CallInstruction
				for _, c := range prog.CallsIn(fn) {
					if bi, ok := c.Common().Value.(*ssa.Builtin); ok && bi.Name() == "delete" {
						del = c
					}
				}
				if len(rel) != 1 || len(dec) != 1 || len(cnt) != 1 || del == nil || len(acqs) == 0 {
					x.fail(k+" shape", x.fpos(fn), "expected release, decrement, count test and delete under the table mutex")
					continue
				}
				for _, s := range []struct {
					c    ssa.Instruction
					what string
				}{{rel[0], "release"}, {dec[0], "decrement"}, {cnt[0], "count"}, {del, "delete"}} {
					x.check(heldMutex(s.c, acqs[0].Base, acqs, rels, true), k+" "+s.what+"-under-table-mutex", x.pos(s.c), "inside the table's critical section",
						"the "+s.what+" happens outside the table's critical section")
				}
				x.check(prog.Dominates(rel[0], dec[0]) && prog.Dominates(dec[0], cnt[0]), k+" order release-decrement-test", x.pos(dec[0]), "released, then decremented, then tested", "release, decrement and test are not in that order")
				count := VP{"waiter count", func(v ssa.Value) bool { return v == cnt[0].Value() }}
				x.guardedSite(k+" delete-only-if-count-zero", del, []Cmp{{L: count, R: vpConst(0), Want: EQ}}, nil)
			}
		}})
}

func init() {
	register(&Rule{ID: "L1.map", Min: 8, Text: "the named-lock façade maps each operation to the matching primitive with its own key: LockerManager.Locker → Lock, LockerWithRLock → RLock, LockerWithTryLock → TryLock (and its result is what is returned), Locker.Unlock → Unlock, Locker.RUnlock → RUnlock of pkg/locker, every one with the key the façade object was created with",
		Run: func(x *Ctx) {
			sp := "server/backend/sync"
			keyF := x.P.Field(sp + ".internalLocker.key")
			if keyF == nil {
				x.C.Unresolved(x.id(), sp+".internalLocker.key")
				return
			}
			// transitive: the method reaches exactly the named primitive of pkg/locker (through the unexported forwarding methods)
			var reach func(fn *ssa.Function, depth int, seen map[*ssa.Function]bool) map[string]bool
			reach = func(fn *ssa.Function, depth int, seen map[*ssa.Function]bool) map[string]bool {
				out := map[string]bool{}
				if fn == nil || seen[fn] || depth > 3 {
					return out
				}
				seen[fn] = true
				for _, c := range prog.CallsIn(fn) {
					o := prog.CallObj(c)
					if o == nil || o.Pkg() == nil {
						continue
					}
					if strings.HasSuffix(o.Pkg().Path(), "/pkg/locker") {
						keyed := false
						for _, a := range c.Common().Args {
							if prog.LoadedField(a) == keyF {
								keyed = true
							}
						}
						if keyed {
							out[o.Name()] = true
						} else {
							out[o.Name()+"(wrong key)"] = true
						}
						continue
					}
					if strings.HasSuffix(o.Pkg().Path(), "/"+sp) {
						for _, callee := range x.P.Callees(c) {
							for k := range reach(callee, depth+1, seen) {
								out[k] = true
							}
						}
					}
				}
				return out
			}
			for _, m := range []struct{ spec, want string }{
				{sp + ".(*LockerManager).Locker", "Lock"},
				{sp + ".(*LockerManager).LockerWithRLock", "RLock"},
				{sp + ".(*LockerManager).LockerWithTryLock", "TryLock"},
				{sp + ".(*internalLocker).Unlock", "Unlock"},
				{sp + ".(*internalLocker).RUnlock", "RUnlock"},
				{sp + ".(*internalLocker).RLock", "RLock"},
				{sp + ".(*internalLocker).lock", "Lock"},
				{sp + ".(*internalLocker).tryLock", "TryLock"},
			} {
				fn := x.fn(m.spec)
				if fn == nil {
					continue
				}
				got := reach(fn, 0, map[*ssa.Function]bool{})
				ok := len(got) == 1 && got[m.want]
				var gs []string
				for k := range got {
					gs = append(gs, k)
				}
				x.check(ok, "method="+strings.TrimPrefix(m.spec, sp+".")+" maps-to="+m.want, x.fpos(fn), "forwards to locker."+m.want+" with its own key",
					"the façade method reaches "+strings.Join(gs, ",")+" instead of exactly locker."+m.want+" with its own key: the wrong lock, mode or key is used")
			}
			if fn := x.fn(sp + ".(*LockerManager).LockerWithTryLock"); fn != nil {
				ok := false
				for _, r := range prog.Returns(fn) {
					if c, isC := prog.Strip(prog.ReturnValue(r, 1)).(*ssa.Call); isC && prog.CallObj(c) != nil && strings.EqualFold(prog.CallObj(c).Name(), "tryLock") {
						ok = true
					}
				}
				x.check(ok, "method=LockerWithTryLock returns-tryLock-result", x.fpos(fn), "the caller learns whether the lock was taken", "LockerWithTryLock does not return the result of the try: callers proceed without the lock")
			}
		}})
}

func init() {
	register(&Rule{ID: "L5.bg", Min: 5, Text: "shutdown protocol of the background runner: Background.Go reads the closing channel and registers the goroutine with the WaitGroup while holding wgMu for reading; Background.Close closes the channel while holding wgMu for writing, releases it, and only then waits — so no goroutine is added after Wait has started, and Wait is not called with the mutex held (a running task that starts another task would deadlock)",
		Run: func(x *Ctx) {
			bp := "server/backend/background"
			g := guardedField{bp, "Background", "wgMu", nil, "", nil}
			goFn, closeFn := x.fn(bp+".(*Background).Go"), x.fn(bp+".(*Background).Close")
			if goFn == nil || closeFn == nil {
				return
			}
			{
				k := "func=" + prog.FnName(goFn)
				acqs, rels := mutexOps(goFn, g.Type, g.Mutex)
				var sel, wgGo ssa.Instruction
				for _, b := range goFn.Blocks {
					for _, ins := range b.Instrs {
						switch t := ins.(type) {
						case *ssa.Select:
							sel = t
						case *ssa.UnOp:
							if t.Op == token.ARROW {
								sel = t
							}
						case ssa.CallInstruction:
							if o := prog.CallObj(t); o != nil && o.Pkg() != nil && o.Pkg().Path() == "sync" && (o.Name() == "Go" || o.Name() == "Add") {
								wgGo = ins
							}
						}
					}
				}
				if sel == nil || wgGo == nil || len(acqs) == 0 {
					x.fail(k+" shape", x.fpos(goFn), "expected a read of the closing channel and a WaitGroup registration under wgMu")
				} else {
					x.check(heldMutex(sel, acqs[0].Base, acqs, rels, false), k+" closing-read-under-wgMu", x.pos(sel), "the closing channel is read under wgMu", "the closing channel is read without wgMu held: a task can be registered after Close started waiting")
					x.check(heldMutex(wgGo, acqs[0].Base, acqs, rels, false), k+" register-under-wgMu", x.pos(wgGo), "the goroutine is registered under wgMu", "the goroutine is registered with the WaitGroup without wgMu held")
					x.check(prog.Dominates(sel, wgGo), k+" closing-read≺register", x.pos(wgGo), "closing is checked before registering", "the goroutine is registered before the closing channel is checked")
				}
			}
			{
				k := "func=" + prog.FnName(closeFn)
				acqs, rels := mutexOps(closeFn, g.Type, g.Mutex)
				var cl, wait ssa.Instruction
				for _, c := range prog.CallsIn(closeFn) {
					if bi, ok := c.Common().Value.(*ssa.Builtin); ok && bi.Name() == "close" {
						cl = c
					}
					if o := prog.CallObj(c); o != nil && o.Pkg() != nil && o.Pkg().Path() == "sync" && o.Name() == "Wait" {
						wait = c
					}
				}
				if cl == nil || wait == nil || len(acqs) == 0 {
					x.fail(k+" shape", x.fpos(closeFn), "expected close(closing) under wgMu and a Wait")
				} else {
					x.check(heldMutex(cl, acqs[0].Base, acqs, rels, true), k+" close-under-wgMu-write", x.pos(cl), "closing is closed under the write lock", "the closing channel is closed without the write lock: it races with Go's registration")
					x.check(!heldMutex(wait, acqs[0].Base, acqs, rels, false) && prog.Dominates(cl, wait), k+" wait-after-unlock", x.pos(wait), "Wait runs after the mutex was released", "Wait is called with wgMu held (or before closing): a task that starts another task deadlocks the shutdown")
				}
			}
		}})
}

func init() {
	register(&Rule{ID: "CMAP.atomic", Min: 3, Text: "decide and act under one lock (pkg/cmap): in every method of cmap.Map that writes a shard's items (map assignment, delete), each read of items that the write may follow is made in the same critical section — no release of the shard lock (Unlock/RUnlock) lies between the read and the write; Upsert and Delete hand the value to the caller's callback and apply its decision without letting go of the write lock, which is what makes 'delete the subscription set only if it is empty' and 'add to the existing set' exclude each other",
		Run: func(x *Ctx) {
			isItems := func(v ssa.Value) bool {
				f := prog.LoadedField(v)
				return f != nil && f.Name() == "items" && f.Pkg() != nil && strings.HasSuffix(f.Pkg().Path(), "/pkg/cmap")
			}
			n := 0
			for _, fn := range x.P.FuncsIn("pkg/cmap") {
				if o := fn.Origin(); o != nil && o != fn {
					continue
				}
				var reads, writes []ssa.Instruction
				var releases []ssa.Instruction
				for _, b := range fn.Blocks {
					for _, ins := range b.Instrs {
						switch t := ins.(type) {
						case *ssa.Lookup:
							if isItems(t.X) {
								reads = append(reads, t)
							}
						case *ssa.MapUpdate:
							if isItems(t.Map) {
								writes = append(writes, t)
							}
						case *ssa.Call:
							if bi, ok := t.Call.Value.(*ssa.Builtin); ok && bi.Name() == "delete" && isItems(t.Call.Args[0]) {
								writes = append(writes, t)
							}
							if o := prog.CallObj(t); o != nil && (o.Name() == "Unlock" || o.Name() == "RUnlock") {
								releases = append(releases, t)
							}
						}
					}
				}
				for i, w := range writes {
					n++
					bad := ""
					for _, r := range reads {
						if !prog.MayPrecede(r, w) {
							continue
						}
						for _, rel := range releases {
							if prog.MayPrecede(r, rel) && prog.MayPrecede(rel, w) {
								bad = x.pos(rel)
							}
						}
					}
					x.check(bad == "", fmt.Sprintf("func=%s write#%d same-critical-section-as-its-reads", prog.FnName(fn), i+1), x.pos(w), "no release of the shard lock between a read of items and this write", "the shard lock is released (at "+bad+") between reading items and writing them: a concurrent Upsert can add to the entry after the decision to delete it was taken, and the addition is lost")
				}
			}
			if n < 3 {
				x.C.Vacuous(x.id()+" writes", n, 3)
			}
		}})
}
