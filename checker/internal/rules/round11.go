package rules

// Round 11: rules written after the sixth seeded round (C05, C12, C14, C15, C17, C18).

import (
	"fmt"
	"go/ast"
	"go/constant"
	"go/types"
	"regexp"
	"strings"

	"golang.org/x/tools/go/ssa"

	"yv/internal/prog"
)

func init() {
	register(&Rule{ID: "PS.filter", Min: 1, Text: "a filtered event skips itself only: in the batching publisher's fan-out (BatchPublisher.publish and the methods it calls), the branch that tests the answer of the subscriber filter (the function stored in the field `filter`) keeps both of its edges inside the innermost loop around it — the loop over the events of the batch. The filter says \"this event is not for this subscriber\" (its own change); an edge that leaves the loop there drops every later event of the batch for that subscriber, whose subscription stays open: it is neither told nor closed",
		Run: func(x *Ctx) {
			publish := x.fn(psPkg + ".(*BatchPublisher).publish")
			if publish == nil {
				return
			}
			n := 0
			for _, fn := range x.flushFns(publish) {
				f := fieldNamed(fn, "BatchPublisher", "filter")
				if f == nil {
					continue
				}
				loops := prog.Loops(fn)
				for _, b := range fn.Blocks {
					iff := prog.IfOf(b)
					if iff == nil {
						continue
					}
					// the condition is (derived from) a dynamic call of the value loaded from the field
					isFilter := prog.DependsOn(iff.Cond, func(v ssa.Value) bool {
						c, ok := v.(*ssa.Call)
						if !ok || c.Call.IsInvoke() || c.Call.StaticCallee() != nil {
							return false
						}
						if u, ok := c.Call.Value.(*ssa.UnOp); ok {
							if fa, ok := u.X.(*ssa.FieldAddr); ok && prog.FieldVar(fa) != nil && prog.FieldVar(fa).Pos() == f.Pos() {
								return true
							}
						}
						return prog.Reaches(c.Call.Value, func(w ssa.Value) bool {
							fa, ok := w.(*ssa.FieldAddr)
							return ok && prog.FieldVar(fa) != nil && prog.FieldVar(fa).Pos() == f.Pos()
						})
					})
					if !isFilter {
						continue
					}
					n++
					var inner *prog.Loop
					for _, l := range loops {
						if l.Body[b] && (inner == nil || len(l.Body) < len(inner.Body)) {
							inner = l
						}
					}
					ok := inner != nil
					if ok {
						for _, s := range b.Succs {
							if !inner.Body[s] {
								ok = false
							}
						}
					}
					x.check(ok, fmt.Sprintf("func=%s filter-test#%d both-edges-stay-in-the-event-loop", prog.FnName(fn), n), x.pos(iff),
						"the filtered edge goes on with the next event", "an edge of the filter test leaves the loop over the batch: the events queued behind a filtered one are not delivered to that subscriber, and its subscription stays open")
				}
			}
			if n < 1 {
				x.C.Vacuous(x.id()+" tests of the subscriber filter in the fan-out", n, 1)
			}
		}})

	register(&Rule{ID: "O6.removed", Min: 1, Text: "watchers are told about a removal: every success return of packs.PushPull that does not pass the launch of the publishing goroutine (Backend.Go with a body that calls PubSub.Publish) lies behind the false edge of a test of the request pack's IsRemoved. A RemoveDocument request of a client that has nothing left to push stores the removal with no pushed change; if only len(pushed) decides the launch, nobody watching the document learns that it is gone",
		Run: func(x *Ctx) {
			p := x.pipe()
			if !p.ok {
				return
			}
			pp := p.PushPull
			k := "func=" + prog.FnName(pp)
			beGo := x.P.FnObj("server/backend.(*Backend).Go")
			publish := x.P.FnObj(psPkg + ".(*PubSub).Publish")
			removed := x.P.Field("pkg/document/change.Pack.IsRemoved")
			if beGo == nil || publish == nil || removed == nil {
				x.C.Unresolved(x.id(), "Backend.Go / PubSub.Publish / change.Pack.IsRemoved")
				return
			}
			var launch ssa.CallInstruction
			for _, c := range callsToIn(pp, beGo) {
				for _, a := range c.Common().Args {
					if mc, ok := a.(*ssa.MakeClosure); ok {
						if f, ok := mc.Fn.(*ssa.Function); ok && len(callsToIn(f, publish)) > 0 {
							launch = c
						}
					}
				}
			}
			if launch == nil {
				x.fail(k+" publish-after-removal", x.fpos(pp), "PushPull no longer starts a goroutine that publishes the change event")
				return
			}
			for i, r := range successReturns(pp) {
				x.guardedOrVia(fmt.Sprintf("%s ok-return#%d published-or-not-a-removal", k, i+1), r, []Cmp{isFalse(vpField(removed))}, []ssa.Instruction{launch},
					"a request that removed the document always starts the publisher goroutine", "a request can remove the document and return success without publishing the change event: watchers are never told that the document is gone")
			}
		}})

	register(&Rule{ID: "CP.ahead", Min: 1, Text: "a checkpoint ahead of the document is refused before anything is stored: in the function of package packs that calls Database.CreateChangeInfos there is a test of (request checkpoint ServerSeq > DocInfo.ServerSeq), and the store is not reachable from the edge on which it holds. The later test of the same relation in the pull runs after the changes were committed: the request fails, the client's checkpoint is not saved, and the retry stores the same (actor, clientSeq) again under new sequence numbers",
		Run: func(x *Ctx) {
			p := x.pipe()
			if !p.ok || p.PushCall == nil {
				return
			}
			cpSS := x.P.Field("pkg/document/change.Checkpoint.ServerSeq")
			docSS := x.P.Field("server/backend/database.DocInfo.ServerSeq")
			if cpSS == nil || docSS == nil {
				x.C.Unresolved(x.id(), "Checkpoint.ServerSeq / DocInfo.ServerSeq")
				return
			}
			x.rejectOn("func="+prog.FnName(p.Pusher)+" checkpoint-ahead-never-reaches-the-store", p.PushCall, Cmp{L: vpField(cpSS), R: vpField(docSS), Want: GT})
		}})

	register(&Rule{ID: "REV.uncond", Min: 2, Text: "whether a restored value gets a fresh identity is decided by the operation alone: in Document.executeUndoRedo every call of SetCreatedAt (the re-ticketing of the value an undo/redo re-inserts) is reached from the type test of the operation with no further branch in between — walking the dominator chain upwards from the call, the first branching block is the one that tests the type assertion. The change is pushed as executed; a re-ticketing that also depends on the undoing replica's state (is the old tombstone still here?) sends the original identity exactly when the peers still hold the tombstone, and their garbage collection then deletes the live element",
		Run: func(x *Ctx) {
			fn := x.fn(docPkg + ".(*Document).executeUndoRedo")
			if fn == nil {
				return
			}
			n := 0
			for _, c := range prog.CallsIn(fn) {
				if !c.Common().IsInvoke() || c.Common().Method.Name() != "SetCreatedAt" {
					continue
				}
				n++
				ok := false
				for b := c.Block(); b != nil; {
					d := b.Idom()
					if d == nil {
						break
					}
					if iff := prog.IfOf(d); iff != nil {
						ok = prog.DependsOn(iff.Cond, func(v ssa.Value) bool {
							ex, isEx := v.(*ssa.Extract)
							if !isEx {
								return false
							}
							ta, isTA := ex.Tuple.(*ssa.TypeAssert)
							return isTA && ta.CommaOk && ex.Index == 1
						})
						break
					}
					b = d
				}
				x.check(ok, fmt.Sprintf("func=%s SetCreatedAt#%d decided-by-the-operation-type-alone", prog.FnName(fn), n), x.pos(c),
					"the nearest branch above the re-ticketing is the type test", "the re-ticketing of a restored value is under a further condition: replicas in different states put different identities on the wire")
			}
			if n < 2 {
				x.C.Vacuous(x.id()+" SetCreatedAt calls in executeUndoRedo", n, 2)
			}
		}})

	register(&Rule{ID: "YSON.sign", Min: 1, Text: "the reader's literal patterns cover what the writer emits for both signs: every constant pattern handed to regexp.MustCompile/Compile in package yson that names a constructor with an integer payload (contains `Long\\(` or `Int\\(`) matches, in full, that constructor's literal for the extreme negative and the extreme positive payload (strconv's decimal form, which is what the writer's %d prints). The pattern is a compile-time constant; the checker compiles it and decides membership of the two literals — nothing of the repository is run. A pattern without the sign lets Long(-N) fall through to the generic rewriting, which reads it through a float64 (the path YSON.long accepts only as the fallback): -9007199254740993 comes back as -9007199254740992",
		Run: func(x *Ctx) {
			pk, ok := x.P.Syntax(ysonPkgRel)
			if !ok {
				x.C.Unresolved(x.id(), "package yson syntax")
				return
			}
			type ctor struct{ marker, lo, hi string }
			ctors := []ctor{
				{`Long\(`, "Long(-9223372036854775808)", "Long(9223372036854775807)"},
				{`Int\(`, "Int(-2147483648)", "Int(2147483647)"},
			}
			n := 0
			for _, f := range pk.Syntax {
				ast.Inspect(f, func(nd ast.Node) bool {
					ce, ok := nd.(*ast.CallExpr)
					if !ok || len(ce.Args) != 1 {
						return true
					}
					var obj types.Object
					switch fun := ce.Fun.(type) {
					case *ast.SelectorExpr:
						obj = pk.TypesInfo.Uses[fun.Sel]
					case *ast.Ident:
						obj = pk.TypesInfo.Uses[fun]
					}
					if obj == nil || obj.Pkg() == nil || obj.Pkg().Path() != "regexp" || !(obj.Name() == "MustCompile" || obj.Name() == "Compile") {
						return true
					}
					tv, ok := pk.TypesInfo.Types[ce.Args[0]]
					if !ok || tv.Value == nil || tv.Value.Kind() != constant.String {
						return true
					}
					pat := constant.StringVal(tv.Value)
					pos := x.P.Pos(ce.Pos())
					for _, c := range ctors {
						i := strings.Index(pat, c.marker)
						if i < 0 {
							continue
						}
						// the innermost integer constructor of the pattern decides (DedupCounter\(Int\(…): Int)
						if c.marker == `Long\(` && strings.Contains(pat, `Int\(`) {
							continue
						}
						n++
						re, err := regexp.Compile(pat)
						if err != nil {
							x.fail(fmt.Sprintf("pattern#%d compiles", n), pos, "the constant pattern does not compile: "+err.Error())
							continue
						}
						// the pattern may have a prefix before and a suffix behind the constructor literal: cut it at the marker and
						// behind the payload's closing parenthesis, and let the rest of the pattern match its own literal text
						covers := func(lit string) bool {
							pre, post := literalAround(pat, c.marker)
							s := pre + lit + post
							return re.FindString(s) == s
						}
						x.check(covers(c.lo) && covers(c.hi), fmt.Sprintf("pattern-for=%s #%d accepts-both-signs", strings.TrimSuffix(c.marker, `\(`), n), pos,
							"the pattern matches the constructor's literal for the smallest and the largest payload", "the pattern does not match the literal the writer emits for a negative (or the largest) payload: such values take the generic rewriting and are read through a float64")
					}
					return true
				})
			}
			if n < 1 {
				x.C.Vacuous(x.id()+" constant patterns for integer constructors", n, 1)
			}
		}})
}

// literalAround returns the literal text a pattern demands in front of the
// marker and behind the payload's closing `\)`: the pattern's own text with
// the escapes of parentheses and commas removed. Only patterns whose
// surroundings are literal (no operators) are given a non-empty context; for
// others the constructor literal alone is tested, which FindString then has to
// match in full.
func literalAround(pat, marker string) (string, string) {
	i := strings.Index(pat, marker)
	pre := pat[:i]
	rest := pat[i+len(marker):]
	j := strings.Index(rest, `\)`)
	post := ""
	if j >= 0 {
		post = rest[j+2:]
	}
	unesc := func(s string) (string, bool) {
		var b strings.Builder
		for k := 0; k < len(s); k++ {
			ch := s[k]
			if ch == '\\' && k+1 < len(s) && strings.ContainsRune(`().,[]{}+*?|^$\`, rune(s[k+1])) {
				b.WriteByte(s[k+1])
				k++
				continue
			}
			if strings.ContainsRune(`()[]{}+*?|^$.\`, rune(ch)) {
				return "", false
			}
			b.WriteByte(ch)
		}
		return b.String(), true
	}
	p1, ok1 := unesc(pre)
	p2, ok2 := unesc(post)
	if !ok1 || !ok2 {
		return "", ""
	}
	return p1, p2
}
