package rules

import (
	"fmt"
	"go/ast"
	"go/constant"
	"go/token"
	"go/types"
	"sort"
	"strings"

	"yv/internal/prog"

	"golang.org/x/tools/go/ssa"
)

const (
	apiPkg  = "api/yorkie/v1"
	convPkg = "api/converter"
	opsPkg  = "pkg/document/operations"
)

// ---------------------------------------------------------------------------
// data-plane message closure
// ---------------------------------------------------------------------------

// apiStruct returns the named api message struct behind t (pointer stripped).
func (x *Ctx) apiStruct(t types.Type) *types.Named {
	if p, ok := t.(*types.Pointer); ok {
		t = p.Elem()
	}
	n, ok := t.(*types.Named)
	if !ok || n.Obj().Pkg() == nil || n.Obj().Pkg().Path() != prog.Mod+"/"+apiPkg {
		return nil
	}
	if _, ok := n.Underlying().(*types.Struct); !ok {
		return nil
	}
	return n
}

// messageClosure returns the api message types (and oneof wrapper types)
// reachable through exported field types from the roots.
func (x *Ctx) messageClosure(roots ...string) []*types.Named {
	pk := x.P.Pkg(apiPkg)
	if pk == nil {
		x.C.Unresolved(x.id(), apiPkg)
		return nil
	}
	// oneof wrappers: structs of the api package implementing an unexported interface isX_Y
	wrappers := map[*types.Named][]*types.Named{} // interface -> wrapper structs
	sc := pk.Scope()
	var ifaces []*types.Named
	for _, name := range sc.Names() {
		if tn, ok := sc.Lookup(name).(*types.TypeName); ok {
			if n, ok := tn.Type().(*types.Named); ok && types.IsInterface(n) && strings.HasPrefix(name, "is") {
				ifaces = append(ifaces, n)
			}
		}
	}
	for _, name := range sc.Names() {
		tn, ok := sc.Lookup(name).(*types.TypeName)
		if !ok {
			continue
		}
		n, ok := tn.Type().(*types.Named)
		if !ok {
			continue
		}
		if _, isStruct := n.Underlying().(*types.Struct); !isStruct {
			continue
		}
		for _, it := range ifaces {
			if types.Implements(types.NewPointer(n), it.Underlying().(*types.Interface)) {
				wrappers[it] = append(wrappers[it], n)
			}
		}
	}
	seen := map[*types.Named]bool{}
	var order []*types.Named
	var visit func(t types.Type)
	visit = func(t types.Type) {
		switch tt := t.(type) {
		case *types.Pointer:
			visit(tt.Elem())
		case *types.Slice:
			visit(tt.Elem())
		case *types.Map:
			visit(tt.Elem())
		case *types.Named:
			if tt.Obj().Pkg() == nil || tt.Obj().Pkg() != pk {
				return
			}
			if types.IsInterface(tt) {
				for _, w := range wrappers[tt] {
					visit(w)
				}
				return
			}
			st, ok := tt.Underlying().(*types.Struct)
			if !ok || seen[tt] {
				return
			}
			seen[tt] = true
			order = append(order, tt)
			for i := 0; i < st.NumFields(); i++ {
				if st.Field(i).Exported() {
					visit(st.Field(i).Type())
				}
			}
		}
	}
	for _, r := range roots {
		n := x.P.Named(apiPkg + "." + r)
		if n == nil {
			x.C.Unresolved(x.id(), apiPkg+"."+r)
			continue
		}
		visit(n)
	}
	sort.Slice(order, func(i, j int) bool { return order[i].Obj().Name() < order[j].Obj().Name() })
	return order
}

type fieldUse struct {
	writes map[*types.Named]map[string]map[string]bool // msg -> function -> fields written
	reads  map[*types.Named]map[string]map[string]bool // msg -> function -> fields read
}

// messageFieldUse scans the functions for writes to and reads of api message fields.
func (x *Ctx) messageFieldUse(fns []*ssa.Function) *fieldUse {
	u := &fieldUse{writes: map[*types.Named]map[string]map[string]bool{}, reads: map[*types.Named]map[string]map[string]bool{}}
	add := func(m map[*types.Named]map[string]map[string]bool, n *types.Named, fn, f string) {
		if m[n] == nil {
			m[n] = map[string]map[string]bool{}
		}
		if m[n][fn] == nil {
			m[n][fn] = map[string]bool{}
		}
		m[n][fn][f] = true
	}
	for _, fn := range fns {
		root := fn
		for root.Parent() != nil {
			root = root.Parent()
		}
		name := prog.FnName(root)
		for _, b := range fn.Blocks {
			for _, ins := range b.Instrs {
				switch t := ins.(type) {
				case *ssa.FieldAddr:
					n := x.apiStruct(t.X.Type())
					if n == nil {
						continue
					}
					f := prog.FieldVar(t)
					if f == nil || !f.Exported() {
						continue
					}
					isW, isR := false, false
					for _, r := range *t.Referrers() {
						if st, ok := r.(*ssa.Store); ok && st.Addr == ssa.Value(t) {
							isW = true
						} else if _, dbg := r.(*ssa.DebugRef); !dbg {
							isR = true
						}
					}
					if isW {
						add(u.writes, n, name, f.Name())
					}
					if isR {
						add(u.reads, n, name, f.Name())
					}
				case *ssa.Field:
					n := x.apiStruct(t.X.Type())
					if n == nil {
						continue
					}
					if f := prog.FieldVar(t); f != nil && f.Exported() {
						add(u.reads, n, name, f.Name())
					}
				case ssa.CallInstruction:
					o := prog.CallObj(t)
					if o == nil || !strings.HasPrefix(o.Name(), "Get") {
						continue
					}
					sig := o.Type().(*types.Signature)
					if sig.Recv() == nil {
						continue
					}
					n := x.apiStruct(sig.Recv().Type())
					if n == nil {
						continue
					}
					fname := strings.TrimPrefix(o.Name(), "Get")
					if st, ok := n.Underlying().(*types.Struct); ok {
						has := false
						for i := 0; i < st.NumFields(); i++ {
							if st.Field(i).Name() == fname {
								has = true
							}
						}
						if !has {
							// a oneof convenience getter (GetSet() on Operation): it reads the oneof field
							for i := 0; i < st.NumFields(); i++ {
								if st.Field(i).Exported() && types.IsInterface(st.Field(i).Type()) {
									add(u.reads, n, name, st.Field(i).Name())
								}
							}
							continue
						}
					}
					add(u.reads, n, name, fname)
				}
			}
		}
	}
	return u
}

func unionOf(m map[string]map[string]bool) map[string]bool {
	out := map[string]bool{}
	for _, fs := range m {
		for f := range fs {
			out[f] = true
		}
	}
	return out
}

func setDiff(a, b map[string]bool) []string {
	var out []string
	for k := range a {
		if !b[k] {
			out = append(out, k)
		}
	}
	sort.Strings(out)
	return out
}

func setKeys(a map[string]bool) []string {
	var out []string
	for k := range a {
		out = append(out, k)
	}
	sort.Strings(out)
	return out
}

// closureOf returns the functions reachable from roots over synchronous call
// edges, staying inside the given module-relative package prefixes.
func (x *Ctx) closureOf(roots []*ssa.Function, pkgs []string) map[*ssa.Function]bool {
	ci := x.calls()
	seen := map[*ssa.Function]bool{}
	inScope := func(f *ssa.Function) bool {
		pp := strings.TrimPrefix(prog.PkgOf(f), prog.Mod+"/")
		for _, p := range pkgs {
			if pp == p || strings.HasPrefix(pp, p+"/") {
				return true
			}
		}
		return false
	}
	work := append([]*ssa.Function{}, roots...)
	for len(work) > 0 {
		f := work[len(work)-1]
		work = work[:len(work)-1]
		if f == nil || seen[f] || !inScope(f) {
			continue
		}
		seen[f] = true
		for _, e := range ci.out[f] {
			work = append(work, e.Callee)
		}
	}
	return seen
}

// structFieldsUsed collects reads/writes of struct fields of named types of the
// given packages inside fns: key "Type.field".
func structFieldsUsed(fns map[*ssa.Function]bool, pkgSuffixes []string) (reads, writes map[string]bool) {
	reads, writes = map[string]bool{}, map[string]bool{}
	for fn := range fns {
		for _, b := range fn.Blocks {
			for _, ins := range b.Instrs {
				var xv ssa.Value
				switch t := ins.(type) {
				case *ssa.FieldAddr:
					xv = t.X
				case *ssa.Field:
					xv = t.X
				default:
					continue
				}
				t := xv.Type()
				if p, ok := t.Underlying().(*types.Pointer); ok {
					t = p.Elem()
				}
				n, ok := t.(*types.Named)
				if !ok || n.Obj().Pkg() == nil {
					continue
				}
				okPkg := false
				for _, s := range pkgSuffixes {
					if strings.HasSuffix(n.Obj().Pkg().Path(), s) {
						okPkg = true
					}
				}
				if !okPkg {
					continue
				}
				f := prog.FieldVar(ins.(ssa.Value))
				if f == nil {
					continue
				}
				key := n.Origin().Obj().Name() + "." + f.Name()
				if fa, ok := ins.(*ssa.FieldAddr); ok {
					w, r := false, false
					for _, rf := range *fa.Referrers() {
						if st, ok := rf.(*ssa.Store); ok && st.Addr == ssa.Value(fa) {
							w = true
						} else if _, dbg := rf.(*ssa.DebugRef); !dbg {
							r = true
						}
					}
					if w {
						writes[key] = true
					}
					if r {
						reads[key] = true
					}
				} else {
					reads[key] = true
				}
			}
		}
	}
	return
}

// derived fields: not carried by any encoding because they are rebuilt; each names
// the function that rebuilds it, which must be in the decoder closure.
var derivedFields = map[string]string{
	"ElementRHT.nodeMapByKey":           "(*ElementRHT).SetWithExecutedAt|(*ElementRHT).Set",
	"RGATreeList.elementMapByCreatedAt": "(*RGATreeList).insertAfter|(*RGATreeList).Add",
	"RGATreeList.last":                  "(*RGATreeList).insertAfter|(*RGATreeList).Add",
	"RGATreeList.nodeMapByCreatedAt":    "(*RGATreeList).insertAfter|(*RGATreeList).Add",
	"RGATreeList.nodeMapByIndex":        "(*RGATreeList).insertAfter|(*RGATreeList).Add",
	"RGATreeListNode.indexNode":         "newRGATreeListNode|newRGATreeListNodeAfter",
	"RGATreeListNode.prev":              "newRGATreeListNodeAfter|(*RGATreeList).insertAfter",
	"ElementEntry.positionNode":         "(*RGATreeList).insertAfter|(*RGATreeList).Add",
	"RGATreeSplit.treeByID":             "NewRGATreeSplit",
	"RGATreeSplit.treeByIndex":          "NewRGATreeSplit",
	"RGATreeSplit.pendingGCPairs":       "transient buffer drained by edit/Style",
	"RGATreeSplitNode.indexNode":        "NewRGATreeSplitNode",
	"RGATreeSplitNode.prev":             "(*RGATreeSplitNode).SetPrev|(*RGATreeSplit).InsertAfter",
	"RGATreeSplitNode.insNext":          "(*RGATreeSplitNode).SetInsPrev",
	"RGATreeSplitNodeID.cachedKey":      "cache of key()",
	"Ticket.cachedKey":                  "cache of Key()",
	"Ticket.cachedActorIDBase64":        "cache of ActorIDBase64()",
	"Tree.pendingGCPairs":               "transient buffer",
	"Tree.NodeMapByID":                  "index rebuilt by NewTree",
	"TreeNode.mergedInto":               "re-derived from MergedFrom by rebuildMergeState",
	"RHT.numberOfRemovedElement":        "count re-derived by SetInternal",
}

func init() {
	// -----------------------------------------------------------------------
	register(&Rule{ID: "S1", Min: 7, Text: "dispatch exhaustiveness: every type switch over a closed sum (operations.Operation, crdt.Element, a protobuf oneof interface) that handles more than half of the sum's members is a dispatch site and must have a case for every member declared in the interface's package — in the converter (ToOperations, FromOperations, toJSONElement, toJSONElementSimple, fromJSONElement), json.toOriginal and yson.FromCRDT; crdt.NewRoot handles every element type that has GC pairs",
		Run: func(x *Ctx) {
			sums := map[*types.Named][]*types.Named{}
			sumOf := func(it *types.Named) []*types.Named {
				if m, ok := sums[it]; ok {
					return m
				}
				var out []*types.Named
				for _, n := range x.P.Implementers(it) {
					if n.Obj().Pkg() == it.Obj().Pkg() {
						out = append(out, n)
					}
				}
				sums[it] = out
				return out
			}
			opI := x.P.Named(opsPkg + ".Operation")
			elI := x.P.Named(crdtPkg + ".Element")
			if opI == nil || elI == nil {
				x.C.Unresolved(x.id(), "operations.Operation / crdt.Element")
				return
			}
			x.C.Count("operation types", len(sumOf(opI)))
			x.C.Count("element types", len(sumOf(elI)))
			if len(sumOf(opI)) < 10 || len(sumOf(elI)) < 6 {
				x.C.Vacuous(x.id()+" sum members", len(sumOf(opI))+len(sumOf(elI)), 16)
			}
			isSum := func(t types.Type) *types.Named {
				n, ok := t.(*types.Named)
				if !ok || !types.IsInterface(n) || n.Obj().Pkg() == nil {
					return nil
				}
				if n == opI || n == elI {
					return n
				}
				if n.Obj().Pkg().Path() == prog.Mod+"/"+apiPkg && strings.HasPrefix(n.Obj().Name(), "is") {
					return n
				}
				return nil
			}
			for path, pk := range x.P.ByPth {
				if !prog.IsProd(path) {
					continue
				}
				for _, f := range pk.Syntax {
					var fnName string
					ast.Inspect(f, func(nd ast.Node) bool {
						if fd, ok := nd.(*ast.FuncDecl); ok {
							fnName = fd.Name.Name
							if fd.Recv != nil && len(fd.Recv.List) > 0 {
								fnName = types.ExprString(fd.Recv.List[0].Type) + "." + fnName
							}
						}
						ts, ok := nd.(*ast.TypeSwitchStmt)
						if !ok {
							return true
						}
						var xe ast.Expr
						switch a := ts.Assign.(type) {
						case *ast.AssignStmt:
							if ta, ok := a.Rhs[0].(*ast.TypeAssertExpr); ok {
								xe = ta.X
							}
						case *ast.ExprStmt:
							if ta, ok := a.X.(*ast.TypeAssertExpr); ok {
								xe = ta.X
							}
						}
						if xe == nil {
							return true
						}
						it := isSum(pk.TypesInfo.TypeOf(xe))
						if it == nil {
							return true
						}
						members := sumOf(it)
						covered := map[*types.Named]bool{}
						for _, c := range ts.Body.List {
							for _, e := range c.(*ast.CaseClause).List {
								t := pk.TypesInfo.TypeOf(e)
								if p, ok := t.(*types.Pointer); ok {
									t = p.Elem()
								}
								if n, ok := t.(*types.Named); ok {
									covered[n] = true
								}
							}
						}
						n := 0
						var missing []string
						for _, m := range members {
							if covered[m] {
								n++
							} else {
								missing = append(missing, m.Obj().Name())
							}
						}
						if n*2 <= len(members) {
							return true // not a dispatch over the whole sum
						}
						key := fmt.Sprintf("dispatch pkg=%s func=%s over=%s", strings.TrimPrefix(path, prog.Mod+"/"), fnName, it.Obj().Name())
						x.check(len(missing) == 0, key, x.P.Pos(ts.Pos()), fmt.Sprintf("all %d members handled", len(members)),
							"no case for "+strings.Join(missing, ", ")+": values of that type fall into the default/unsupported branch")
						return true
					})
				}
			}
			// NewRoot: every element type whose (pointer) method set has GCPairs is re-registered
			if fn := x.fn(crdtPkg + ".NewRoot"); fn != nil {
				handled := map[string]bool{}
				fns := append([]*ssa.Function{fn}, prog.Closures(fn)...)
				for _, g := range fns {
					for _, b := range g.Blocks {
						for _, ins := range b.Instrs {
							if ta, ok := ins.(*ssa.TypeAssert); ok {
								t := ta.AssertedType
								if p, ok := t.(*types.Pointer); ok {
									t = p.Elem()
								}
								if n, ok := t.(*types.Named); ok {
									handled[n.Obj().Name()] = true
								}
							}
						}
					}
				}
				for _, m := range sumOf(elI) {
					obj, _, _ := types.LookupFieldOrMethod(types.NewPointer(m), true, m.Obj().Pkg(), "GCPairs")
					if _, has := obj.(*types.Func); !has {
						continue
					}
					x.check(handled[m.Obj().Name()], "func=crdt.NewRoot re-registers="+m.Obj().Name(), x.fpos(fn), "GC pairs of this element type are re-registered on load",
						"crdt.NewRoot has no case for "+m.Obj().Name()+", which has GC pairs: tombstones inside it are never collected after a snapshot load")
				}
				// removed elements are re-registered
				reg := x.P.FnObj(crdtPkg + ".(*Root).RegisterRemovedElementPair")
				x.check(len(callsToIn(fn, reg)) > 0, "func=crdt.NewRoot re-registers=removed-elements", x.fpos(fn), "removed elements are re-registered for GC", "crdt.NewRoot no longer re-registers removed elements for garbage collection")
			}
		}})

	// -----------------------------------------------------------------------
	register(&Rule{ID: "S2", Min: 50, Text: "message-field symmetry on the data plane: for every protobuf message type reachable from ChangePack and Snapshot, the set of fields written by the converter/packs/database code equals the set of fields it reads (a field that is encoded but never decoded, or decoded but never encoded, is dropped on the wire); and any two functions that build the same message type set the same fields unless listed as variants",
		Run: func(x *Ctx) {
			msgs := x.messageClosure("ChangePack", "Snapshot")
			x.C.Count("data-plane message types", len(msgs))
			fns := x.P.FuncsIn(convPkg, "server/packs", dbPkg)
			u := x.messageFieldUse(fns)
			// builder variants that legitimately differ (one symbol, one reason)
			variants := map[string]string{
				"JSONElementSimple":  "toJSONElementSimple sets Value only for the types that carry a payload",
				"Operation_TreeEdit": "optional split tickets",
				"ChangePack":         "server and client packs set different optional fields",
				"TreeNode":           "optional attributes and merge provenance",
				"TextNode":           "optional attributes",
				"Change":             "optional presence",
				"Presence":           "",
				"PresenceChange":     "",
			}
			readVariants := map[string]string{
				"Operation_TreeEdit": "NormalizeStoredOperations inspects three fields of stored operations; it is not a decoder",
			}
			for _, m := range msgs {
				name := m.Obj().Name()
				st := m.Underlying().(*types.Struct)
				exported := 0
				for i := 0; i < st.NumFields(); i++ {
					if st.Field(i).Exported() {
						exported++
					}
				}
				E, D := unionOf(u.writes[m]), unionOf(u.reads[m])
				k := "message=" + name
				if exported == 0 {
					continue
				}
				if len(E) == 0 && len(D) == 0 {
					x.C.Add(obTrivial(x.id(), k+" fields", "", "not built or read in the scoped packages"))
					continue
				}
				encOnly, decOnly := setDiff(E, D), setDiff(D, E)
				ok := len(encOnly) == 0 && len(decOnly) == 0
				d := ""
				if len(encOnly) > 0 {
					d += "encoded but never decoded: " + strings.Join(encOnly, ",") + " "
				}
				if len(decOnly) > 0 {
					d += "decoded but never encoded: " + strings.Join(decOnly, ",")
				}
				x.check(ok, k+" encoded=decoded", x.P.Pos(m.Obj().Pos()), fmt.Sprintf("fields %v are both written and read", setKeys(E)), d)
				// reader agreement: two decoders of one message type read the same fields
				if _, isVariant := readVariants[name]; !isVariant && len(u.reads[m]) >= 2 {
					var fnsR []string
					for f := range u.reads[m] {
						if len(u.reads[m][f]) >= 2 { // a decoder, not a pass-through that touches one field
							fnsR = append(fnsR, f)
						}
					}
					sort.Strings(fnsR)
					for i := 1; i < len(fnsR); i++ {
						a, b := u.reads[m][fnsR[0]], u.reads[m][fnsR[i]]
						x.check(len(setDiff(a, b))+len(setDiff(b, a)) == 0, k+" decoders-agree "+fnsR[0]+" vs "+fnsR[i], x.P.Pos(m.Obj().Pos()), "same field set",
							fmt.Sprintf("%s reads %v, %s reads %v", fnsR[0], setKeys(a), fnsR[i], setKeys(b)))
					}
				}
				// builder agreement
				if _, isVariant := variants[name]; isVariant || len(u.writes[m]) < 2 {
					continue
				}
				var fnsW []string
				for f := range u.writes[m] {
					fnsW = append(fnsW, f)
				}
				sort.Strings(fnsW)
				first := u.writes[m][fnsW[0]]
				for _, f := range fnsW[1:] {
					a, b := setDiff(first, u.writes[m][f]), setDiff(u.writes[m][f], first)
					x.check(len(a)+len(b) == 0, k+" builders-agree "+fnsW[0]+" vs "+f, x.P.Pos(m.Obj().Pos()), "same field set",
						fmt.Sprintf("%s sets %v, %s sets %v", fnsW[0], setKeys(first), f, setKeys(u.writes[m][f])))
				}
			}
		}})

	// -----------------------------------------------------------------------
	register(&Rule{ID: "S3", Min: 60, Text: "struct-field coverage of the persistent CRDT model: every field of the CRDT structs (elements, RHT/RGA/tree nodes, tickets) is read in the call closure of the snapshot encoder (converter.SnapshotToBytes) and written in the closure of the decoder (converter.BytesToSnapshot + crdt.NewRoot), or is in the derived/transient table; every field of the ten operation structs is read in the closure of ToOperations and written in the closure of FromOperations or is local-only",
		Run: func(x *Ctx) {
			scope := []string{convPkg, "pkg/document/crdt", "pkg/document/time", "pkg/index", "pkg/splay", "pkg/llrb", "pkg/treelist", opsPkg}
			enc := x.closureOf([]*ssa.Function{x.fn(convPkg + ".SnapshotToBytes")}, scope)
			dec := x.closureOf([]*ssa.Function{x.fn(convPkg + ".BytesToSnapshot"), x.fn(crdtPkg + ".NewRoot")}, scope)
			x.C.Count("snapshot encoder closure", len(enc))
			x.C.Count("snapshot decoder closure", len(dec))
			if len(enc) < 40 || len(dec) < 80 {
				x.C.Vacuous(x.id()+" closures", len(enc)+len(dec), 120)
			}
			er, _ := structFieldsUsed(enc, []string{"/pkg/document/crdt", "/pkg/document/time"})
			_, dw := structFieldsUsed(dec, []string{"/pkg/document/crdt", "/pkg/document/time"})
			targets := []string{"Primitive", "Counter", "Object", "ElementRHT", "ElementRHTNode", "Array", "RGATreeList", "RGATreeListNode", "ElementEntry", "Text", "RGATreeSplit", "RGATreeSplitNode", "RGATreeSplitNodeID", "TextValue", "RHT", "RHTNode", "Tree", "TreeNode", "TreeNodeID"}
			check := func(pkgRel, tn string, reads, writes map[string]bool, local map[string]string) {
				n := x.P.Named(pkgRel + "." + tn)
				if n == nil {
					x.C.Unresolved(x.id(), pkgRel+"."+tn)
					return
				}
				st, ok := n.Underlying().(*types.Struct)
				if !ok {
					return
				}
				for i := 0; i < st.NumFields(); i++ {
					f := st.Field(i)
					key := tn + "." + f.Name()
					k := "field=" + key
					if why, ok := local[key]; ok {
						x.C.Add(obTrivial(x.id(), k, x.P.Pos(f.Pos()), "derived/transient: "+why))
						continue
					}
					r, w := reads[key], writes[key]
					d := ""
					if !r {
						d += "never read by the encoder closure; "
					}
					if !w {
						d += "never written by the decoder closure"
					}
					x.check(r && w, k, x.P.Pos(f.Pos()), "read by the encoder and written by the decoder", "persistent field "+key+" is "+d+": it is lost in the encoding")
				}
			}
			for _, tn := range targets {
				check(crdtPkg, tn, er, dw, derivedFields)
			}
			check(timePkg, "Ticket", er, dw, derivedFields)
			// operations
			oenc := x.closureOf([]*ssa.Function{x.fn(convPkg + ".ToOperations")}, []string{convPkg, opsPkg})
			odec := x.closureOf([]*ssa.Function{x.fn(convPkg + ".FromOperations")}, []string{convPkg, opsPkg})
			or, _ := structFieldsUsed(oenc, []string{"/pkg/document/operations"})
			_, ow := structFieldsUsed(odec, []string{"/pkg/document/operations"})
			opLocal := map[string]string{
				"Edit.isUndoOp":                "local-only flag of a reverse operation",
				"Edit.skipReverse":             "local-only",
				"TreeEdit.isUndoOp":            "local-only",
				"TreeEdit.restore":             "local-only",
				"TreeEdit.fromIdx":             "local-only (pre-edit index for history reconcile)",
				"TreeEdit.toIdx":               "local-only (pre-edit index for history reconcile)",
				"TreeEdit.fromPath":            "local-only",
				"TreeEdit.toPath":              "local-only",
				"TreeEdit.insertedContentSize": "local-only (history reconcile)",
				"TreeEdit.lastFromIdx":         "local-only (history reconcile)",
				"TreeEdit.lastToIdx":           "local-only (history reconcile)",
				"TreeEdit.redoSplitLevel":      "local-only (redo bookkeeping)",
				"Remove.isUndoOp":              "local-only",
				"Add.isUndoOp":                 "local-only",
				"Set.isUndoOp":                 "local-only",
				"Move.isUndoOp":                "local-only",
				"Increase.isUndoOp":            "local-only",
				"Style.isUndoOp":               "local-only",
				"TreeStyle.isUndoOp":           "local-only",
				"ArraySet.isUndoOp":            "local-only",
			}
			if opI := x.P.Named(opsPkg + ".Operation"); opI != nil {
				for _, m := range x.P.Implementers(opI) {
					if m.Obj().Pkg() != opI.Obj().Pkg() {
						continue
					}
					check(opsPkg, m.Obj().Name(), or, ow, opLocal)
				}
			}
		}})
}

func obTrivial(rule, key, pos, detail string) (o reportOb) {
	return reportOb{Rule: rule, Key: rule + ":" + key, Pos: pos, Status: "held", Detail: detail, Trivial: true}
}

func normName(s string) string {
	s = strings.ToLower(s)
	s = strings.TrimPrefix(s, "get")
	s = strings.ReplaceAll(s, "_", "")
	return s
}

func init() {
	register(&Rule{ID: "S2.name", Min: 40, Text: "no misdirected source in the encoders: when the converter stores into protobuf field F of a data-plane message a value obtained from a model accessor or field A (possibly through one conversion call such as ToTimeTicket), and the model type A was read from also has an accessor or field named exactly like F, then A must be that one — e.g. the position stamps of array slots (PositionCreatedAt, PositionMovedAt) are fed from the slot's position accessors, never from the element's CreatedAt",
		Run: func(x *Ctx) {
			msgs := map[*types.Named]bool{}
			for _, m := range x.messageClosure("ChangePack", "Snapshot") {
				msgs[m] = true
			}
			n := 0
			var pairs []string
			for _, fn := range x.P.FuncsIn(convPkg) {
				root := fn
				for root.Parent() != nil {
					root = root.Parent()
				}
				if !(strings.HasPrefix(root.Name(), "to") || strings.HasPrefix(root.Name(), "To")) {
					continue
				}
				for _, b := range fn.Blocks {
					for _, ins := range b.Instrs {
						st, ok := ins.(*ssa.Store)
						if !ok {
							continue
						}
						fa, ok := st.Addr.(*ssa.FieldAddr)
						if !ok {
							continue
						}
						m := x.apiStruct(fa.X.Type())
						if m == nil || !msgs[m] {
							continue
						}
						f := prog.FieldVar(fa)
						if f == nil || !f.Exported() {
							continue
						}
						// the source name: a model accessor call or field, looking through one converter call
						src := ""
						var srcRecv types.Type
						v := prog.Strip(st.Val)
						for depth := 0; depth < 3 && src == ""; depth++ {
							switch t := v.(type) {
							case *ssa.Call:
								o := prog.CallObj(t)
								name := ""
								if t.Call.IsInvoke() {
									name = t.Call.Method.Name()
								} else if o != nil {
									name = o.Name()
								}
								inConv := o != nil && o.Pkg() != nil && strings.HasSuffix(o.Pkg().Path(), "/"+convPkg)
								if inConv && len(t.Call.Args) >= 1 {
									v = prog.Strip(t.Call.Args[0])
									continue
								}
								if o != nil && o.Pkg() != nil && strings.Contains(o.Pkg().Path(), "/pkg/document/") {
									src = name
									if r := recvOf(t); r != nil {
										srcRecv = r.Type()
									}
								}
								depth = 3
							case *ssa.UnOp:
								if fl := prog.LoadedField(t); fl != nil && fl.Pkg() != nil && strings.Contains(fl.Pkg().Path(), "/pkg/document/") {
									src = fl.Name()
									if bs := prog.FieldBase(t); bs != nil {
										srcRecv = bs.Type()
									}
								}
								depth = 3
							case *ssa.Extract:
								v = t.Tuple
							default:
								depth = 3
							}
						}
						if src == "" {
							continue
						}
						n++
						F, A := normName(f.Name()), normName(src)
						ok2 := true
						better := ""
						if F != A && srcRecv != nil {
							// does the source's type offer something named exactly like the field?
							srcT := v.Type()
							ms := types.NewMethodSet(srcRecv)
							for i := 0; i < ms.Len(); i++ {
								mo := ms.At(i).Obj()
								sig, isSig := mo.Type().(*types.Signature)
								if normName(mo.Name()) == F && mo.Exported() && isSig && sig.Params().Len() == 0 && sig.Results().Len() == 1 && types.Identical(sig.Results().At(0).Type(), srcT) {
									better = mo.Name() + "()"
								}
							}
							t := srcRecv
							if p, isP := t.(*types.Pointer); isP {
								t = p.Elem()
							}
							if stt, isS := t.Underlying().(*types.Struct); isS {
								for i := 0; i < stt.NumFields(); i++ {
									if normName(stt.Field(i).Name()) == F && stt.Field(i).Exported() && types.Identical(stt.Field(i).Type(), srcT) {
										better = stt.Field(i).Name()
									}
								}
							}
							if better != "" {
								ok2 = false
							}
						}
						pairs = append(pairs, m.Obj().Name()+"."+f.Name()+"<-"+src)
						k := fmt.Sprintf("func=%s field=%s.%s source=%s", prog.FnName(root), m.Obj().Name(), f.Name(), src)
						x.check(ok2, k, x.pos(st), "no better-named source on the same object",
							"protobuf field "+m.Obj().Name()+"."+f.Name()+" is fed from "+src+" although the same object offers "+better+": the wrong stamp is written (for array slots: an element identity where the slot's position identity belongs makes the decoded list lose the position key)")
					}
				}
			}
			x.C.Count("encoder field<-accessor pairs", n)
		}})
}

func init() {
	register(&Rule{ID: "DC", Min: 25, Text: "copies are complete: for every DeepCopy method of a struct type in the document model, the change/presence packages and the database records, every field of the struct is read inside DeepCopy or the same-package functions it calls (a field DeepCopy does not read is silently reset in every copy — the clone handed to users, the cached server document, the record written back by the memory backend), unless the field is in the derived/transient table",
		Run: func(x *Ctx) {
			pkgs := []string{docPkg, changePkg, crdtPkg, timePkg, "pkg/document/presence/inner", dbPkg, "api/types", "pkg/document/json"}
			skip := map[string]string{
				"InternalDocument.onlineClients": "copied element-wise into a fresh map",
				"RGATreeSplitNode.next":          "chain link re-established by the list's own DeepCopy (the node copy is documented as 'without structural info')",
				"RGATreeSplitNode.insPrev":       "chain link re-established by the list's own DeepCopy",
				"InternalDocument.disableGC":     "client-side attachment option; InternalDocument.DeepCopy is used only for server-side documents (snapshot cache), which never set it — observed on the pinned tree, outside every property",
				"UserInfo.AccessedAt":            "control-plane timestamp that UserInfo.DeepCopy does not carry — observed on the pinned tree, outside every property (no user data is served from it)",
			}
			n := 0
			for _, fn := range x.P.FuncsIn(pkgs...) {
				if fn.Name() != "DeepCopy" || fn.Signature.Recv() == nil || fn.Parent() != nil {
					continue
				}
				if o := fn.Origin(); o != nil && o != fn {
					continue
				}
				rt := fn.Signature.Recv().Type()
				if p, ok := rt.(*types.Pointer); ok {
					rt = p.Elem()
				}
				nt, ok := rt.(*types.Named)
				if !ok {
					continue
				}
				st, ok := nt.Underlying().(*types.Struct)
				if !ok {
					continue
				}
				// closure within the package
				pkgRel := strings.TrimPrefix(prog.PkgOf(fn), prog.Mod+"/")
				clos := x.closureOf([]*ssa.Function{fn}, []string{pkgRel})
				reads := map[string]bool{}
				for g := range clos {
					for _, b := range g.Blocks {
						for _, ins := range b.Instrs {
							var xv ssa.Value
							switch t := ins.(type) {
							case *ssa.FieldAddr:
								xv = t.X
							case *ssa.Field:
								xv = t.X
							default:
								continue
							}
							if bn := namedOf(xv.Type()); bn != nil && bn.Obj() == nt.Origin().Obj() {
								if f := prog.FieldVar(ins.(ssa.Value)); f != nil {
									// a read (load or address passed on), not only a store
									if fa, isFA := ins.(*ssa.FieldAddr); isFA {
										onlyStore := true
										for _, r := range *fa.Referrers() {
											if s, ok := r.(*ssa.Store); !(ok && s.Addr == ssa.Value(fa)) {
												if _, dbg := r.(*ssa.DebugRef); !dbg {
													onlyStore = false
												}
											}
										}
										if onlyStore {
											continue
										}
									}
									reads[f.Name()] = true
								}
							}
						}
					}
				}
				// a struct copied as a whole value (`copied := *x`) reads every field
				whole := false
				for g := range clos {
					for _, b := range g.Blocks {
						for _, ins := range b.Instrs {
							if u, ok := ins.(*ssa.UnOp); ok && u.Op.String() == "*" {
								if bn := namedOf(u.Type()); bn != nil && bn.Obj() == nt.Origin().Obj() {
									if _, isStruct := u.Type().Underlying().(*types.Struct); isStruct {
										whole = true
									}
								}
							}
						}
					}
				}
				// composite literals built inside the copy (the result itself and nested records such as
				// ClientDocInfo inside ClientInfo.DeepCopy) set every field of their type
				for g := range clos {
					if g != fn && g.Parent() != fn {
						continue // callee DeepCopy methods are instances of their own
					}
					for _, b := range g.Blocks {
						for _, ins := range b.Instrs {
							al, ok := ins.(*ssa.Alloc)
							if !ok || al.Comment != "complit" {
								continue
							}
							un := namedOf(al.Type())
							if un == nil || un.Obj().Pkg() == nil || un.Obj().Pkg().Path() != prog.PkgOf(fn) {
								continue
							}
							ust, ok := un.Underlying().(*types.Struct)
							if !ok {
								continue
							}
							set := map[string]bool{}
							for _, r := range *al.Referrers() {
								if fa, ok := r.(*ssa.FieldAddr); ok {
									for _, rr := range *fa.Referrers() {
										if s2, ok := rr.(*ssa.Store); ok && s2.Addr == ssa.Value(fa) {
											set[prog.FieldVar(fa).Name()] = true
										}
									}
								}
							}
							if len(set) == 0 {
								continue // an empty value (the nil-receiver case), not a copy
							}
							for i := 0; i < ust.NumFields(); i++ {
								uf := ust.Field(i)
								if strings.HasPrefix(uf.Type().String(), "sync.") || strings.HasPrefix(uf.Type().String(), "sync/atomic.") {
									continue
								}
								ukey := un.Obj().Name() + "." + uf.Name()
								if _, ok := skip[ukey]; ok {
									continue
								}
								if _, ok := derivedFields[ukey]; ok {
									continue
								}
								n++
								x.check(set[uf.Name()], "literal-in="+prog.FnName(fn)+" type="+ukey, x.pos(al), "set in the copy",
									"the "+un.Obj().Name()+" built inside "+prog.FnName(fn)+" does not set field "+uf.Name()+": the copy silently resets it")
							}
						}
					}
				}
				for i := 0; i < st.NumFields(); i++ {
					f := st.Field(i)
					if _, isMutex := f.Type().(*types.Named); isMutex && strings.HasPrefix(f.Type().String(), "sync.") {
						continue
					}
					if strings.HasPrefix(f.Type().String(), "sync/atomic.") {
						continue
					}
					key := nt.Obj().Name() + "." + f.Name()
					n++
					k := "type=" + pkgRel + "." + key
					if why, ok := skip[key]; ok {
						x.C.Add(obTrivial(x.id(), k, x.P.Pos(f.Pos()), why))
						continue
					}
					if why, ok := derivedFields[key]; ok {
						x.C.Add(obTrivial(x.id(), k, x.P.Pos(f.Pos()), "derived: "+why))
						continue
					}
					x.check(whole || reads[f.Name()], k, x.P.Pos(f.Pos()), "copied by DeepCopy",
						"DeepCopy of "+nt.Obj().Name()+" never reads field "+f.Name()+": every copy silently loses it")
				}
			}
			x.C.Count("fields of types with a DeepCopy method", n)
		}})
}

// filteringAccessors: functions of the CRDT model that return a slice/map built by
// appending inside a loop *under a condition* (they leave elements out), as opposed
// to accessors that append every element they visit.
func (x *Ctx) filteringAccessors() map[*ssa.Function]string {
	out := map[*ssa.Function]string{}
	for _, fn := range x.P.FuncsIn(crdtPkg) {
		if fn.Parent() != nil || fn.Signature.Results().Len() == 0 || len(fn.Params) > 1 {
			continue
		}
		if _, isSlice := fn.Signature.Results().At(0).Type().Underlying().(*types.Slice); !isSlice {
			continue
		}
		for _, c := range builtinCalls(fn, "append") {
			// the loop: a block that dominates the append and is reachable from it
			var head *ssa.BasicBlock
			for _, b := range fn.Blocks {
				if b != c.Block() && b.Dominates(c.Block()) && prog.ReachableFrom(c.Block(), nil)[b] {
					head = b // innermost = the last such in dominator order
				}
			}
			if head == nil {
				continue
			}
			// is there a path from the loop head back to itself that avoids the append block?
			if reachesAvoiding(head.Succs[0], head, c.Block()) && head.Succs[0] != c.Block() {
				// find the deciding condition for the report
				cond := ""
				for _, b := range fn.Blocks {
					if iff := prog.IfOf(b); iff != nil && head.Dominates(b) && b != head && b.Dominates(c.Block()) {
						cond = x.P.InstrPos(iff)
					}
				}
				if cond != "" {
					out[fn] = cond
				}
			}
		}
	}
	return out
}

func init() {
	register(&Rule{ID: "ENC.all", Min: 5, Text: "the snapshot encoder walks complete collections: in the call closure of converter.SnapshotToBytes every collection accessor of the CRDT model that the converter calls appends every node it visits — accessors that leave nodes out under a condition (computed: an append inside a loop that some iteration can skip; e.g. RGATreeList.Nodes, which omits the dead position slots left by moves, or Elements, which omits removed members) are not used for encoding, because later operations may still be anchored on what they omit",
		Run: func(x *Ctx) {
			filt := x.filteringAccessors()
			x.C.Count("filtering collection accessors in the CRDT model", len(filt))
			var names []string
			for f := range filt {
				names = append(names, f.Name())
			}
			sort.Strings(names)
			x.C.Note("filtering accessors (computed): " + strings.Join(names, ", "))
			enc := x.closureOf([]*ssa.Function{x.fn(convPkg + ".SnapshotToBytes")}, []string{convPkg})
			n := 0
			for fn := range enc {
				for _, c := range prog.CallsIn(fn) {
					o := prog.CallObj(c)
					if o == nil || o.Pkg() == nil || !strings.HasSuffix(o.Pkg().Path(), "/"+crdtPkg) {
						continue
					}
					sig := o.Type().(*types.Signature)
					if sig.Results().Len() == 0 {
						continue
					}
					if _, isSlice := sig.Results().At(0).Type().Underlying().(*types.Slice); !isSlice {
						continue
					}
					n++
					// the accessor itself, or the one it forwards to
					bad := ""
					for _, callee := range x.P.Callees(c) {
						seen := map[*ssa.Function]bool{}
						var walk func(f *ssa.Function, d int)
						walk = func(f *ssa.Function, d int) {
							if f == nil || seen[f] || d > 2 {
								return
							}
							seen[f] = true
							if at, ok := filt[f]; ok {
								bad = prog.FnName(f) + " (condition at " + at + ")"
							}
							if len(f.Blocks) <= 2 { // a forwarding accessor
								for _, cc := range prog.CallsIn(f) {
									walk(cc.Common().StaticCallee(), d+1)
								}
							}
						}
						walk(callee, 0)
					}
					x.check(bad == "", fmt.Sprintf("func=%s collection=%s", prog.FnName(fn), o.Name()), x.pos(c), "a complete collection is encoded",
						"the encoder iterates "+bad+", which leaves nodes out: what it omits (dead position slots, tombstones) is missing from every snapshot, and operations anchored on it fail or land elsewhere on snapshot-fed replicas")
				}
			}
			if n < 5 {
				x.C.Vacuous(x.id()+" collection accessors called by the encoder", n, 5)
			}
		}})
}

func init() {
	register(&Rule{ID: "S3.value", Min: 6, Text: "the value an operation carries is encoded as completely as a snapshot encodes it: for every element type, if the operation-form encoder (converter.toJSONElementSimple and what it calls) reads any content field of the type — a field other than the createdAt/movedAt/removedAt stamps that the snapshot encoder reads — then it reads every such field; a type of which it reads none is carried as an empty container whose content follows as further operations. A field the snapshot keeps but the operation form drops is lost on every replica that receives the value through a change instead of a snapshot",
		Run: func(x *Ctx) {
			emptyForm := s3value(x, true)
			x.C.Note("types carried as an empty container: " + strings.Join(emptyForm, ", "))
		}})

	register(&Rule{ID: "S3.operand", Min: 5, Text: "a type the operation form carries as an empty container (S3.value: today Text) may only be the operand of an operation when it was just created: every construction site of an operation with an element operand (NewSet, NewAdd, NewArraySet, …), outside the decoder, takes the operand from the creator callback of the json proxy, never (a copy of) an element taken from the document — a populated container handed to an operation arrives empty at every peer",
		Run: func(x *Ctx) {
			emptyForm := s3value(x, false)
			if len(emptyForm) == 0 {
				x.C.Note("no element type is carried as an empty container")
				return
			}
			elemT := x.P.Named(crdtPkg + ".Element")
			if elemT == nil {
				x.C.Unresolved(x.id(), crdtPkg+".Element")
				return
			}
			var ctors []*types.Func
			for _, fn := range x.P.FuncsIn(opsPkg) {
				if fn.Signature.Recv() != nil || !strings.HasPrefix(fn.Name(), "New") {
					continue
				}
				for _, pm := range fn.Params {
					if isNamed(pm.Type(), elemT) {
						if o, ok := fn.Object().(*types.Func); ok && o != nil {
							ctors = append(ctors, o)
						}
					}
				}
			}
			sites := 0
			for _, fn := range x.P.ProdFuncs() {
				if fn.Pkg == nil || fn.Pkg.Pkg == nil || strings.HasSuffix(fn.Pkg.Pkg.Path(), "/"+convPkg) {
					continue // the decoder builds operands from the wire form itself
				}
				for _, ctor := range ctors {
					for i, c := range callsToIn(fn, ctor) {
						var val ssa.Value
						for _, a := range c.Common().Args {
							if isNamed(a.Type(), elemT) {
								val = a
							}
						}
						if val == nil {
							continue
						}
						// an operand of a concrete other type (Increase's *Primitive) cannot be a container
						concrete := ""
						if mi, ok := val.(*ssa.MakeInterface); ok {
							if pt, isP := mi.X.Type().(*types.Pointer); isP {
								if nt, isN := pt.Elem().(*types.Named); isN {
									concrete = nt.Obj().Name()
								}
							}
						}
						sites++
						fresh := prog.DependsOn(val, func(w ssa.Value) bool {
							cl, ok := prog.Strip(w).(*ssa.Call)
							if !ok {
								return false
							}
							if pm, isP := cl.Call.Value.(*ssa.Parameter); isP {
								_, isSig := pm.Type().Underlying().(*types.Signature)
								return isSig // the creator callback handed to setInternal/addInternal/…
							}
							return false
						}) && !prog.DependsOn(val, func(w ssa.Value) bool {
							cl, ok := prog.Strip(w).(*ssa.Call)
							if !ok || cl.Call.IsInvoke() {
								return false
							}
							o := prog.CallObj(cl)
							return o != nil && o.Pkg() != nil && strings.HasSuffix(o.Pkg().Path(), "/"+crdtPkg) && o.Name() != "DeepCopy" && !strings.HasPrefix(o.Name(), "New")
						})
						for _, tn := range emptyForm {
							if concrete != "" && concrete != tn {
								continue
							}
							x.check(fresh, fmt.Sprintf("type=%s operand-of=%s#%d func=%s just-created", tn, ctor.Name(), i+1, prog.FnName(fn)), x.pos(c),
								"the operand comes from the creator callback: a "+tn+" among them is still empty", "the operand is (a copy of) an element taken from the document: when it is a populated "+tn+", the operation form carries none of its content and every peer receives an empty "+tn)
						}
					}
				}
			}
			if sites < 5 {
				x.C.Vacuous(x.id()+" operand construction sites", sites, 5)
			}
		}})
}

// s3value compares, per element type, the fields the snapshot encoder reads with those
// the type's case of toJSONElementSimple reads; it returns the types carried as an
// empty container. Obligations are reported only when report is set.
func s3value(x *Ctx, report bool) []string {
	simple := x.fn(convPkg + ".toJSONElementSimple")
	snap := x.fn(convPkg + ".SnapshotToBytes")
	if simple == nil || snap == nil {
		x.C.Unresolved(x.id(), "converter.toJSONElementSimple / SnapshotToBytes")
		return nil
	}
	scope := []string{convPkg, crdtPkg, "pkg/document/time", "pkg/index", "pkg/splay", "pkg/llrb", "pkg/treelist"}
	er, _ := structFieldsUsed(x.closureOf([]*ssa.Function{snap}, scope), []string{"/pkg/document/crdt"})
	// per element type: what the type's own case of the switch reads (the callees handed the asserted value)
	caseReads := func(nt *types.Named) map[string]bool {
		var roots []*ssa.Function
		for _, b := range simple.Blocks {
			for _, ins := range b.Instrs {
				ta, ok := ins.(*ssa.TypeAssert)
				if !ok {
					continue
				}
				pt, isP := ta.AssertedType.(*types.Pointer)
				if !isP || !isNamed(pt.Elem(), nt) {
					continue
				}
				for _, c := range prog.CallsIn(simple) {
					uses := false
					for _, a := range c.Common().Args {
						if prog.Reaches(a, func(w ssa.Value) bool {
							if w == ssa.Value(ta) {
								return true
							}
							e, isE := w.(*ssa.Extract)
							return isE && e.Tuple == ssa.Value(ta)
						}) {
							uses = true
						}
					}
					if uses {
						roots = append(roots, x.P.Callees(c)...)
					}
				}
			}
		}
		r, _ := structFieldsUsed(x.closureOf(roots, scope), []string{"/pkg/document/crdt"})
		return r
	}
	stamps := map[string]bool{"createdAt": true, "movedAt": true, "removedAt": true}
	n := 0
	var emptyForm []string
	for _, tn := range []string{"Primitive", "Counter", "Object", "Array", "Text", "Tree"} {
		nt := x.P.Named(crdtPkg + "." + tn)
		if nt == nil {
			x.C.Unresolved(x.id(), crdtPkg+"."+tn)
			continue
		}
		st, ok := nt.Underlying().(*types.Struct)
		if !ok {
			continue
		}
		var content []*types.Var
		any := false
		sr := caseReads(nt)
		for i := 0; i < st.NumFields(); i++ {
			f := st.Field(i)
			key := tn + "." + f.Name()
			if stamps[f.Name()] || !er[key] {
				continue
			}
			if _, derived := derivedFields[key]; derived {
				continue
			}
			content = append(content, f)
			if sr[key] {
				any = true
			}
		}
		if !any {
			n++
			if report {
				x.C.Add(obTrivial(x.id(), "type="+tn+" carried-as-empty-container", x.P.Pos(nt.Obj().Pos()), "the operation form encodes none of the type's content: the element is created empty and filled by the operations that follow"))
			}
			emptyForm = append(emptyForm, tn)
			continue
		}
		for _, f := range content {
			n++
			if !report {
				continue
			}
			x.check(sr[tn+"."+f.Name()], "type="+tn+" field="+f.Name()+" carried-by-operation-form", x.P.Pos(f.Pos()), "the operation form reads the field as the snapshot form does",
				"the snapshot encoder keeps "+tn+"."+f.Name()+" but the operation-form encoder (toJSONElementSimple) drops it while encoding the rest of the value: a "+tn+" that arrives inside a Set/Add/ArraySet operation differs from the one its sender holds")
		}
	}
	if n < 6 && report {
		x.C.Vacuous(x.id()+" element types", n, 6)
	}
	return emptyForm
}

// hasDeepCopy: the type (pointer to named, named, interface, or type parameter)
// offers a DeepCopy method.
func hasDeepCopy(t types.Type) bool {
	if tp, ok := t.(*types.TypeParam); ok {
		t = tp.Constraint()
	}
	ms := types.NewMethodSet(t)
	for i := 0; i < ms.Len(); i++ {
		if ms.At(i).Obj().Name() == "DeepCopy" {
			return true
		}
	}
	if _, isPtr := t.(*types.Pointer); !isPtr {
		if _, isIface := t.Underlying().(*types.Interface); !isIface {
			ms = types.NewMethodSet(types.NewPointer(t))
			for i := 0; i < ms.Len(); i++ {
				if ms.At(i).Obj().Name() == "DeepCopy" {
					return true
				}
			}
		}
	}
	return false
}

func init() {
	register(&Rule{ID: "DC.deep", Min: 10, Text: "copies share no mutable state with their source: in every DeepCopy method of the document model, the change/presence packages and the database records, a field whose type offers DeepCopy itself (an element, a text value, a nested record), or that is a map, is never filled by handing over the receiver's own field value — it is filled from a DeepCopy call, a constructor or a fresh map; otherwise the user's editing copy, the cached server document or the stored record and its source mutate each other",
		Run: func(x *Ctx) {
			pkgs := []string{docPkg, changePkg, crdtPkg, "pkg/document/presence/inner", dbPkg, "api/types", "pkg/document/json"}
			skip := map[string]string{
				"Map.presences": "copy-on-write by design; its completeness is rule P.cow",
			}
			vvT := x.P.Named(timePkg + ".VersionVector")
			// maps nobody writes into: no map assignment / delete anywhere in production code has an operand loaded from the field
			written := map[*types.Var]bool{}
			for _, g := range x.P.ProdFuncs() {
				for _, b := range g.Blocks {
					for _, ins := range b.Instrs {
						var m ssa.Value
						switch t := ins.(type) {
						case *ssa.MapUpdate:
							m = t.Map
						case *ssa.Call:
							if bi, ok := t.Call.Value.(*ssa.Builtin); ok && bi.Name() == "delete" {
								m = t.Call.Args[0]
							}
						}
						if m != nil {
							if lf := prog.LoadedField(m); lf != nil {
								written[lf] = true
							}
						}
					}
				}
			}
			n := 0
			for _, fn := range x.P.FuncsIn(pkgs...) {
				if fn.Name() != "DeepCopy" || fn.Signature.Recv() == nil || fn.Parent() != nil || len(fn.Params) == 0 {
					continue
				}
				if o := fn.Origin(); o != nil && o != fn {
					continue
				}
				recv := fn.Params[0]
				rn := namedOf(recv.Type())
				if rn == nil {
					continue
				}
				fromRecv := func(v ssa.Value) *types.Var {
					u, ok := prog.Strip(v).(*ssa.UnOp)
					if !ok {
						if f, isF := prog.Strip(v).(*ssa.Field); isF {
							if prog.Reaches(f.X, func(w ssa.Value) bool { return w == ssa.Value(recv) }) {
								return prog.FieldVar(f)
							}
						}
						return nil
					}
					fa, ok := u.X.(*ssa.FieldAddr)
					if !ok {
						return nil
					}
					if !prog.Reaches(fa.X, func(w ssa.Value) bool { return w == ssa.Value(recv) }) {
						return nil
					}
					return prog.FieldVar(fa)
				}
				for _, b := range fn.Blocks {
					for _, ins := range b.Instrs {
						st, ok := ins.(*ssa.Store)
						if !ok {
							continue
						}
						fa, ok := st.Addr.(*ssa.FieldAddr)
						if !ok {
							continue
						}
						dn := namedOf(fa.X.Type())
						if dn == nil || dn.Origin().Obj() != rn.Origin().Obj() {
							continue
						}
						if prog.Reaches(fa.X, func(w ssa.Value) bool { return w == ssa.Value(recv) }) {
							continue // a store into the receiver itself (cache fill), not into the copy
						}
						df := prog.FieldVar(fa)
						if df == nil {
							continue
						}
						ft := df.Type()
						_, isMap := ft.Underlying().(*types.Map)
						if !isMap && !hasDeepCopy(ft) {
							continue
						}
						n++
						key := "type=" + rn.Origin().Obj().Name() + " field=" + df.Name() + " not-shared"
						if why, ok := skip[rn.Origin().Obj().Name()+"."+df.Name()]; ok {
							x.C.Add(obTrivial(x.id(), key, x.pos(st), "exempt: "+why))
							continue
						}
						sf := fromRecv(st.Val)
						if sf != nil && vvT != nil && isNamed(ft, vvT) {
							x.C.Add(obTrivial(x.id(), key, x.pos(st), "a version vector is shared, and version vectors are never modified in place unless fresh (rule A1)"))
							continue
						}
						if sf != nil && isMap && !written[sf] && !hasDeepCopy(ft) {
							x.C.Add(obTrivial(x.id(), key, x.pos(st), "the map is shared, and no production code assigns into or deletes from a map loaded from "+sf.Name()+" (it is filled once, when the record is built)"))
							continue
						}
						x.check(sf == nil, key, x.pos(st), "the field of the copy is built from a DeepCopy call, a constructor or a fresh map",
							"DeepCopy hands the receiver's own "+rn.Origin().Obj().Name()+"."+df.Name()+" value to the copy although the type is mutable (it offers DeepCopy / is a map): the copy and its source now change each other")
					}
				}
			}
			if n < 10 {
				x.C.Vacuous(x.id()+" deep fields", n, 10)
			}
		}})
}

func init() {
	register(&Rule{ID: "Z.snap", Min: 10, Text: "stored snapshot bytes: (codec) CompressSnapshot writes the constant SnapshotFormatZstd at index 0 and the compressed payload from index 1; DecompressSnapshot returns its input unchanged on the edge data[0] != the same constant and otherwise decodes data[1:]; (pairing, both backends) in CreateSnapshotInfo everything stored into SnapshotInfo.Snapshot / SnapshotBodyInfo.Snapshot is the result of CompressSnapshot (or nil when the body is external), the HasExternalBody flag stored is the very condition under which the body row is inserted, and every backend method that returns a *SnapshotInfo and loads Snapshot bytes from a stored row also stores the result of DecompressSnapshot of that field back into it, after fetching the external body on the HasExternalBody edge",
		Run: func(x *Ctx) {
			comp := x.fn(dbPkg + ".CompressSnapshot")
			decomp := x.fn(dbPkg + ".DecompressSnapshot")
			hdr, okH := x.constInt(dbPkg + ".SnapshotFormatZstd")
			snapF := x.P.Field(dbPkg + ".SnapshotInfo.Snapshot")
			bodyF := x.P.Field(dbPkg + ".SnapshotBodyInfo.Snapshot")
			extF := x.P.Field(dbPkg + ".SnapshotInfo.HasExternalBody")
			if comp == nil || decomp == nil || !okH || snapF == nil || bodyF == nil || extF == nil {
				x.C.Unresolved(x.id(), "CompressSnapshot / DecompressSnapshot / SnapshotFormatZstd / SnapshotInfo.Snapshot")
				return
			}
			n := 0
			// --- codec
			{
				k := "func=" + prog.FnName(comp)
				okHdr, okPayload := false, false
				for _, b := range comp.Blocks {
					for _, ins := range b.Instrs {
						switch t := ins.(type) {
						case *ssa.Store:
							if ia, ok := t.Addr.(*ssa.IndexAddr); ok {
								if i, isI := prog.IntConst(ia.Index); isI && i == 0 {
									if v, isV := prog.IntConst(t.Val); isV && v == hdr {
										okHdr = true
									}
								}
							}
						case *ssa.Call:
							if bi, ok := t.Call.Value.(*ssa.Builtin); ok && bi.Name() == "copy" {
								if sl, isS := prog.Strip(t.Call.Args[0]).(*ssa.Slice); isS && sl.Low != nil {
									if lo, isL := prog.IntConst(sl.Low); isL && lo == 1 {
										okPayload = true
									}
								}
							}
						}
					}
				}
				n += 2
				x.check(okHdr, k+" header=SnapshotFormatZstd@0", x.fpos(comp), "the format byte is written at index 0", "CompressSnapshot no longer writes SnapshotFormatZstd at index 0")
				x.check(okPayload, k+" payload-from-index-1", x.fpos(comp), "the payload is copied from index 1", "the compressed payload is not copied to result[1:]: it overlaps the header byte")
			}
			{
				k := "func=" + prog.FnName(decomp)
				first := VP{"data[0]", func(v ssa.Value) bool {
					u, ok := prog.Strip(v).(*ssa.UnOp)
					if !ok {
						return false
					}
					ia, ok := u.X.(*ssa.IndexAddr)
					if !ok {
						return false
					}
					i, isI := prog.IntConst(ia.Index)
					return isI && i == 0 && prog.Reaches(ia.X, func(w ssa.Value) bool { return w == ssa.Value(decomp.Params[0]) })
				}}
				var dec ssa.CallInstruction
				for _, c := range prog.CallsIn(decomp) {
					if o := prog.CallObj(c); o != nil && o.Name() == "DecodeAll" {
						dec = c
					}
				}
				n += 3
				if dec == nil {
					x.fail(k+" decodes", x.fpos(decomp), "DecompressSnapshot no longer decodes")
				} else {
					x.guardedSite(k+" decode-only-if-data[0]==SnapshotFormatZstd", dec, []Cmp{{L: first, R: vpConst(hdr), Want: EQ}}, nil)
					okTail := false
					for _, a := range dec.Common().Args {
						if sl, isS := prog.Strip(a).(*ssa.Slice); isS && sl.Low != nil {
							if lo, isL := prog.IntConst(sl.Low); isL && lo == 1 && prog.Reaches(sl.X, func(w ssa.Value) bool { return w == ssa.Value(decomp.Params[0]) }) {
								okTail = true
							}
						}
					}
					x.check(okTail, k+" decodes-data[1:]", x.pos(dec), "the header byte is stripped before decoding", "the decoder is not handed data[1:]")
					// the output buffer belongs to this call: nil or a slice made here (not a pooled / package-level buffer)
					dst := dec.Common().Args[len(dec.Common().Args)-1]
					okDst := prog.IsNilConst(dst)
					if !okDst {
						okDst = prog.Reaches(dst, func(w ssa.Value) bool { _, isMk := w.(*ssa.MakeSlice); return isMk }) &&
							!prog.DependsOn(dst, func(w ssa.Value) bool {
								if _, isG := w.(*ssa.Global); isG {
									return true
								}
								c, isC := prog.Strip(w).(*ssa.Call)
								return isC && prog.CallObj(c) != nil && prog.CallObj(c).Name() == "Get"
							})
					}
					n++
					x.check(okDst, k+" output-buffer-owned-by-the-call", x.pos(dec), "the decoded bytes live in a buffer of their own", "the decoder writes into a shared or pooled buffer that is handed back to the caller: a second decode overwrites the snapshot bytes the first caller is still holding, and one document is rebuilt from another document's snapshot")
					// the raw return: input unchanged
					okRaw, nRaw := true, 0
					for _, r := range prog.Returns(decomp) {
						if !prog.ReturnsNilError(r) || prog.MayPrecede(dec, r) {
							continue
						}
						nRaw++
						if !prog.Reaches(prog.ReturnValue(r, 0), func(w ssa.Value) bool { return w == ssa.Value(decomp.Params[0]) }) {
							okRaw = false
						}
					}
					okRaw = okRaw && nRaw > 0
					x.check(okRaw, k+" other-formats-returned-unchanged", x.fpos(decomp), "bytes without the header are returned as they are", "bytes that do not start with the format byte are no longer returned unchanged (stored uncompressed snapshots become unreadable)")
				}
			}
			// --- pairing in the backends
			dbI := x.P.Named(dbPkg + ".Database")
			if dbI == nil {
				x.C.Unresolved(x.id(), dbPkg+".Database")
				return
			}
			compObj, decompObj := comp.Object().(*types.Func), decomp.Object().(*types.Func)
			fromCall := func(obj *types.Func) func(ssa.Value) bool {
				return func(w ssa.Value) bool {
					c, ok := prog.Strip(w).(*ssa.Call)
					if ok && sameFunc(prog.CallObj(c), obj) {
						return true
					}
					if e, isE := prog.Strip(w).(*ssa.Extract); isE {
						if c2, ok2 := e.Tuple.(*ssa.Call); ok2 && sameFunc(prog.CallObj(c2), obj) {
							return true
						}
					}
					return false
				}
			}
			for _, t := range x.P.Implementers(dbI) {
				back := t.Obj().Pkg().Name() + "." + t.Obj().Name()
				if w := x.P.MethodOf(t, "CreateSnapshotInfo"); w != nil {
					k := "backend=" + back + " func=CreateSnapshotInfo"
					i := 0
					for _, f := range []*types.Var{snapF, bodyF} {
						for _, st := range storesTo(w, f) {
							i++
							n++
							ok := true
							// every value that can arrive (through phis) is nil or the compressed bytes
							var visit func(v ssa.Value, d int)
							seen := map[ssa.Value]bool{}
							visit = func(v ssa.Value, d int) {
								v = prog.Strip(v)
								if seen[v] || d > 6 {
									return
								}
								seen[v] = true
								if ph, isPhi := v.(*ssa.Phi); isPhi {
									for _, e := range ph.Edges {
										visit(e, d+1)
									}
									return
								}
								if prog.IsNilConst(v) {
									return
								}
								if !prog.Reaches(v, fromCall(compObj)) {
									ok = false
								}
							}
							visit(st.Val, 0)
							x.check(ok, fmt.Sprintf("%s stored-bytes#%d=CompressSnapshot(…)", k, i), x.pos(st), "what is stored went through CompressSnapshot", "snapshot bytes are stored without going through CompressSnapshot (or something else is stored)")
						}
					}
					// the encoded snapshot has exactly one consumer: CompressSnapshot (it is never stored raw) —
					// this is the form that also covers a backend that writes through a bson map
					s2b := x.P.FnObj(convPkg + ".SnapshotToBytes")
					for _, c := range callsToIn(w, s2b) {
						n++
						only := true
						uses := 0
						var visit func(v ssa.Value, d int)
						visit = func(v ssa.Value, d int) {
							if d > 4 || v.Referrers() == nil {
								return
							}
							for _, ref := range *v.Referrers() {
								switch t := ref.(type) {
								case *ssa.DebugRef:
								case *ssa.Extract:
									if t.Index == 0 {
										visit(t, d+1)
									}
								case ssa.CallInstruction:
									uses++
									if !sameFunc(prog.CallObj(t), compObj) {
										only = false
									}
								default:
									uses++
									only = false
								}
							}
						}
						visit(c.Value(), 0)
						x.check(only && uses > 0, k+" encoded-snapshot-only-feeds-CompressSnapshot", x.pos(c), "the encoded snapshot is used only as the argument of CompressSnapshot", "the encoded snapshot is used for something other than CompressSnapshot (stored raw, or not stored at all)")
					}
					// bson-map form of the stores
					for _, b := range w.Blocks {
						for _, ins := range b.Instrs {
							mu, ok := ins.(*ssa.MapUpdate)
							if !ok {
								continue
							}
							key, isStr := constString(mu.Key)
							if !isStr {
								continue
							}
							switch key {
							case "snapshot":
								i++
								n++
								x.check(prog.Reaches(mu.Value, fromCall(compObj)), fmt.Sprintf("%s stored-bytes#%d=CompressSnapshot(…)", k, i), x.pos(mu), "what is stored went through CompressSnapshot", "snapshot bytes are stored without going through CompressSnapshot")
								// inline bytes are written exactly when the body is not external
								flagCond := ssa.Value(nil)
								for _, b2 := range w.Blocks {
									for _, ins2 := range b2.Instrs {
										if mu2, ok2 := ins2.(*ssa.MapUpdate); ok2 {
											if k2, is2 := constString(mu2.Key); is2 && k2 == "has_external_body" {
												flagCond = prog.Strip(mu2.Value)
												if mi, isMI := flagCond.(*ssa.MakeInterface); isMI {
													flagCond = prog.Strip(mi.X)
												}
											}
										}
									}
								}
								okFlag := false
								for _, ifi := range x.P.ControlDeps(mu.Block()) {
									if flagCond != nil && prog.Strip(ifi.Cond) == flagCond {
										okFlag = true
									}
								}
								n++
								x.check(okFlag, k+" HasExternalBody=condition-of-body-insert", x.pos(mu), "the stored flag is the condition that decides between inline bytes and the body row", "the has_external_body flag stored is not the condition that decides where the bytes go")
							}
						}
					}
					if i == 0 {
						x.fail(k+" stores-bytes", x.fpos(w), "CreateSnapshotInfo no longer stores snapshot bytes")
					}
					// HasExternalBody: the stored flag is the condition of the body insert
					for _, st := range storesTo(w, extF) {
						n++
						cond := prog.Strip(st.Val)
						okFlag := false
						for _, st2 := range storesTo(w, bodyF) {
							for _, ifi := range x.P.ControlDeps(st2.Block()) {
								if prog.Strip(ifi.Cond) == cond {
									okFlag = true
								}
							}
						}
						x.check(okFlag, k+" HasExternalBody=condition-of-body-insert", x.pos(st), "the flag stored is the condition under which the body row is written", "the HasExternalBody flag stored in the row is not the condition under which the external body row is inserted: a reader looks for a body that does not exist, or ignores one that does")
					}
				}
				// readers
				for _, name := range []string{"FindSnapshotInfo", "FindSnapshotInfoByRefKey", "FindClosestSnapshotInfo", "FindSnapshotInfos", "FindSnapshotInfoByID"} {
					r := x.P.MethodOf(t, name)
					if r == nil {
						continue
					}
					closure := append([]*ssa.Function{r}, prog.Closures(r)...)
					// helpers of the same package that work on the row (they take a *SnapshotInfo), called synchronously
					for g := range x.closureOf([]*ssa.Function{r}, []string{strings.TrimPrefix(prog.PkgOf(r), prog.Mod+"/")}) {
						if g == r {
							continue
						}
						for _, pm := range g.Params {
							if pt, isP := pm.Type().(*types.Pointer); isP && namedOf(pt) != nil && namedOf(pt).Obj().Name() == "SnapshotInfo" {
								closure = append(closure, g)
								closure = append(closure, prog.Closures(g)...)
								break
							}
						}
					}
					loads := false
					for _, g := range closure {
						for _, b := range g.Blocks {
							for _, ins := range b.Instrs {
								if v, ok := ins.(ssa.Value); ok && prog.LoadedField(v) == snapF {
									loads = true
								}
							}
						}
					}
					if !loads {
						continue
					}
					n++
					k := "backend=" + back + " func=" + name
					ok := false
					for _, g := range closure {
						for _, st := range storesTo(g, snapF) {
							if prog.Reaches(st.Val, fromCall(decompObj)) {
								// … of that very field
								for _, c := range callsToIn(g, decompObj) {
									if prog.LoadedField(paramArg(c, 0)) == snapF {
										ok = true
									}
								}
							}
						}
					}
					x.check(ok, k+" returns-decompressed", x.fpos(r), "the Snapshot field handed out is DecompressSnapshot of the stored field", "a reader hands out stored snapshot bytes without DecompressSnapshot: BytesToSnapshot fails on the format byte (or silently decodes garbage)")
					// the external body is fetched on the HasExternalBody edge before decompression
					for _, g := range closure {
						for _, c := range callsToIn(g, decompObj) {
							fetched := false
							for _, st := range storesTo(g, snapF) {
								if prog.MayPrecede(st, c) && !prog.Reaches(st.Val, fromCall(decompObj)) {
									for _, ifi := range x.P.ControlDeps(st.Block()) {
										if prog.LoadedField(ifi.Cond) == extF {
											fetched = true
										}
									}
								}
							}
							n++
							x.check(fetched, k+" external-body-fetched-when-flagged", x.pos(c), "on the HasExternalBody edge the body is loaded into the field first", "a row whose body is stored externally is decompressed without fetching the body first: the reader gets an empty snapshot")
						}
					}
				}
			}
			if n < 10 {
				x.C.Vacuous(x.id()+" sites", n, 10)
			}
		}})
}

// constString: v is a string constant (possibly boxed into an interface).
func constString(v ssa.Value) (string, bool) {
	if mi, ok := v.(*ssa.MakeInterface); ok {
		v = mi.X
	}
	c, ok := v.(*ssa.Const)
	if !ok || c.Value == nil || c.Value.Kind() != constant.String {
		return "", false
	}
	return constant.StringVal(c.Value), true
}

func init() {
	register(&Rule{ID: "SIB.rebuild", Min: 2, Text: "the two rebuilders of a list structure are twins: the snapshot decoder (converter.fromJSONArray / fromJSONText) and the in-memory copy (Array.DeepCopy / Text.DeepCopy) fill a fresh RGATreeList / RGATreeSplit through the same set of building methods (Add, AddMovedElement, AddDeadPosition; InsertAfter, SetInsPrev, …), and a building call that one of them makes only under a non-nil test of a lookup in the structure being built (FindNode) is made under the same test by the other — the copy is what the user edits and what the server caches, the decoder is what snapshot-fed replicas get; a position slot, a split link or a guard present in one and missing in the other is a divergence between them (C02/C08) or a crash on bytes the other side would reject (C09)",
		Run: func(x *Ctx) {
			type pair struct{ dec, cp, ctor string }
			n := 0
			for _, p := range []pair{
				{convPkg + ".fromJSONArray", crdtPkg + ".(*Array).DeepCopy", "NewRGATreeList"},
				{convPkg + ".fromJSONText", crdtPkg + ".(*Text).DeepCopy", "NewRGATreeSplit"},
			} {
				a, b := x.fn(p.dec), x.fn(p.cp)
				if a == nil || b == nil {
					x.C.Unresolved(x.id(), p.dec+" / "+p.cp)
					continue
				}
				sig := func(fn *ssa.Function) map[string]bool {
					out := map[string]bool{}
					fresh := func(v ssa.Value) bool {
						return prog.Reaches(v, func(w ssa.Value) bool {
							c, ok := prog.Strip(w).(*ssa.Call)
							if !ok {
								return false
							}
							if o := prog.CallObj(c); o != nil && o.Name() == p.ctor {
								return true
							}
							if f := c.Call.StaticCallee(); f != nil && f.Origin() != nil && f.Origin().Name() == p.ctor {
								return true
							}
							return false
						})
					}
					name := func(c ssa.CallInstruction) string {
						if o := prog.CallObj(c); o != nil {
							return o.Name()
						}
						if f := c.Common().StaticCallee(); f != nil {
							if o := f.Origin(); o != nil {
								return o.Name()
							}
							return f.Name()
						}
						return ""
					}
					// … or a node handed out by the fresh structure (current = list.InsertAfter(…))
					node := func(v ssa.Value) bool {
						return prog.Reaches(v, func(w ssa.Value) bool {
							c, ok := prog.Strip(w).(*ssa.Call)
							return ok && c.Common().Signature().Recv() != nil && fresh(recvOf(c))
						})
					}
					for _, c := range prog.CallsIn(fn) {
						rv := recvOf(c)
						if rv == nil || c.Common().Signature().Recv() == nil || !(fresh(rv) || node(rv)) {
							continue
						}
						nm := name(c)
						if nm == "" || nm == p.ctor {
							continue
						}
						// building calls only: the ones that return nothing, an error, or a node that is used as the next anchor;
						// pure lookups appear as guards
						var guards []string
						for _, ifi := range x.P.ControlDeps(c.Block()) {
							bo, ok := ifi.Cond.(*ssa.BinOp)
							if !ok || (bo.Op != token.NEQ && bo.Op != token.EQL) {
								continue
							}
							var other ssa.Value
							if prog.IsNilConst(bo.Y) {
								other = bo.X
							} else if prog.IsNilConst(bo.X) {
								other = bo.Y
							}
							if other == nil {
								continue
							}
							if isErrorType(other.Type()) {
								continue
							}
							if lc, isC := prog.Strip(other).(*ssa.Call); isC && lc.Common().Signature().Recv() != nil && fresh(recvOf(lc)) {
								guards = append(guards, "nil-test("+name(lc)+")")
							}
						}
						sort.Strings(guards)
						out[nm+" under "+strings.Join(uniq(guards), ",")] = true
					}
					return out
				}
				// a rebuilder may delegate to a helper of its own package (two levels): the helper's calls count
				sigDeep := func(root *ssa.Function) map[string]bool {
					out := map[string]bool{}
					seen := map[*ssa.Function]bool{}
					var walk func(f *ssa.Function, d int)
					walk = func(f *ssa.Function, d int) {
						if f == nil || seen[f] || d > 2 || len(f.Blocks) == 0 {
							return
						}
						seen[f] = true
						for k := range sig(f) {
							out[k] = true
						}
						for _, c := range prog.CallsIn(f) {
							g := c.Common().StaticCallee()
							if g != nil && g.Pkg != nil && f.Pkg != nil && g.Pkg == f.Pkg && g.Name() != "DeepCopy" || (g != nil && d == 0 && g.Pkg == f.Pkg) {
								walk(g, d+1)
							}
						}
					}
					walk(root, 0)
					return out
				}
				sa, sb := sigDeep(a), sigDeep(b)
				var onlyA, onlyB []string
				for k := range sa {
					if !sb[k] {
						onlyA = append(onlyA, k)
					}
				}
				for k := range sb {
					if !sa[k] {
						onlyB = append(onlyB, k)
					}
				}
				sort.Strings(onlyA)
				sort.Strings(onlyB)
				n++
				x.check(len(onlyA) == 0 && len(onlyB) == 0 && len(sa) > 0, "pair="+prog.FnName(a)+"~"+prog.FnName(b)+" same-building-calls", x.fpos(b), fmt.Sprintf("both make the same %d kinds of building calls under the same lookup guards", len(sa)),
					fmt.Sprintf("the snapshot decoder and the in-memory copy do not rebuild the structure alike — decoder only: %v; copy only: %v", onlyA, onlyB))
			}
			if n < 2 {
				x.C.Vacuous(x.id()+" pairs", n, 2)
			}
		}})
}

func init() {
	register(&Rule{ID: "S2.cond", Min: 20, Text: "optional fields are encoded on their own terms: in the encoders of package converter (to_pb.go, to_bytes.go), when a field of a protobuf message is written under a condition (an if around the assignment, a range loop that appends), that condition reads only the source the written value itself is read from (the same accessor or field of the model object: `if x.InsPrevID() != nil { pb.InsPrevId = f(x.InsPrevID()) }`), an error of computing it, or the type dispatch — never a different property of the object (its removal stamp, whether it also carries contents, …). A field left out for one combination of the other fields decodes to the zero value on every replica that gets the value over the wire or from a snapshot, while the sender keeps the real one",
		Run: func(x *Ctx) { condWrites(x, []string{"to_pb.go", "to_bytes.go"}, "/pkg/document", true, 20) }})

	register(&Rule{ID: "S2.cond.dec", Min: 10, Text: "optional fields are decoded on their own terms: the mirror image of S2.cond for the decoders of package converter (from_pb.go, from_bytes.go) — when a setter of the model (Set…, Add…, Insert… of a pkg/document type) is called under a condition, that condition reads only the protobuf fields the value handed to the setter is decoded from (or is an error test, or a validation whose other side returns); a setter skipped because of an unrelated field of the message leaves the decoded object without state the sender has",
		Run: func(x *Ctx) { condWrites(x, []string{"from_pb.go", "from_bytes.go"}, "/api/yorkie/v1", false, 10) }})
}

type sinkSite struct {
	ins  ssa.Instruction
	Val  ssa.Value
	name string
	args []ssa.Value
}

func (s sinkSite) Block() *ssa.BasicBlock { return s.ins.Block() }

// condWrites is the engine of S2.cond (encoders: model → protobuf) and S2.cond.dec
// (decoders: protobuf → model): a sink written under a condition that reads a source
// the written value is not computed from, where the value's own presence test is also
// on the path and the other side of the foreign test silently falls through.
func condWrites(x *Ctx, files []string, srcPkg string, encoder bool, min int) {
	n := 0
	cnt := map[string]int{}
	for _, fn := range x.P.FuncsIn(convPkg) {
		if fn.Parent() != nil {
			continue
		}
		file := x.P.Fset.Position(fn.Pos()).Filename
		inFiles := false
		for _, sfx := range files {
			if strings.HasSuffix(file, sfx) {
				inFiles = true
			}
		}
		if !inFiles {
			continue
		}
		// accessor calls / field loads on model objects (packages crdt, operations, change, time, presence)
		srcOf := func(v ssa.Value) map[string]bool {
			out := map[string]bool{}
			prog.DependsOn(v, func(w ssa.Value) bool {
				if c, ok := prog.Strip(w).(*ssa.Call); ok {
					var o *types.Func
					if c.Call.IsInvoke() {
						o = c.Call.Method
					} else {
						o = prog.CallObj(c)
					}
					if o != nil && o.Pkg() != nil && strings.Contains(o.Pkg().Path(), srcPkg) && o.Type().(*types.Signature).Recv() != nil {
						out[strings.TrimPrefix(o.Name(), "Get")] = true
					}
				}
				if f := prog.LoadedField(w); f != nil && f.Pkg() != nil && strings.Contains(f.Pkg().Path(), srcPkg) {
					out[strings.TrimPrefix(f.Name(), "Get")] = true
				}
				return false
			})
			return out
		}
		for _, b := range fn.Blocks {
			for _, ins := range b.Instrs {
				var st sinkSite
				if encoder {
					s0, ok := ins.(*ssa.Store)
					if !ok {
						continue
					}
					fa, ok := s0.Addr.(*ssa.FieldAddr)
					if !ok {
						continue
					}
					f := prog.FieldVar(fa)
					if f == nil || f.Pkg() == nil || !strings.HasSuffix(f.Pkg().Path(), "/api/yorkie/v1") || !f.Exported() {
						continue
					}
					st = sinkSite{ins: s0, Val: s0.Val, name: f.Name()}
				} else {
					c0, ok := ins.(*ssa.Call)
					if !ok {
						continue
					}
					o := prog.CallObj(c0)
					if o == nil || o.Pkg() == nil || !strings.Contains(o.Pkg().Path(), "/pkg/document") || o.Type().(*types.Signature).Recv() == nil {
						continue
					}
					if !(strings.HasPrefix(o.Name(), "Set") || strings.HasPrefix(o.Name(), "Add") || strings.HasPrefix(o.Name(), "Insert")) || len(c0.Call.Args) < 2 {
						continue
					}
					st = sinkSite{ins: c0, Val: c0.Call.Args[len(c0.Call.Args)-1], name: o.Name(), args: c0.Call.Args[1:]}
				}
				deps := x.P.ControlDeps(st.Block())
				if len(deps) == 0 {
					continue
				}
				val := srcOf(st.Val)
				for _, a := range st.args {
					for k2 := range srcOf(a) {
						val[k2] = true
					}
				}
				if ac, isC := prog.Strip(st.Val).(*ssa.Call); isC {
					if bi, isB := ac.Call.Value.(*ssa.Builtin); isB && bi.Name() == "append" {
						// what is appended, not what the destination already holds
						val = map[string]bool{}
						for _, a := range ac.Call.Args[1:] {
							for k := range srcOf(a) {
								val[k] = true
							}
						}
					}
				}
				if len(val) == 0 {
					continue
				}
				var foreign []string
				own := false
				pd := x.P.PostDominators(fn)
				for _, ifi := range deps {
					if isErrorTest(ifi.Cond) {
						continue
					}
					if _, isTA := prog.Strip(ifi.Cond).(*ssa.Extract); isTA {
						continue // comma-ok of a type assertion / type switch
					}
					src := srcOf(ifi.Cond)
					isForeign := false
					var names []string
					for s := range src {
						if !val[s] {
							isForeign = true
							names = append(names, s)
						}
					}
					if !isForeign {
						if len(src) > 0 {
							own = true
						}
						continue
					}
					// a foreign test is a dispatch or a validation when its other side writes the message
					// differently or returns; it is a silent omission when the other side just falls through
					ib := ifi.Block()
					var other *ssa.BasicBlock
					for _, sc := range ib.Succs {
						if sc != st.Block() && !prog.ReachableFrom(sc, nil)[st.Block()] {
							other = sc
						}
					}
					if other == nil {
						for _, sc := range ib.Succs {
							if !sc.Dominates(st.Block()) && sc != st.Block() {
								other = sc
							}
						}
					}
					silent := true
					if other != nil {
						seen := map[*ssa.BasicBlock]bool{}
						q := []*ssa.BasicBlock{other}
						for len(q) > 0 {
							cb := q[len(q)-1]
							q = q[:len(q)-1]
							if seen[cb] || pd.PostDom(ib, cb) {
								continue
							}
							seen[cb] = true
							for _, in2 := range cb.Instrs {
								switch t := in2.(type) {
								case *ssa.Return:
									silent = false
								case *ssa.Store:
									if fa2, ok2 := t.Addr.(*ssa.FieldAddr); ok2 {
										if f2 := prog.FieldVar(fa2); f2 != nil && f2.Pkg() != nil && strings.HasSuffix(f2.Pkg().Path(), "/api/yorkie/v1") {
											silent = false
										}
									}
								}
							}
							q = append(q, cb.Succs...)
						}
					}
					if silent {
						foreign = append(foreign, names...)
					}
				}
				if !own {
					foreign = nil // not a narrowed condition of the field's own presence test
				}
				sort.Strings(foreign)
				foreign = uniq(foreign)
				n++
				cnt[prog.FnName(fn)+st.name]++
				x.check(len(foreign) == 0, fmt.Sprintf("func=%s field=%s#%d written-on-its-own-terms", prog.FnName(fn), st.name, cnt[prog.FnName(fn)+st.name]), x.pos(st.ins),
					"the condition reads only what the value is read from", fmt.Sprintf("the field is written only under a condition that reads %v, which the written value is not computed from: for the other combination the field is silently left out of the encoding", foreign))
			}
		}
	}
	if n < min {
		x.C.Vacuous(x.id()+" conditional writes", n, min)
	}
}

// isErrorTest: cond compares an error value with nil.
func isErrorTest(cond ssa.Value) bool {
	bo, ok := prog.Strip(cond).(*ssa.BinOp)
	if !ok {
		return false
	}
	return (prog.IsNilConst(bo.Y) && isErrorType(bo.X.Type())) || (prog.IsNilConst(bo.X) && isErrorType(bo.Y.Type()))
}

func init() {
	register(&Rule{ID: "ENC.map", Min: 3, Text: "map-shaped state is encoded entry for entry: in package converter every loop that ranges over a map and stores into another map under the same key (presences, version vectors, attribute maps) stores every entry — the store is not skipped under a condition on the entry that lets the loop simply continue (an entry whose value is empty is still an entry: a participant with empty presence is attached, and a replica built from a snapshot that leaves it out disagrees with the replicas that followed the change log); a condition whose other side returns an error is a validation, not a skip",
		Run: func(x *Ctx) {
			n := 0
			for _, fn := range x.P.FuncsIn(convPkg) {
				i := 0
				for _, b := range fn.Blocks {
					for _, ins := range b.Instrs {
						rg, ok := ins.(*ssa.Range)
						if !ok {
							continue
						}
						if _, isMap := rg.X.Type().Underlying().(*types.Map); !isMap {
							continue
						}
						fromIter := func(w ssa.Value) bool {
							nx, isN := w.(*ssa.Next)
							return isN && nx.Iter == ssa.Value(rg)
						}
						var head *ssa.BasicBlock
						for _, r := range *rg.Referrers() {
							if nx, isN := r.(*ssa.Next); isN {
								head = nx.Block()
							}
						}
						if head == nil {
							continue
						}
						for _, b2 := range fn.Blocks {
							for _, in2 := range b2.Instrs {
								mu, isMU := in2.(*ssa.MapUpdate)
								if !isMU || !prog.DependsOn(mu.Key, fromIter) {
									continue
								}
								i++
								n++
								bad := ""
								for _, ifi := range x.P.ControlDeps(mu.Block()) {
									if ex, isE := prog.Strip(ifi.Cond).(*ssa.Extract); isE {
										if nx, isN := ex.Tuple.(*ssa.Next); isN && nx.Iter == ssa.Value(rg) {
											continue
										}
									}
									if !prog.DependsOn(ifi.Cond, fromIter) {
										continue
									}
									// the side that avoids the store: does it go round the loop (skip) or leave (validation)?
									for _, sc := range ifi.Block().Succs {
										if sc != head && (sc == mu.Block() || sc.Dominates(mu.Block())) {
											continue
										}
										if sc == head || prog.ReachableFrom(sc, nil)[head] {
											bad = x.P.InstrPos(ifi)
										}
									}
								}
								x.check(bad == "", fmt.Sprintf("func=%s map-copy#%d every-entry-stored", prog.FnName(fn), i), x.pos(mu), "every entry of the source map is stored", "an entry of the source map is skipped under a condition on the entry ("+bad+") and the loop continues: the encoded map has fewer entries than the model")
							}
						}
					}
				}
			}
			if n < 3 {
				x.C.Vacuous(x.id()+" map copies", n, 3)
			}
		}})

	register(&Rule{ID: "REC.copy", Min: 2, Text: "a record copied by hand is copied whole: in the storage backends, a composite literal of a database record type most of whose fields are filled from the same-named fields of another value of that type is a copy, and every field of the type is then either in the literal or stored into the copy later in the function — a field left out (HasExternalBody of a snapshot row) reads as its zero value for every caller and the row's body is silently ignored",
		Run: func(x *Ctx) {
			n := 0
			for _, fn := range x.P.FuncsIn("server/backend/database/memory", mongoPkg, dbPkg) {
				if fn.Name() == "DeepCopy" {
					continue // decided by DC / DC.deep
				}
				i := 0
				for _, b := range fn.Blocks {
					for _, ins := range b.Instrs {
						al, ok := ins.(*ssa.Alloc)
						if !ok || al.Comment != "complit" {
							continue
						}
						nt := namedOf(al.Type())
						if nt == nil || nt.Obj().Pkg() == nil || !strings.HasSuffix(nt.Obj().Pkg().Path(), "/"+dbPkg) {
							continue
						}
						st, isS := nt.Underlying().(*types.Struct)
						if !isS || st.NumFields() < 4 {
							continue
						}
						set := map[string]bool{}
						copied := 0
						for _, r := range *al.Referrers() {
							fa, isFA := r.(*ssa.FieldAddr)
							if !isFA {
								continue
							}
							for _, rr := range *fa.Referrers() {
								s2, isSt := rr.(*ssa.Store)
								if !isSt || s2.Addr != ssa.Value(fa) {
									continue
								}
								f := prog.FieldVar(fa)
								set[f.Name()] = true
								if lf := prog.LoadedField(s2.Val); lf != nil && lf.Name() == f.Name() && namedOf(prog.FieldBase(s2.Val).Type()) != nil && namedOf(prog.FieldBase(s2.Val).Type()).Obj() == nt.Obj() {
									copied++
								}
							}
						}
						if copied < 3 || copied*2 < st.NumFields() {
							continue
						}
						// stores made later through the pointer (x.Snapshot = …)
						prog.DependsOn(al, func(w ssa.Value) bool { return false })
						for _, b2 := range fn.Blocks {
							for _, in2 := range b2.Instrs {
								if s3, isSt := in2.(*ssa.Store); isSt {
									if fa2, isFA := s3.Addr.(*ssa.FieldAddr); isFA && prog.Reaches(fa2.X, func(w ssa.Value) bool { return w == ssa.Value(al) }) {
										set[prog.FieldVar(fa2).Name()] = true
									}
								}
							}
						}
						i++
						n++
						var missing []string
						for k := 0; k < st.NumFields(); k++ {
							if !set[st.Field(k).Name()] {
								missing = append(missing, st.Field(k).Name())
							}
						}
						x.check(len(missing) == 0, fmt.Sprintf("func=%s copy-of=%s#%d all-fields", prog.FnName(fn), nt.Obj().Name(), i), x.pos(al), "every field of the record is carried over", fmt.Sprintf("the hand-written copy of a %s leaves out %v: callers read the zero value", nt.Obj().Name(), missing))
					}
				}
			}
			if n < 2 {
				x.C.Vacuous(x.id()+" hand-written record copies", n, 2)
			}
		}})
}
