package rules

import (
	"fmt"
	"os"
	"os/exec"
	"path/filepath"
	"strings"
	"sync"
)

// Variant is a seeded negative variant of the tree used to test a rule: one file
// with one textual edit, analysed through the loader's overlay (the repository is
// not touched). The text match is only how the *self-test* builds its input; no
// rule matches text. A variant whose Find text no longer occurs (the code moved
// on) is skipped, not failed.
type Variant struct {
	Prop    string
	Name    string
	File    string // repo-relative
	Find    string
	Replace string
	Expect  string // substring of the obligation key that must be reported violated
}

var variants []Variant

func variant(v Variant) { variants = append(variants, v) }

// SelfTestResult summarises a self-test run.
type SelfTestResult struct {
	Rows   []map[string]string
	Killed int
	Total  int
	Errors []string
}

// SelfTest runs every variant of a property in its own subprocess and requires
// the named obligation to be reported.
func SelfTest(prop, repo, verif string) *SelfTestResult {
	res := &SelfTestResult{}
	var vs []Variant
	for _, v := range variants {
		if v.Prop == prop {
			vs = append(vs, v)
		}
	}
	if len(vs) == 0 {
		return res
	}
	tmp, err := os.MkdirTemp("", "yv-selftest-")
	if err != nil {
		res.Errors = append(res.Errors, "SELFTEST-FAIL cannot create temp dir: "+err.Error())
		return res
	}
	defer os.RemoveAll(tmp)
	rows := make([]map[string]string, len(vs))
	sem := make(chan struct{}, 5)
	var wg sync.WaitGroup
	for i, v := range vs {
		wg.Add(1)
		go func(i int, v Variant) {
			defer wg.Done()
			sem <- struct{}{}
			defer func() { <-sem }()
			row := map[string]string{"variant": v.Name, "file": v.File, "expect": v.Expect}
			rows[i] = row
			src, err := os.ReadFile(filepath.Join(repo, v.File))
			if err != nil {
				row["result"] = "skipped: " + err.Error()
				return
			}
			if strings.Count(string(src), v.Find) != 1 {
				row["result"] = fmt.Sprintf("skipped: edit site occurs %d times on this tree", strings.Count(string(src), v.Find))
				return
			}
			mut := strings.Replace(string(src), v.Find, v.Replace, 1)
			mf := filepath.Join(tmp, fmt.Sprintf("v%d.go", i))
			if err := os.WriteFile(mf, []byte(mut), 0o644); err != nil {
				row["result"] = "skipped: " + err.Error()
				return
			}
			evd := filepath.Join(tmp, fmt.Sprintf("ev%d", i))
			cmd := exec.Command(os.Args[0], "check", "-p", prop, "-tier", "quick", "-repo", repo,
				"-overlay", v.File+"="+mf, "-evidence", evd, "-noselftest")
			outb, _ := cmd.CombinedOutput()
			out := string(outb)
			code := cmd.ProcessState.ExitCode()
			switch {
			case strings.Contains(out, "NOT-ANALYSABLE"):
				row["result"] = "variant does not type-check"
			case code == 1 && strings.Contains(out, "VIOLATION") && strings.Contains(out, v.Expect):
				row["result"] = "killed"
			default:
				row["result"] = fmt.Sprintf("SURVIVED (exit %d)", code)
			}
		}(i, v)
	}
	wg.Wait()
	for _, r := range rows {
		res.Rows = append(res.Rows, r)
		if strings.HasPrefix(r["result"], "skipped") {
			continue
		}
		res.Total++
		if r["result"] == "killed" {
			res.Killed++
		} else {
			res.Errors = append(res.Errors, fmt.Sprintf("SELFTEST-FAIL variant=%s expect=%s: %s", r["variant"], r["expect"], r["result"]))
		}
	}
	return res
}
