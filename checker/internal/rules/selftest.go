package rules

import (
	"encoding/json"
	"fmt"
	"os"
	"os/exec"
	"path/filepath"
	"sort"
	"strings"
	"sync"
)

// Variant is a seeded negative variant of the tree used to test a rule: one file
// with one textual edit, analysed through the loader's overlay (the repository is
// not touched). The text match is only how the *self-test* builds its input; no
// rule matches text. A variant whose Find text no longer occurs (the code moved
// on) is skipped, not failed.
type Variant struct {
	Prop    string
	Name    string
	File    string // repo-relative
	Find    string
	Replace string
	Expect  string // substring of the obligation key that must be reported violated
}

var variants []Variant

func variant(v Variant) { variants = append(variants, v) }

// SelfTestResult summarises a self-test run.
type SelfTestResult struct {
	Rows   []map[string]string
	Killed int
	Total  int
	Errors []string
}

// SelfTest runs every variant of a property in its own subprocess and requires
// the named obligation to be reported.
func SelfTest(prop, repo, verif string) *SelfTestResult {
	res := &SelfTestResult{}
	var vs []Variant
	for _, v := range variants {
		if v.Prop == prop {
			vs = append(vs, v)
		}
	}
	if len(vs) == 0 {
		return res
	}
	tmp, err := os.MkdirTemp("", "yv-selftest-")
	if err != nil {
		res.Errors = append(res.Errors, "SELFTEST-FAIL cannot create temp dir: "+err.Error())
		return res
	}
	defer os.RemoveAll(tmp)
	rows := make([]map[string]string, len(vs))
	sem := make(chan struct{}, 5)
	var wg sync.WaitGroup
	for i, v := range vs {
		wg.Add(1)
		go func(i int, v Variant) {
			defer wg.Done()
			sem <- struct{}{}
			defer func() { <-sem }()
			row := map[string]string{"variant": v.Name, "file": v.File, "expect": v.Expect}
			rows[i] = row
			src, err := os.ReadFile(filepath.Join(repo, v.File))
			if err != nil {
				row["result"] = "skipped: " + err.Error()
				return
			}
			if strings.Count(string(src), v.Find) != 1 {
				row["result"] = fmt.Sprintf("skipped: edit site occurs %d times on this tree", strings.Count(string(src), v.Find))
				return
			}
			mut := strings.Replace(string(src), v.Find, v.Replace, 1)
			mf := filepath.Join(tmp, fmt.Sprintf("v%d.go", i))
			if err := os.WriteFile(mf, []byte(mut), 0o644); err != nil {
				row["result"] = "skipped: " + err.Error()
				return
			}
			evd := filepath.Join(tmp, fmt.Sprintf("ev%d", i))
			cmd := exec.Command(os.Args[0], "check", "-p", prop, "-tier", "quick", "-repo", repo,
				"-overlay", v.File+"="+mf, "-evidence", evd, "-noselftest")
			outb, _ := cmd.CombinedOutput()
			out := string(outb)
			code := cmd.ProcessState.ExitCode()
			switch {
			case strings.Contains(out, "NOT-ANALYSABLE"):
				row["result"] = "variant does not type-check"
			case code == 1 && strings.Contains(out, "VIOLATION") && strings.Contains(out, v.Expect):
				row["result"] = "killed"
			default:
				row["result"] = fmt.Sprintf("SURVIVED (exit %d)", code)
			}
		}(i, v)
	}
	wg.Wait()
	for _, r := range rows {
		res.Rows = append(res.Rows, r)
		if strings.HasPrefix(r["result"], "skipped") {
			continue
		}
		res.Total++
		if r["result"] == "killed" {
			res.Killed++
		} else {
			res.Errors = append(res.Errors, fmt.Sprintf("SELFTEST-FAIL variant=%s expect=%s: %s", r["variant"], r["expect"], r["result"]))
		}
	}
	return res
}

// ---------------------------------------------------------------------------
// Stored seeded changes (independent sub-agents' patches under <verif>/seeded) as
// additional self-test inputs: every stored change that the property's own check
// reported when it was recorded must still be reported. The patch is applied to
// copies of the touched files (never to the repository) and analysed through the
// overlay. A patch that no longer applies to this tree is skipped.
// ---------------------------------------------------------------------------

type seededCase struct {
	ID     string
	Expect []string          // rule ids, any of which must fire
	Files  map[string]string // repo-relative path -> patched content
	Skip   string
}

type hunk struct {
	oldStart int
	lines    []string // with their ' ', '+', '-' prefix
}

func parseUnified(diff string) map[string][]hunk {
	out := map[string][]hunk{}
	var file string
	var cur *hunk
	flush := func() {
		if cur != nil && file != "" {
			out[file] = append(out[file], *cur)
		}
		cur = nil
	}
	for _, ln := range strings.Split(diff, "\n") {
		switch {
		case strings.HasPrefix(ln, "+++ b/"):
			flush()
			file = strings.TrimPrefix(ln, "+++ b/")
		case strings.HasPrefix(ln, "--- "), strings.HasPrefix(ln, "diff --git"), strings.HasPrefix(ln, "index "):
			flush()
		case strings.HasPrefix(ln, "@@"):
			flush()
			var os_, ol, ns, nl int
			hdr := ln
			if i := strings.Index(hdr[2:], "@@"); i >= 0 {
				hdr = hdr[:i+2]
			}
			hdr = strings.NewReplacer(",", " ", "@@", "", "-", "", "+", "").Replace(hdr)
			n, _ := fmt.Sscan(hdr, &os_, &ol, &ns, &nl)
			if n < 1 {
				continue
			}
			cur = &hunk{oldStart: os_}
		default:
			if cur != nil && (strings.HasPrefix(ln, " ") || strings.HasPrefix(ln, "+") || strings.HasPrefix(ln, "-") || ln == "") {
				if ln == "" {
					ln = " "
				}
				cur.lines = append(cur.lines, ln)
			}
		}
	}
	flush()
	return out
}

func applyHunks(orig string, hs []hunk) (string, bool) {
	lines := strings.Split(orig, "\n")
	offset := 0
	for _, h := range hs {
		// trailing blank context produced by the split of the diff's final newline
		hl := h.lines
		for len(hl) > 0 && hl[len(hl)-1] == " " {
			hl = hl[:len(hl)-1]
		}
		var old []string
		for _, l := range hl {
			if l[0] == ' ' || l[0] == '-' {
				old = append(old, l[1:])
			}
		}
		match := func(at int) bool {
			if at < 0 || at+len(old) > len(lines) {
				return false
			}
			for i, o := range old {
				if lines[at+i] != o {
					return false
				}
			}
			return true
		}
		at := h.oldStart - 1 + offset
		found := -1
		for d := 0; d <= 400 && found < 0; d++ {
			if match(at + d) {
				found = at + d
			} else if match(at - d) {
				found = at - d
			}
		}
		if found < 0 {
			return "", false
		}
		var repl []string
		for _, l := range hl {
			if l[0] == ' ' || l[0] == '+' {
				repl = append(repl, l[1:])
			}
		}
		lines = append(lines[:found], append(repl, lines[found+len(old):]...)...)
		offset += len(repl) - len(old)
	}
	return strings.Join(lines, "\n"), true
}

func loadSeeded(prop, repo, verif string) []seededCase {
	var out []seededCase
	dirs, _ := filepath.Glob(filepath.Join(verif, "seeded", prop+"-*"))
	sort.Strings(dirs)
	for _, d := range dirs {
		mb, err := os.ReadFile(filepath.Join(d, "meta.json"))
		if err != nil {
			continue
		}
		var meta struct {
			ID         string              `json:"id"`
			DetectedBy map[string][]string `json:"detected_by"`
		}
		if json.Unmarshal(mb, &meta) != nil {
			continue
		}
		keys := meta.DetectedBy[prop]
		if len(keys) == 0 {
			continue // recorded as missed (or reported only by another property's check)
		}
		c := seededCase{ID: meta.ID, Files: map[string]string{}}
		seen := map[string]bool{}
		for _, k := range keys {
			r := k
			if i := strings.Index(k, ":"); i > 0 {
				r = k[:i]
			}
			if !seen[r] {
				seen[r] = true
				c.Expect = append(c.Expect, r)
			}
		}
		pb, err := os.ReadFile(filepath.Join(d, "patch.diff"))
		if err != nil {
			continue
		}
		for file, hs := range parseUnified(string(pb)) {
			src, err := os.ReadFile(filepath.Join(repo, file))
			if err != nil {
				c.Skip = "skipped: " + err.Error()
				break
			}
			patched, ok := applyHunks(string(src), hs)
			if !ok {
				c.Skip = "skipped: the stored patch no longer applies to " + file
				break
			}
			c.Files[file] = patched
		}
		out = append(out, c)
	}
	return out
}

// SelfTestSeeded runs the stored seeded changes of a property.
func SelfTestSeeded(prop, repo, verif string) *SelfTestResult {
	res := &SelfTestResult{}
	cases := loadSeeded(prop, repo, verif)
	if len(cases) == 0 {
		return res
	}
	tmp, err := os.MkdirTemp("", "yv-seeded-")
	if err != nil {
		res.Errors = append(res.Errors, "SELFTEST-FAIL cannot create temp dir: "+err.Error())
		return res
	}
	defer os.RemoveAll(tmp)
	rows := make([]map[string]string, len(cases))
	sem := make(chan struct{}, 5)
	var wg sync.WaitGroup
	for i, c := range cases {
		wg.Add(1)
		go func(i int, c seededCase) {
			defer wg.Done()
			sem <- struct{}{}
			defer func() { <-sem }()
			row := map[string]string{"variant": "seeded/" + c.ID, "expect": strings.Join(c.Expect, "|")}
			rows[i] = row
			if c.Skip != "" {
				row["result"] = c.Skip
				return
			}
			args := []string{"check", "-p", prop, "-tier", "quick", "-repo", repo, "-evidence", filepath.Join(tmp, fmt.Sprintf("ev%d", i)), "-noselftest"}
			j := 0
			for file, content := range c.Files {
				mf := filepath.Join(tmp, fmt.Sprintf("s%d_%d.go", i, j))
				j++
				if err := os.WriteFile(mf, []byte(content), 0o644); err != nil {
					row["result"] = "skipped: " + err.Error()
					return
				}
				args = append(args, "-overlay", file+"="+mf)
			}
			cmd := exec.Command(os.Args[0], args...)
			outb, _ := cmd.CombinedOutput()
			out := string(outb)
			code := cmd.ProcessState.ExitCode()
			hit := false
			for _, r := range c.Expect {
				if strings.Contains(out, "rule "+r+" at ") {
					hit = true
				}
			}
			switch {
			case strings.Contains(out, "NOT-ANALYSABLE"):
				row["result"] = "variant does not type-check"
			case code == 1 && hit:
				row["result"] = "killed"
			default:
				row["result"] = fmt.Sprintf("SURVIVED (exit %d)", code)
			}
		}(i, c)
	}
	wg.Wait()
	for _, r := range rows {
		res.Rows = append(res.Rows, r)
		if strings.HasPrefix(r["result"], "skipped") {
			continue
		}
		res.Total++
		if r["result"] == "killed" {
			res.Killed++
		} else {
			res.Errors = append(res.Errors, fmt.Sprintf("SELFTEST-FAIL variant=%s expect=%s: %s", r["variant"], r["expect"], r["result"]))
		}
	}
	return res
}

// SelfTestBenign re-applies, through the overlay, every stored behaviour-preserving
// refactoring (/verif/benign/<set>-<i>/patch.diff, produced by independent
// sub-agents) and requires that the property's check reports nothing on it that it
// does not report on the tree itself (baseKeys): the never-a-false-alarm side of
// the self-test.
func SelfTestBenign(prop, repo, verif string, baseKeys map[string]bool) *SelfTestResult {
	res := &SelfTestResult{}
	dirs, _ := filepath.Glob(filepath.Join(verif, "benign", "*"))
	sort.Strings(dirs)
	var cases []seededCase
	for _, d := range dirs {
		pb, err := os.ReadFile(filepath.Join(d, "patch.diff"))
		if err != nil {
			continue
		}
		c := seededCase{ID: filepath.Base(d), Files: map[string]string{}}
		for file, hs := range parseUnified(string(pb)) {
			src, err := os.ReadFile(filepath.Join(repo, file))
			if err != nil {
				c.Skip = "skipped: " + err.Error()
				break
			}
			patched, ok := applyHunks(string(src), hs)
			if !ok {
				c.Skip = "skipped: the stored patch no longer applies to " + file
				break
			}
			c.Files[file] = patched
		}
		cases = append(cases, c)
	}
	if len(cases) == 0 {
		return res
	}
	tmp, err := os.MkdirTemp("", "yv-benign-")
	if err != nil {
		res.Errors = append(res.Errors, "SELFTEST-FAIL cannot create temp dir: "+err.Error())
		return res
	}
	defer os.RemoveAll(tmp)
	rows := make([]map[string]string, len(cases))
	sem := make(chan struct{}, 5)
	var wg sync.WaitGroup
	for i, c := range cases {
		wg.Add(1)
		go func(i int, c seededCase) {
			defer wg.Done()
			sem <- struct{}{}
			defer func() { <-sem }()
			row := map[string]string{"variant": "benign/" + c.ID, "expect": "silent"}
			rows[i] = row
			if c.Skip != "" {
				row["result"] = c.Skip
				return
			}
			args := []string{"check", "-p", prop, "-tier", "quick", "-repo", repo, "-evidence", filepath.Join(tmp, fmt.Sprintf("ev%d", i)), "-noselftest"}
			j := 0
			for file, content := range c.Files {
				mf := filepath.Join(tmp, fmt.Sprintf("b%d_%d.go", i, j))
				j++
				if err := os.WriteFile(mf, []byte(content), 0o644); err != nil {
					row["result"] = "skipped: " + err.Error()
					return
				}
				args = append(args, "-overlay", file+"="+mf)
			}
			cmd := exec.Command(os.Args[0], args...)
			outb, _ := cmd.CombinedOutput()
			out := string(outb)
			var alarms []string
			for _, l := range strings.Split(out, "\n") {
				l = strings.TrimSpace(l)
				switch {
				case strings.HasPrefix(l, "rule ") && strings.Contains(l, " at "):
					k := l
					if i := strings.Index(l, ": "); i > 0 {
						k = l[i+2:]
					}
					if !baseKeys[k] {
						alarms = append(alarms, l)
					}
				case strings.HasPrefix(l, "UNDECIDED") || strings.HasPrefix(l, "ERROR"):
					alarms = append(alarms, l)
				}
			}
			switch {
			case strings.Contains(out, "NOT-ANALYSABLE"):
				row["result"] = "skipped: refactoring does not type-check on this tree"
			case len(alarms) == 0:
				row["result"] = "silent"
			default:
				row["result"] = "FALSE ALARM: " + alarms[0]
			}
		}(i, c)
	}
	wg.Wait()
	for _, r := range rows {
		res.Rows = append(res.Rows, r)
		if strings.HasPrefix(r["result"], "skipped") {
			continue
		}
		res.Total++
		if r["result"] == "silent" {
			res.Killed++
		} else {
			res.Errors = append(res.Errors, fmt.Sprintf("SELFTEST-FAIL variant=%s: %s", r["variant"], r["result"]))
		}
	}
	return res
}
