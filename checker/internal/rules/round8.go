package rules

import (
	"fmt"
	"go/constant"
	"go/token"
	"go/types"
	"sort"
	"strings"

	"yv/internal/prog"

	"golang.org/x/tools/go/ssa"
)

// Rules added for the eighth round of seeded changes (fourth rounds of C11–C20).

// loopConds: the tests that only keep a loop going (the If of a loop header).
func loopConds(fn *ssa.Function) map[*ssa.If]bool {
	out := map[*ssa.If]bool{}
	for _, l := range prog.Loops(fn) {
		if iff := prog.IfOf(l.Header); iff != nil {
			out[iff] = true
		}
		// rotated loops test at the bottom: any test in the body one of whose edges leaves the body and
		// whose other edge goes on to the header is the loop's own test
		for b := range l.Body {
			iff := prog.IfOf(b)
			if iff == nil || len(b.Succs) != 2 {
				continue
			}
			in0, in1 := l.Body[b.Succs[0]], l.Body[b.Succs[1]]
			if in0 != in1 && (b.Succs[0] == l.Header || b.Succs[1] == l.Header) {
				out[iff] = true
			}
		}
		// … and the guard in front of a rotated loop (the first test, taken before entering)
		for _, p := range l.Header.Preds {
			if !l.Body[p] {
				if iff := prog.IfOf(p); iff != nil {
					if c, ok := iff.Cond.(*ssa.BinOp); ok {
						if hi := prog.IfOf(l.Header); hi == nil {
							_ = c
							out[iff] = true
						}
					}
				}
			}
		}
	}
	return out
}

// nonLoopDeps: the control dependences of b that are not loop tests.
func (x *Ctx) nonLoopDeps(b *ssa.BasicBlock) []*ssa.If {
	lc := loopConds(b.Parent())
	var out []*ssa.If
	for _, iff := range x.P.ControlDeps(b) {
		if !lc[iff] {
			out = append(out, iff)
		}
	}
	return out
}

func init() {
	register(&Rule{ID: "ENC.sibling", Min: 1, Text: "two ways of building one message agree: in package packs (the response builders; the converter's per-kind switches legitimately differ), when a function builds the same wire message (a struct of the generated API package) at more than one place and returns it, every such place sets the same fields — a second construction added for a special case (\"a snapshot replaces the changes\") that leaves a field out drops it for exactly that case: a document removed while a client lagged behind the snapshot threshold is then answered without the removed flag, and the client never learns of the removal",
		Run: func(x *Ctx) {
			n := 0
			for _, fn := range x.P.FuncsIn("server/packs") {
				if len(fn.Blocks) == 0 {
					continue
				}
				type lit struct {
					at     *ssa.Alloc
					fields map[string]bool
				}
				byType := map[string][]lit{}
				for _, b := range fn.Blocks {
					for _, ins := range b.Instrs {
						al, ok := ins.(*ssa.Alloc)
						if !ok {
							continue
						}
						nt := namedOf(al.Type())
						if nt == nil || nt.Obj().Pkg() == nil || !strings.HasSuffix(nt.Obj().Pkg().Path(), "/"+apiPkg) {
							continue
						}
						if _, isSt := nt.Underlying().(*types.Struct); !isSt {
							continue
						}
						// returned?
						ret := false
						for _, r := range prog.Returns(fn) {
							for i := range r.Results {
								if prog.Reaches(prog.ReturnValue(r, i), func(w ssa.Value) bool { return w == ssa.Value(al) }) {
									ret = true
								}
							}
						}
						if !ret {
							continue
						}
						l := lit{al, map[string]bool{}}
						for _, r := range *al.Referrers() {
							if fa, isFA := r.(*ssa.FieldAddr); isFA {
								for _, rr := range *fa.Referrers() {
									if st, isSt := rr.(*ssa.Store); isSt && st.Addr == ssa.Value(fa) {
										if f := prog.FieldVar(fa); f != nil {
											l.fields[f.Name()] = true
										}
									}
								}
							}
						}
						byType[nt.Obj().Name()] = append(byType[nt.Obj().Name()], l)
					}
				}
				for tn, lits := range byType {
					if len(lits) < 2 {
						continue
					}
					union := map[string]bool{}
					for _, l := range lits {
						for f := range l.fields {
							union[f] = true
						}
					}
					for i, l := range lits {
						n++
						var missing []string
						for f := range union {
							if !l.fields[f] {
								missing = append(missing, f)
							}
						}
						sort.Strings(missing)
						x.check(len(missing) == 0, fmt.Sprintf("func=%s message=%s construction#%d sets-what-its-siblings-set", prog.FnName(fn), tn, i+1), x.pos(l.at),
							"every construction of the message in this function sets the same fields",
							"this construction of "+tn+" leaves out "+strings.Join(missing, ", ")+", which another construction in the same function sets: the field is dropped for the case this construction serves (a snapshot response without the removed flag: the lagging client never learns that the document was removed)")
					}
				}
			}
			if n < 1 {
				// today no function builds one message twice: nothing to compare (the stored seeded change is the positive example)
				x.C.Add(obTrivial(x.id(), "no-function-builds-one-message-twice", "", "no function of package packs returns the same wire message from two constructions on this tree"))
			}
		}})

	register(&Rule{ID: "P.undo", Min: 1, Text: "an undo or redo that restores presence is propagated: in Document.executeUndoRedo a return of nil that comes after the change was executed and before it is committed to the local changes (the 'nothing observable' exit) is reachable only where the change has no presence part (PresenceChange() == nil) — the change has already been applied to the document and the editing copy, so dropping it from the local changes leaves the replicas with different presences for good",
		Run: func(x *Ctx) {
			fn := x.fn(docPkg + ".(*Document).executeUndoRedo")
			exec := x.P.FnObj(changePkg + ".(*Change).Execute")
			pc := x.P.FnObj(changePkg + ".(*Change).PresenceChange")
			lcF := x.P.Field(docPkg + ".InternalDocument.localChanges")
			if fn == nil || exec == nil || pc == nil || lcF == nil {
				if exec == nil || pc == nil || lcF == nil {
					x.C.Unresolved(x.id(), "Change.Execute / Change.PresenceChange / InternalDocument.localChanges")
				}
				return
			}
			execs := callsToIn(fn, exec)
			commits := asInstrs(storesTo(fn, lcF))
			noPresence := []Cmp{{L: vpCall(pc), R: vpNil, Want: EQ}}
			n := 0
			for i, r := range prog.Returns(fn) {
				if !prog.ReturnsNilError(r) {
					continue
				}
				after := false
				for _, e := range execs {
					if prog.MayPrecede(e, r) {
						after = true
					}
				}
				if !after || passesThrough(r, commits) {
					continue
				}
				n++
				x.guardedSite(fmt.Sprintf("func=%s uncommitted-ok-return#%d only-without-presence", prog.FnName(fn), i+1), r, noPresence, nil)
			}
			if n < 1 {
				x.C.Vacuous(x.id()+" uncommitted success exits after Execute", n, 1)
			}
		}})

	register(&Rule{ID: "P.attach", Min: 1, Text: "the presence gate of an attached document is the server's: in the client SDK, the argument of Document.SetDisablePresence in Client.attachDocument is computed from the attach response (a field of the generated API message), not from the caller's options — the flag is fixed by the first attach; a late attacher without the option must still gate presence locally, or it shows presence on its own replica that the server strips for everybody else",
		Run: func(x *Ctx) {
			fn := x.fn("client.(*Client).attachDocument")
			set := x.P.FnObj(docPkg + ".(*Document).SetDisablePresence")
			if fn == nil || set == nil {
				if set == nil {
					x.C.Unresolved(x.id(), "Document.SetDisablePresence")
				}
				return
			}
			n := 0
			for i, c := range callsToIn(fn, set) {
				n++
				fromResp := prog.DependsOn(paramArg(c, 0), func(w ssa.Value) bool {
					var base types.Type
					switch t := w.(type) {
					case *ssa.FieldAddr:
						base = t.X.Type()
					case *ssa.Field:
						base = t.X.Type()
					default:
						return false
					}
					nt := namedOf(base)
					return nt != nil && nt.Obj().Pkg() != nil && strings.HasSuffix(nt.Obj().Pkg().Path(), "/"+apiPkg)
				})
				x.check(fromResp, fmt.Sprintf("func=%s SetDisablePresence#%d from-the-response", prog.FnName(fn), i+1), x.pos(c),
					"the gate is set from the server's answer", "the document's presence gate is set from the caller's options, not from the attach response: a late attacher of a presenceless document keeps applying presence locally")
			}
			if n < 1 {
				x.C.Vacuous(x.id()+" SetDisablePresence calls", n, 1)
			}
		}})

	register(&Rule{ID: "T2.wrap", Min: 1, Text: "no handler goes through an unscoped helper: a function outside the RPC layer that performs a Database lookup by a bare id (no project-scoping parameter, record has a ProjectID — computed as for T2) and does not itself compare the record's ProjectID is an unscoped helper; the RPC layer does not call unscoped helpers. Helpers that compare (revisions.Restore) are listed as the instances that hold",
		Run: func(x *Ctx) {
			lookups := x.unscopedLookups()
			unscoped := map[*types.Func]string{}
			scoped := map[*types.Func]bool{}
			for m := range lookups {
				for _, c := range x.directCallers(m) {
					h := c.Parent()
					pk := strings.TrimPrefix(prog.PkgOf(h), prog.Mod+"/")
					if !strings.HasPrefix(pk, "server/") || pk == "server/rpc" || strings.HasPrefix(pk, "server/backend") || h.Parent() != nil {
						continue
					}
					ho, _ := h.Object().(*types.Func)
					if ho == nil {
						continue
					}
					call, ok := c.(*ssa.Call)
					if !ok {
						continue
					}
					// does the function compare the record's ProjectID?
					compares := false
					for _, b := range h.Blocks {
						iff := prog.IfOf(b)
						if iff == nil {
							continue
						}
						if prog.DependsOn(iff.Cond, func(w ssa.Value) bool {
							f := prog.LoadedField(w)
							if f == nil || f.Name() != "ProjectID" || prog.FieldBase(w) == nil {
								return false
							}
							return prog.Reaches(prog.FieldBase(w), func(u ssa.Value) bool {
								ex, isE := u.(*ssa.Extract)
								return isE && ex.Tuple == ssa.Value(call)
							})
						}) {
							compares = true
						}
					}
					if compares {
						scoped[ho] = true
					} else {
						unscoped[ho] = m.Name()
					}
				}
			}
			n := 0
			for ho := range scoped {
				for _, c := range x.directCallers(ho) {
					if strings.TrimPrefix(prog.PkgOf(c.Parent()), prog.Mod+"/") == "server/rpc" {
						n++
						x.hold(fmt.Sprintf("handler=%s helper=%s.%s compares-the-project", prog.FnName(c.Parent()), ho.Pkg().Name(), ho.Name()), x.pos(c), "the helper compares the record's ProjectID itself")
					}
				}
			}
			for ho, via := range unscoped {
				for _, c := range x.directCallers(ho) {
					if strings.TrimPrefix(prog.PkgOf(c.Parent()), prog.Mod+"/") == "server/rpc" {
						n++
						x.fail(fmt.Sprintf("handler=%s helper=%s.%s unscoped", prog.FnName(c.Parent()), ho.Pkg().Name(), ho.Name()), x.pos(c),
							"the handler fetches a record through "+ho.Pkg().Name()+"."+ho.Name()+", which looks it up by a bare id ("+via+") and never compares its ProjectID: the record of any project is served to whoever knows (or guesses) the id")
					}
				}
			}
			if n < 1 {
				x.C.Vacuous(x.id()+" helper calls from the RPC layer", n, 1)
			}
		}})

	register(&Rule{ID: "T.blank", Min: 1, Text: "the credential that is tested is the credential that is used: in the interceptors, the string handed to the project lookup (projects.ProjectFromSecretKey / ProjectFromAPIKey, GetProjectFromAPIKey) is the string whose emptiness decides the rejection — when the lookup gets a trimmed value (strings.TrimSpace(p)), some emptiness test on the way is made on the trimmed value too. Tested raw and used trimmed, a credential of blank characters passes the test, becomes the empty key, and resolves to the default project",
		Run: func(x *Ctx) {
			n := 0
			for _, fn := range x.P.FuncsIn("server/rpc/interceptors") {
				for _, c := range prog.CallsIn(fn) {
					o := prog.CallObj(c)
					if o == nil || !(strings.HasPrefix(o.Name(), "ProjectFrom") || strings.HasPrefix(o.Name(), "GetProjectFrom")) {
						continue
					}
					// the string argument
					var arg ssa.Value
					for _, a := range c.Common().Args {
						if b, ok := a.Type().Underlying().(*types.Basic); ok && b.Kind() == types.String {
							arg = a
						}
					}
					if arg == nil {
						continue
					}
					tc, isTrim := prog.Strip(arg).(*ssa.Call)
					if !isTrim || prog.CallObj(tc) == nil || prog.CallObj(tc).FullName() != "strings.TrimSpace" {
						continue // used as it came: whatever test there is sees the same string
					}
					n++
					raw := tc.Call.Args[0]
					// an emptiness test of TrimSpace(raw) in the function
					tested := false
					rawTested := false
					for _, b := range fn.Blocks {
						for _, ins := range b.Instrs {
							bo, ok := ins.(*ssa.BinOp)
							if !ok || !(bo.Op == token.EQL || bo.Op == token.NEQ) {
								continue
							}
							for _, pair := range [][2]ssa.Value{{bo.X, bo.Y}, {bo.Y, bo.X}} {
								k, isK := pair[1].(*ssa.Const)
								if !isK || k.Value == nil || k.Value.Kind() != constant.String || constant.StringVal(k.Value) != "" {
									continue
								}
								if t2, isC := prog.Strip(pair[0]).(*ssa.Call); isC && prog.CallObj(t2) != nil && prog.CallObj(t2).FullName() == "strings.TrimSpace" && sameAccessPath(t2.Call.Args[0], raw) {
									tested = true
								}
								if sameAccessPath(pair[0], raw) || prog.Strip(pair[0]) == prog.Strip(raw) {
									rawTested = true
								}
							}
						}
					}
					x.check(tested || !rawTested, fmt.Sprintf("func=%s lookup=%s emptiness-tested-on-what-is-used", prog.FnName(fn), o.Name()), x.pos(c),
						"the emptiness test sees the trimmed value the lookup gets",
						"the lookup gets strings.TrimSpace(x) while the emptiness test is made on x itself: a credential of blank characters passes the test and is looked up as the empty key — with the default project present, an admin call without a credential is accepted for it")
				}
			}
			if n < 1 {
				x.C.Vacuous(x.id()+" trimmed credentials handed to a project lookup", n, 1)
			}
		}})

	register(&Rule{ID: "DB.exact", Min: 10, Text: "single-row lookups are exact: in the memory backend, the index name handed to Txn.First (one row by key) never ends in \"_prefix\" — go-memdb turns such a name into a prefix scan, so a lookup of a project by its public key would accept any leading part of a real key (keys recoverable one character at a time). Prefix scans belong to the listing functions, which iterate (Txn.Get / LowerBound)",
		Run: func(x *Ctx) {
			n := 0
			cnt := map[string]int{}
			for _, fn := range x.P.FuncsIn(memPkg) {
				for _, c := range prog.CallsIn(fn) {
					o := prog.CallObj(c)
					if o == nil || o.Name() != "First" || o.Pkg() == nil || !strings.Contains(o.Pkg().Path(), "memdb") {
						continue
					}
					args := c.Common().Args
					if len(args) < 3 {
						continue
					}
					idx, ok := constString(args[2])
					if !ok {
						continue
					}
					n++
					cnt[prog.FnName(fn)]++
					x.check(!strings.HasSuffix(idx, "_prefix"), fmt.Sprintf("func=%s First#%d(%s) exact-index", prog.FnName(fn), cnt[prog.FnName(fn)], strings.TrimSuffix(idx, "_prefix")), x.pos(c),
						"the row is looked up by the exact value", "a single-row lookup uses the prefix form of index "+idx+": any leading part of a stored value matches — an API key truncated to one character resolves to a project")
				}
			}
			if n < 10 {
				x.C.Vacuous(x.id()+" single-row lookups", n, 10)
			}
		}})

	register(&Rule{ID: "L.send", Min: 2, Text: "a forwarding goroutine can always be told to stop: in the RPC layer, inside a function started with `go`, every send on a channel is one arm of a select that has at least one other arm (the done channel / the context) — a bare send blocks for ever once the reader has returned, and each such stream leaks a goroutine and its subscription",
		Run: func(x *Ctx) {
			n := 0
			for _, fn := range x.P.FuncsIn("server/rpc") {
				for _, b := range fn.Blocks {
					for _, ins := range b.Instrs {
						g, ok := ins.(*ssa.Go)
						if !ok {
							continue
						}
						var bodies []*ssa.Function
						if mc, isMC := g.Call.Value.(*ssa.MakeClosure); isMC {
							if f, isF := mc.Fn.(*ssa.Function); isF {
								bodies = append(bodies, f)
							}
						} else if f, isF := g.Call.Value.(*ssa.Function); isF {
							bodies = append(bodies, f)
						}
						for _, body := range bodies {
							i := 0
							for _, bb := range body.Blocks {
								for _, bi := range bb.Instrs {
									switch t := bi.(type) {
									case *ssa.Send:
										i++
										n++
										x.fail(fmt.Sprintf("goroutine=%s send#%d selects-on-done", prog.FnName(body), i), x.pos(t),
											"a goroutine sends on a channel outside any select: once the reader of the channel has returned (the client disconnected in the middle of a burst) the goroutine blocks for ever")
									case *ssa.Select:
										sends := 0
										for _, st := range t.States {
											if st.Dir == types.SendOnly {
												sends++
											}
										}
										if sends == 0 {
											continue
										}
										i++
										n++
										x.check(len(t.States) >= 2 && len(t.States) > sends, fmt.Sprintf("goroutine=%s send#%d selects-on-done", prog.FnName(body), i), x.pos(t),
											"the send is one arm of a select with a receiving arm", "the select around the send has no receiving arm: nothing can tell the goroutine to stop")
									}
								}
							}
						}
					}
				}
			}
			if n < 2 {
				x.C.Vacuous(x.id()+" sends in goroutines of the RPC layer", n, 2)
			}
		}})

	register(&Rule{ID: "L2.loop", Min: 1, Text: "a lock taken per iteration is released per iteration: a named lock (document, pull, attachment … as classified by L1) acquired inside a loop is not released by a defer — a defer runs when the function returns, so the lock of every earlier iteration is still held while the next one is awaited; two listings walking the same documents in opposite directions and two writers then wait for each other in a cycle",
		Run: func(x *Ctx) {
			m := x.locks()
			n := 0
			for _, a := range m.acqs {
				inLoop := false
				for _, l := range prog.Loops(a.Fn) {
					if l.Body[a.Call.Block()] {
						inLoop = true
					}
				}
				if !inLoop {
					continue
				}
				n++
				x.check(!a.Defer, acqKey(a, m.ordinal(a))+" released-within-the-iteration", x.pos(a.Call),
					"released explicitly inside the iteration", "the lock is acquired inside a loop and released by a defer: it stays held until the function returns, while the following iterations wait for further locks of the same class")
			}
			if n < 1 {
				x.C.Vacuous(x.id()+" acquisitions inside loops", n, 1)
			}
		}})
}

func init() {
	register(&Rule{ID: "CMAP.all", Min: 2, Text: "a snapshot of the map holds everything that was there: in pkg/cmap, in the functions that collect the items of all shards into a slice (Values, Keys …), putting an item into the result inside the loop over a shard's items depends on nothing but the loops themselves — in particular not on a count taken in an earlier pass. A Subscribe landing between a counting pass and the collecting pass otherwise cuts established watchers off the result: the batch publisher skips them for that batch, and the batch is gone",
		Run: func(x *Ctx) {
			n := 0
			for _, fn := range x.P.FuncsIn("pkg/cmap") {
				if len(fn.Blocks) == 0 || (fn.Origin() != nil && fn.Origin() != fn) || fn.Signature.Results().Len() != 1 {
					continue
				}
				if _, isSl := fn.Signature.Results().At(0).Type().Underlying().(*types.Slice); !isSl {
					continue
				}
				i := 0
				for _, b := range fn.Blocks {
					for _, ins := range b.Instrs {
						rg, ok := ins.(*ssa.Range)
						if !ok {
							continue
						}
						if _, isMap := rg.X.Type().Underlying().(*types.Map); !isMap {
							continue
						}
						fed := func(v ssa.Value) bool {
							return prog.DependsOn(v, func(w ssa.Value) bool {
								nx, isN := w.(*ssa.Next)
								return isN && nx.Iter == ssa.Value(rg)
							})
						}
						// the places where an item goes into the result
						var puts []ssa.Instruction
						for _, ap := range builtinCalls(fn, "append") {
							for _, a := range ap.Call.Args[1:] {
								if fed(a) {
									puts = append(puts, ap)
								}
							}
						}
						for _, bb := range fn.Blocks {
							for _, bi := range bb.Instrs {
								if st, isSt := bi.(*ssa.Store); isSt {
									if _, isIA := st.Addr.(*ssa.IndexAddr); isIA && fed(st.Val) {
										puts = append(puts, st)
									}
								}
							}
						}
						if len(puts) == 0 {
							continue
						}
						i++
						n++
						bad := ""
						for _, p := range puts {
							for _, iff := range x.nonLoopDeps(p.Block()) {
								bad = x.pos(iff)
							}
						}
						x.check(bad == "", fmt.Sprintf("func=%s shard-walk#%d every-item-collected", prog.FnName(fn), i), x.pos(rg),
							"every item of the shard goes into the result", "putting an item into the result is decided by a test (at "+bad+") that is not a loop condition: items present in the map are left out of the snapshot — a watcher that subscribed long ago misses a whole batch of events when another client subscribes at the wrong moment")
					}
				}
			}
			if n < 2 {
				x.C.Vacuous(x.id()+" shard walks that collect items", n, 2)
			}
		}})

	register(&Rule{ID: "PS.reset", Min: 1, Text: "the de-duplication counters are reset with the batch they counted: in BatchPublisher.publish the onPublish hook is called in the same critical section in which the pending batch is taken (events set to nil) — no Unlock of the publisher's mutex can come between the two. Reset after the fan-out, events that arrive while batch N is delivered are counted against batch N's counters and dropped, and are in neither batch",
		Run: func(x *Ctx) {
			fn := x.fn(psPkg + ".(*BatchPublisher).publish")
			if fn == nil {
				return
			}
			// the take, the hook and the unlocks may live in publish or in a helper method it calls (flushFns); an
			// event inside a helper is ordered against events elsewhere by the helper's call site in publish
			var take ssa.Instruction
			var hooks, unlocks []ssa.CallInstruction
			host := map[ssa.Instruction]*ssa.Function{}
			for _, f := range x.flushFns(fn) {
				for _, b := range f.Blocks {
					for _, ins := range b.Instrs {
						if st, ok := ins.(*ssa.Store); ok && prog.IsNilConst(st.Val) {
							if fa, isFA := st.Addr.(*ssa.FieldAddr); isFA && prog.FieldVar(fa) != nil && prog.FieldVar(fa).Name() == "events" {
								take = st
								host[st] = f
							}
						}
					}
				}
				for _, c := range prog.CallsIn(f) {
					if fl := prog.LoadedField(c.Common().Value); fl != nil && fl.Name() == "onPublish" {
						hooks = append(hooks, c)
						host[c] = f
					}
					if o := prog.CallObj(c); o != nil && o.Name() == "Unlock" {
						if _, isD := c.(*ssa.Defer); !isD {
							unlocks = append(unlocks, c)
							host[c] = f
						}
					}
				}
			}
			if take == nil || len(hooks) == 0 {
				x.fail("func="+prog.FnName(fn)+" shape", x.fpos(fn), "publish no longer takes the pending batch and calls the onPublish hook")
				return
			}
			ci := x.calls()
			// sitesOf: where an event happens from publish's point of view
			sitesOf := func(ins ssa.Instruction) []ssa.Instruction {
				if host[ins] == fn {
					return []ssa.Instruction{ins}
				}
				var out []ssa.Instruction
				for _, e := range ci.out[fn] {
					if e.Callee == host[ins] && e.Site != nil {
						out = append(out, e.Site)
					}
				}
				return out
			}
			// before(a, b): a may come before b in one run of publish
			before := func(a, b ssa.Instruction) bool {
				if host[a] == host[b] {
					return prog.MayPrecede(a, b)
				}
				for _, sa := range sitesOf(a) {
					for _, sb := range sitesOf(b) {
						if sa == sb || prog.MayPrecede(sa, sb) {
							return true
						}
					}
				}
				return false
			}
			for i, h := range hooks {
				bad := ""
				for _, u := range unlocks {
					if before(take, u) && before(u, h) {
						bad = x.pos(u)
					}
				}
				if !before(take, h) {
					bad = "the hook runs before the batch is taken"
				}
				x.check(bad == "", fmt.Sprintf("func=%s onPublish#%d same-critical-section-as-the-take", prog.FnName(fn), i+1), x.pos(h),
					"the counters are reset in the critical section that takes the batch", "the mutex is released (at "+bad+") between taking the batch and resetting the de-duplication counters: events enqueued in between are counted against the old batch and dropped")
			}
		}})

	register(&Rule{ID: "YSON.esc", Min: 1, Text: "a backslash escapes whatever follows: in the quote-aware scanner of the YSON parser (a function of package yson that compares with the quote character), the test for a backslash leads straight to the skip of the next character — its true edge is not a further test (of what that next character is). A scanner that only honours \\\" is out of phase after a literal that ends in an escaped backslash (\"C:\\\\logs\\\\\"): the text no longer parses and the revision cannot be restored",
		Run: func(x *Ctx) {
			n := 0
			for _, fn := range x.P.FuncsIn(ysonPkgRel) {
				if len(fn.Blocks) == 0 || !looksAtQuotes(fn) {
					continue
				}
				i := 0
				for _, b := range fn.Blocks {
					iff := prog.IfOf(b)
					if iff == nil {
						continue
					}
					bo, ok := iff.Cond.(*ssa.BinOp)
					if !ok || bo.Op != token.EQL {
						continue
					}
					isBS := func(v ssa.Value) bool {
						k, ok := v.(*ssa.Const)
						if !ok || k.Value == nil || k.Value.Kind() != constant.Int {
							return false
						}
						c, exact := constant.Int64Val(k.Value)
						return exact && c == '\\'
					}
					if !isBS(bo.X) && !isBS(bo.Y) {
						continue
					}
					i++
					n++
					t := b.Succs[0]
					x.check(prog.IfOf(t) == nil, fmt.Sprintf("func=%s backslash-test#%d skips-unconditionally", prog.FnName(fn), i), x.pos(iff),
						"the character after a backslash is skipped whatever it is", "the skip after a backslash depends on a further test: escapes other than the one tested (an escaped backslash at the end of a literal) leave the scanner out of phase, and everything after that literal is rewritten or left unconverted")
				}
			}
			if n < 1 {
				x.C.Vacuous(x.id()+" backslash tests in the scanner", n, 1)
			}
		}})

	register(&Rule{ID: "DB.keep", Min: 1, Text: "compaction keeps what hangs off the document but not off its log: nothing reachable from the memory backend's CompactChangeInfos (its helpers in the package included) deletes from or inserts into the revisions table — revisions are snapshots of user-visible content taken on purpose; a purge helper that the compaction shares with PurgeDocument and that is extended to clear them makes every compaction silently delete the document's revisions",
		Run: func(x *Ctx) {
			fn := x.fn(memPkg + ".(*DB).CompactChangeInfos")
			if fn == nil {
				return
			}
			// the table names are package variables: an argument is the revisions table when it loads tblRevisions
			// (or is the string "revisions")
			if x.P.Lookup(memPkg+".tblRevisions") == nil {
				x.C.Unresolved(x.id(), memPkg+".tblRevisions")
				return
			}
			isRev := func(v ssa.Value) bool {
				if t, ok := constString(v); ok && t == "revisions" {
					return true
				}
				if u, ok := prog.Strip(v).(*ssa.UnOp); ok {
					if g, isG := u.X.(*ssa.Global); isG {
						return g.Name() == "tblRevisions"
					}
				}
				return false
			}
			clo := x.closureOf([]*ssa.Function{fn}, []string{memPkg})
			bad := ""
			nw := 0
			for g := range clo {
				for _, c := range prog.CallsIn(g) {
					o := prog.CallObj(c)
					if o == nil || o.Pkg() == nil || !strings.Contains(o.Pkg().Path(), "memdb") {
						continue
					}
					switch o.Name() {
					case "Delete", "DeleteAll", "Insert", "DeletePrefix":
					default:
						continue
					}
					args := c.Common().Args
					if len(args) < 2 {
						continue
					}
					nw++
					if isRev(args[1]) {
						bad = x.pos(c)
					}
				}
			}
			x.check(bad == "" && nw > 0, "func="+prog.FnName(fn)+" writes-no-revision-row", x.fpos(fn), fmt.Sprintf("%d table writes reachable from the compaction, none on the revisions table", nw),
				"a write to the revisions table (at "+bad+") is reachable from CompactChangeInfos: every compaction deletes the document's revisions — List returns nothing and Restore fails with 'revision not found' although Compact reported success")
		}})

	register(&Rule{ID: "CS.upsert", Min: 2, Text: "the change cache follows the store's upsert: (a) in ChangeStore.ReplaceOrInsert every given change reaches the B-tree's ReplaceOrInsert — the call in the loop depends on nothing but the loop (in particular not on whether the sequence is already cached: the table is an upsert keyed by the sequence, a re-written sequence replaces the row); (b) the elements of ChangeStore.ranges are modified only by assigning the result of mergeAdjacentRanges — no method stores into a field of a range in place (a fast path that bumps the last range's To without testing adjacency claims sequences that were never fetched, and nothing ever fetches them)",
		Run: func(x *Ctx) {
			n := 0
			if fn := x.fn(mongoPkg + ".(*ChangeStore).ReplaceOrInsert"); fn != nil {
				for i, c := range prog.CallsIn(fn) {
					o := prog.CallObj(c)
					if o == nil || o.Name() != "ReplaceOrInsert" || o.Pkg() == nil || !strings.Contains(o.Pkg().Path(), "btree") {
						continue
					}
					n++
					deps := x.nonLoopDeps(c.Block())
					bad := ""
					if len(deps) > 0 {
						bad = x.pos(deps[0])
					}
					x.check(bad == "", fmt.Sprintf("func=%s tree-upsert#%d unconditional", prog.FnName(fn), i+1), x.pos(c),
						"every given change is upserted", "a given change reaches the tree only under a test (at "+bad+"): a sequence that is already cached keeps its old value although the store has replaced the row — pullers get the failed client's change twice and never the stored one")
				}
			}
			rangesF := x.P.Field(mongoPkg + ".ChangeStore.ranges")
			if rangesF == nil {
				x.C.Unresolved(x.id(), mongoPkg+".ChangeStore.ranges")
				return
			}
			for _, fn := range x.P.FuncsIn(mongoPkg) {
				if fn.Signature.Recv() == nil || namedOf(fn.Signature.Recv().Type()) == nil || namedOf(fn.Signature.Recv().Type()).Obj().Name() != "ChangeStore" {
					continue
				}
				bad := ""
				touches := false
				for _, b := range fn.Blocks {
					for _, ins := range b.Instrs {
						st, ok := ins.(*ssa.Store)
						if !ok {
							continue
						}
						// a store through an element of s.ranges
						var base ssa.Value = st.Addr
						viaElem := false
						for d := 0; d < 4; d++ {
							switch t := base.(type) {
							case *ssa.FieldAddr:
								if prog.FieldVar(t) == rangesF {
									touches = true
								}
								base = t.X
								continue
							case *ssa.IndexAddr:
								if prog.LoadedField(t.X) == rangesF {
									viaElem = true
								}
								base = t.X
								continue
							}
							break
						}
						if viaElem {
							bad = x.pos(st)
						}
					}
				}
				if !touches && bad == "" {
					continue
				}
				n++
				x.check(bad == "", "func="+prog.FnName(fn)+" ranges-only-replaced-never-patched", x.fpos(fn), "ranges are replaced as a whole (by the merge), never patched in place",
					"a range of the fetched-range bookkeeping is modified in place (at "+bad+"), outside the merge that knows adjacency: a range can grow over sequences that were never fetched — a pull across the gap returns without them and never asks the store")
			}
			if n < 2 {
				x.C.Vacuous(x.id()+" cache upsert sites", n, 2)
			}
		}})
}

func init() {
	register(&Rule{ID: "REV.span", Min: 1, Text: "a reverse names only what its edit did: in crdt.Tree.tombstoneCollected (the delete loop of Tree.Edit) a node is added to the removed spans — the identities an undo revives — only on the edge where this edit's remove() of that node returned true (it made the visible → tombstoned transition). Recorded for every visited node, the undo of a deletion also resurrects what earlier, independent deletions had removed inside the range",
		Run: func(x *Ctx) {
			n := 0
			for _, fn := range x.P.FuncsIn(crdtPkg) {
				if len(fn.Blocks) == 0 {
					continue
				}
				var removes []ssa.Value
				for _, c := range prog.CallsIn(fn) {
					if o := prog.CallObj(c); o != nil && o.Name() == "remove" && c.Value() != nil && isBoolType(c.Value().Type()) {
						tested := false
						for _, r := range *c.Value().Referrers() {
							if _, isIf := r.(*ssa.If); isIf {
								tested = true
							}
						}
						if tested {
							removes = append(removes, c.Value())
						}
					}
				}
				if len(removes) == 0 {
					continue
				}
				for i, c := range prog.CallsIn(fn) {
					o := prog.CallObj(c)
					if o == nil || o.Name() != "appendRestoreSpan" {
						continue
					}
					// the span of the node that was handed to remove()
					var rm ssa.Value
					for _, r := range removes {
						rc := r.(*ssa.Call)
						if len(rc.Call.Args) > 0 && len(c.Common().Args) > 1 && sameAccessPath(rc.Call.Args[0], c.Common().Args[1]) {
							rm = r
						}
					}
					if rm == nil {
						continue
					}
					n++
					x.guardedSite(fmt.Sprintf("func=%s span-append#%d only-if-this-edit-removed-the-node", prog.FnName(fn), i+1), c, []Cmp{isTrue(vpValue(rm))}, nil)
				}
			}
			if n < 1 {
				x.C.Vacuous(x.id()+" span appends next to a remove()", n, 1)
			}
		}})

	register(&Rule{ID: "SPLIT.rel", Min: 2, Text: "a split offset is relative to the node that is split: in the CRDT model, where the offset handed to TreeNode.Split is computed as (something − X.id.Offset), X is the receiver of that Split — after a first cut re-pointed the variable to the right half, subtracting the original piece's offset addresses a place outside the node (the redo of a deletion inside a coarse recreated node removes the wrong characters or fails with 'split offset out of range')",
		Run: func(x *Ctx) {
			n := 0
			for _, fn := range x.P.FuncsIn(crdtPkg) {
				for i, c := range prog.CallsIn(fn) {
					o := prog.CallObj(c)
					if o == nil || o.Name() != "Split" || len(c.Common().Args) < 3 {
						continue
					}
					recv := c.Common().Args[0]
					if nt := namedOf(recv.Type()); nt == nil || nt.Obj().Name() != "TreeNode" {
						continue
					}
					bo, ok := prog.Strip(c.Common().Args[2]).(*ssa.BinOp)
					if !ok || bo.Op != token.SUB {
						continue
					}
					// Y = Z.id.Offset
					f := prog.LoadedField(bo.Y)
					if f == nil || f.Name() != "Offset" {
						continue
					}
					idv := prog.FieldBase(bo.Y) // Z.id (loaded pointer)
					if idv == nil || prog.LoadedField(idv) == nil || prog.LoadedField(idv).Name() != "id" {
						continue
					}
					z := prog.FieldBase(idv)
					n++
					x.check(z != nil && (prog.Strip(z) == prog.Strip(recv) || sameAccessPath(z, recv)), fmt.Sprintf("func=%s Split#%d offset-relative-to-the-receiver", prog.FnName(fn), i+1), x.pos(c),
						"the offset subtracts the receiver's own start", "the offset handed to Split subtracts the start of a different node than the one being split")
				}
			}
			if n < 2 {
				x.C.Vacuous(x.id()+" Split calls with a relative offset", n, 2)
			}
		}})

	register(&Rule{ID: "ANCHOR.left", Min: 1, Text: "a restore anchor lies in front of the gap: in RGATreeSplit.findRestoreAnchor, a node whose offset was tested to be at or behind the end of the gap (node.ID().Offset() >= gapEnd) is never itself returned as the anchor on that edge — the recreated run is linked behind the anchor, so the anchor is that node's predecessor. Returned itself, the peer that purged the tombstones shows the undone text behind the surviving piece instead of in front of it",
		Run: func(x *Ctx) {
			fn := x.fn(crdtPkg + ".(*RGATreeSplit).findRestoreAnchor")
			if fn == nil {
				return
			}
			n := 0
			for _, b := range fn.Blocks {
				iff := prog.IfOf(b)
				if iff == nil {
					continue
				}
				// find a comparison X.…Offset() >= <param> in the condition (possibly the last conjunct)
				var nodeV ssa.Value
				var walk func(v ssa.Value, d int)
				walk = func(v ssa.Value, d int) {
					if d > 4 || nodeV != nil {
						return
					}
					switch t := v.(type) {
					case *ssa.BinOp:
						if t.Op == token.GEQ || t.Op == token.GTR {
							if c, ok := prog.Strip(t.X).(*ssa.Call); ok && prog.CallObj(c) != nil && prog.CallObj(c).Name() == "Offset" {
								if _, isP := prog.Strip(t.Y).(*ssa.Parameter); isP {
									// the receiver chain: node.ID().Offset()
									r := recvOf(c)
									if rc, isC := prog.Strip(r).(*ssa.Call); isC {
										r = recvOf(rc)
									}
									nodeV = r
								}
							}
						}
					case *ssa.Phi:
						for _, e := range t.Edges {
							walk(e, d+1)
						}
					}
				}
				walk(iff.Cond, 0)
				if nodeV == nil {
					continue
				}
				n++
				// returns reached over the true edge
				bad := ""
				reach := prog.ReachableFrom(b.Succs[0], nil)
				reach[b.Succs[0]] = true
				for _, r := range prog.Returns(fn) {
					if !reach[r.Block()] || !b.Succs[0].Dominates(r.Block()) && b.Succs[0] != r.Block() {
						continue
					}
					rv := prog.ReturnValue(r, 0)
					if prog.Strip(rv) == prog.Strip(nodeV) || sameAccessPath(rv, nodeV) {
						bad = x.pos(r)
					}
				}
				x.check(bad == "", fmt.Sprintf("func=%s behind-the-gap-test#%d the-node-itself-is-not-the-anchor", prog.FnName(fn), n), x.pos(iff),
					"the anchor is taken from in front of the node found behind the gap", "the node found at or behind the end of the gap is returned itself as the anchor (at "+bad+"): the recreated run is linked behind it, i.e. behind the surviving piece that follows the gap")
			}
			if n < 1 {
				x.C.Vacuous(x.id()+" behind-the-gap tests", n, 1)
			}
		}})

	register(&Rule{ID: "TRAV.full", Min: 2, Text: "an index built by walking the tree covers the tree: a callback handed to a Descendants walk that fills a lookup table (it updates a map) never prunes the walk — every return of the callback is the constant false. A walk that stops below tombstones leaves what lies under a removed ancestor out of the table; isRemovedOrOrphaned then no longer sees that an undo's target sits in a subtree a peer removed, the undo is executed and pushed, and peers that collected the subtree fail with 'not applicable datatype'",
		Run: func(x *Ctx) {
			n := 0
			for _, fn := range x.P.FuncsIn(opsPkg, crdtPkg, docPkg) {
				for _, c := range prog.CallsIn(fn) {
					name := ""
					if c.Common().IsInvoke() {
						name = c.Common().Method.Name()
					} else if o := prog.CallObj(c); o != nil {
						name = o.Name()
					}
					if name != "Descendants" {
						continue
					}
					for _, cl := range closureArgs(c) {
						fills := false
						for _, b := range cl.Blocks {
							for _, ins := range b.Instrs {
								if _, ok := ins.(*ssa.MapUpdate); ok {
									fills = true
								}
							}
						}
						if !fills || cl.Signature.Results().Len() != 1 || !isBoolType(cl.Signature.Results().At(0).Type()) {
							continue
						}
						n++
						bad := ""
						for _, r := range prog.Returns(cl) {
							k, isK := prog.ReturnValue(r, 0).(*ssa.Const)
							if !isK || k.Value == nil || k.Value.Kind() != constant.Bool || constant.BoolVal(k.Value) {
								bad = x.pos(r)
							}
						}
						x.check(bad == "", fmt.Sprintf("callback=%s never-prunes", prog.FnName(cl)), x.fpos(cl), "the walk that fills the table visits every descendant",
							"the callback that fills the table can stop the walk (return at "+bad+" is not the constant false): descendants below the stopping point are missing from the table")
					}
				}
			}
			if n < 2 {
				x.C.Vacuous(x.id()+" table-filling Descendants callbacks", n, 2)
			}
		}})

	register(&Rule{ID: "VIS.absent", Min: 3, Text: "an author the editor has never heard of is an author whose work it has not seen: in the CRDT model, wherever the entry of a version vector is looked up (vector.Get) and compared with a ticket's lamport, the edge on which the actor is absent from the vector leads where the edge on which the entry is too small leads — never where 'covered' leads. Treated as known, a split sibling made by an actor the editor never pulled from stops the walk in front of it, and two concurrent splits diverge",
		Run: func(x *Ctx) {
			getM := x.P.FnObj(timePkg + ".VersionVector.Get")
			if getM == nil {
				x.C.Unresolved(x.id(), timePkg+".VersionVector.Get")
				return
			}
			n := 0
			for _, fn := range x.P.FuncsIn(crdtPkg) {
				if len(fn.Blocks) == 0 || (fn.Origin() != nil && fn.Origin() != fn) {
					continue
				}
				i := 0
				for _, b := range fn.Blocks {
					iff := prog.IfOf(b)
					if iff == nil {
						continue
					}
					// the ok of a vector.Get
					ex, ok := iff.Cond.(*ssa.Extract)
					if !ok || ex.Index != 1 {
						continue
					}
					gc, isC := ex.Tuple.(*ssa.Call)
					if !isC || !sameFunc(prog.CallObj(gc), getM) {
						continue
					}
					// the comparison of the entry on the found edge
					cb := b.Succs[0]
					cif := prog.IfOf(cb)
					if cif == nil {
						continue
					}
					bo, isB := cif.Cond.(*ssa.BinOp)
					if !isB {
						continue
					}
					usesEntry := func(v ssa.Value) bool {
						e, ok := v.(*ssa.Extract)
						return ok && e.Tuple == ssa.Value(gc) && e.Index == 0
					}
					var coveredSucc, notCoveredSucc *ssa.BasicBlock
					switch {
					case usesEntry(bo.X) && (bo.Op == token.GEQ || bo.Op == token.GTR):
						coveredSucc, notCoveredSucc = cb.Succs[0], cb.Succs[1]
					case usesEntry(bo.X) && (bo.Op == token.LSS || bo.Op == token.LEQ):
						coveredSucc, notCoveredSucc = cb.Succs[1], cb.Succs[0]
					case usesEntry(bo.Y) && (bo.Op == token.LEQ || bo.Op == token.LSS):
						coveredSucc, notCoveredSucc = cb.Succs[0], cb.Succs[1]
					case usesEntry(bo.Y) && (bo.Op == token.GEQ || bo.Op == token.GTR):
						coveredSucc, notCoveredSucc = cb.Succs[1], cb.Succs[0]
					default:
						continue
					}
					i++
					n++
					// where an edge finally lands: through empty forwarding blocks, as (last predecessor, target)
					land := func(from, to *ssa.BasicBlock) (pred, tgt *ssa.BasicBlock) {
						for d := 0; d < 3 && len(to.Instrs) == 1 && len(to.Succs) == 1; d++ {
							if _, isJ := to.Instrs[0].(*ssa.Jump); !isJ {
								break
							}
							from, to = to, to.Succs[0]
						}
						return from, to
					}
					// two edges are equivalent when they land in the same block carrying the same values into its phis
					same := func(p1, t1, p2, t2 *ssa.BasicBlock) bool {
						if t1 != t2 {
							return false
						}
						idx := func(p *ssa.BasicBlock) int {
							for i, q := range t1.Preds {
								if q == p {
									return i
								}
							}
							return -1
						}
						i1, i2 := idx(p1), idx(p2)
						if i1 < 0 || i2 < 0 {
							return false
						}
						for _, ins := range t1.Instrs {
							ph, ok := ins.(*ssa.Phi)
							if !ok {
								break
							}
							a, c := ph.Edges[i1], ph.Edges[i2]
							if a == c {
								continue
							}
							ka, okA := a.(*ssa.Const)
							kc, okC := c.(*ssa.Const)
							if okA && okC && ka.Value != nil && kc.Value != nil && constant.Compare(ka.Value, token.EQL, kc.Value) {
								continue
							}
							return false
						}
						return true
					}
					ap, at := land(b, b.Succs[1])
					np, nt := land(cb, notCoveredSucc)
					cp, ct := land(cb, coveredSucc)
					okAbs := same(ap, at, np, nt) && !same(ap, at, cp, ct)
					x.check(okAbs, fmt.Sprintf("func=%s vector-lookup#%d absent-means-not-covered", prog.FnName(fn), i), x.pos(iff),
						"the absent edge joins the not-covered edge", "the edge on which the actor is absent from the version vector does not go where the too-small entry goes: an actor the editor never heard of counts as seen")
				}
			}
			if n < 3 {
				x.C.Vacuous(x.id()+" vector lookups compared with a lamport", n, 3)
			}
		}})

	register(&Rule{ID: "IDX.attached", Min: 2, Text: "lengths are taken off the ancestors while the node still has them: in pkg/index, in a function that clears a node's Parent (stores nil) and adjusts the ancestors' lengths for that node (UpdateAncestorsLength on it), the clearing does not come before the adjustment — UpdateAncestorsLength walks the Parent links, so after the clearing it walks nothing and the old ancestors keep the detached node's size in both measures",
		Run: func(x *Ctx) {
			n := 0
			for _, fn := range x.P.FuncsIn("pkg/index") {
				if len(fn.Blocks) == 0 || (fn.Origin() != nil && fn.Origin() != fn) {
					continue
				}
				var clears []*ssa.Store
				for _, b := range fn.Blocks {
					for _, ins := range b.Instrs {
						if st, ok := ins.(*ssa.Store); ok && prog.IsNilConst(st.Val) {
							if fa, isFA := st.Addr.(*ssa.FieldAddr); isFA && prog.FieldVar(fa) != nil && prog.FieldVar(fa).Name() == "Parent" {
								clears = append(clears, st)
							}
						}
					}
				}
				for i, st := range clears {
					node := st.Addr.(*ssa.FieldAddr).X
					var ups []ssa.CallInstruction
					for _, c := range prog.CallsIn(fn) {
						if o := prog.CallObj(c); o != nil && o.Name() == "UpdateAncestorsLength" && (prog.Strip(recvOf(c)) == prog.Strip(node) || sameAccessPath(recvOf(c), node)) {
							ups = append(ups, c)
						}
					}
					if len(ups) == 0 {
						continue
					}
					n++
					bad := ""
					for _, u := range ups {
						if !prog.MayPrecede(st, u) {
							continue
						}
						// re-parented in between (a move): the later adjustment walks the new ancestors
						reparented := false
						for _, bb := range fn.Blocks {
							for _, bi := range bb.Instrs {
								if s2, ok := bi.(*ssa.Store); ok && !prog.IsNilConst(s2.Val) {
									if fa, isFA := s2.Addr.(*ssa.FieldAddr); isFA && prog.FieldVar(fa) != nil && prog.FieldVar(fa).Name() == "Parent" && (prog.Strip(fa.X) == prog.Strip(node) || sameAccessPath(fa.X, node)) {
										if prog.MayPrecede(st, s2) && prog.MayPrecede(s2, u) && prog.Dominates(s2, u) {
											reparented = true
										}
									}
								}
							}
						}
						if !reparented {
							bad = x.pos(u)
						}
					}
					x.check(bad == "", fmt.Sprintf("func=%s parent-cleared#%d after-the-length-adjustments", prog.FnName(fn), i+1), x.pos(st),
						"the node is detached after its size was taken off the ancestors", "the node's Parent is cleared before UpdateAncestorsLength (at "+bad+") runs for it: the walk over the ancestors is empty and they keep the detached node's size — the replicas print the same XML but disagree on the tree's size, and the next edit at the same index lands elsewhere")
				}
			}
			if n < 2 {
				x.C.Vacuous(x.id()+" detach sites", n, 2)
			}
		}})
}

func init() {
	register(&Rule{ID: "DB.byid", Min: 3, Text: "a document looked up by its id is found whether or not it was removed: in the memory backend, a function that reads the documents table through an id index (\"id\", \"project_id_id\") does not let RemovedAt decide what it returns (no test of RemovedAt on the rows it reads) — the MongoDB sibling matches on _id alone, and the lifecycle needs it: a client must still be detached, on Deactivate, from a document a peer removed. Lookups by key (\"project_id_key…\") are the ones that prefer the live document",
		Run: func(x *Ctx) {
			n := 0
			for _, fn := range x.P.FuncsIn(memPkg) {
				if len(fn.Blocks) == 0 {
					continue
				}
				byID := false
				for _, c := range prog.CallsIn(fn) {
					o := prog.CallObj(c)
					if o == nil || o.Pkg() == nil || !strings.Contains(o.Pkg().Path(), "memdb") || !(o.Name() == "First" || o.Name() == "Get") {
						continue
					}
					args := c.Common().Args
					if len(args) < 3 {
						continue
					}
					isDocs := false
					if u, ok := prog.Strip(args[1]).(*ssa.UnOp); ok {
						if g, isG := u.X.(*ssa.Global); isG && g.Name() == "tblDocuments" {
							isDocs = true
						}
					}
					idx, _ := constString(args[2])
					if isDocs && (idx == "id" || idx == "project_id_id") {
						byID = true
					}
				}
				if !byID {
					continue
				}
				// functions that change the removed state read it on purpose (they are writers); readers must not filter
				writes := false
				for _, c := range prog.CallsIn(fn) {
					if o := prog.CallObj(c); o != nil && o.Pkg() != nil && strings.Contains(o.Pkg().Path(), "memdb") && (o.Name() == "Insert" || o.Name() == "Delete") {
						writes = true
					}
				}
				if writes {
					continue
				}
				n++
				bad := ""
				for _, b := range fn.Blocks {
					iff := prog.IfOf(b)
					if iff == nil {
						continue
					}
					if prog.DependsOn(iff.Cond, func(w ssa.Value) bool {
						switch t := w.(type) {
						case *ssa.FieldAddr, *ssa.Field:
							f := prog.FieldVar(t.(ssa.Value))
							return f != nil && f.Name() == "RemovedAt"
						}
						return false
					}) {
						bad = x.pos(iff)
					}
				}
				x.check(bad == "", "func="+prog.FnName(fn)+" id-lookup-ignores-RemovedAt", x.fpos(fn), "the row found by id is returned whatever its RemovedAt",
					"a lookup of a document by id filters on RemovedAt (at "+bad+"), unlike its MongoDB sibling: a client that still has a document attached which a peer removed cannot deactivate — Deactivate insists on finding every attached document — and keeps its attachment and its version-vector row for good")
			}
			if n < 3 {
				x.C.Vacuous(x.id()+" read-only lookups of a document by id", n, 3)
			}
		}})
}

func init() {
	register(&Rule{ID: "PS.end", Min: 3, Text: "a closed subscription ends the stream: in the RPC layer, wherever events are received from a subscription (a select arm on Subscription.Events() with the comma-ok form), the not-ok edge — the subscription was closed, e.g. pruned after too many failed deliveries — either returns from the streaming function itself, or, in a forwarding goroutine, reports it with a send before returning, so that the main loop can end the stream. A forwarder that just returns leaves the stream open and silent: the watcher waits for ever and misses every later change",
		Run: func(x *Ctx) {
			n := 0
			spawned := map[*ssa.Function]bool{}
			for _, fn := range x.P.FuncsIn("server/rpc") {
				for _, b := range fn.Blocks {
					for _, ins := range b.Instrs {
						if g, ok := ins.(*ssa.Go); ok {
							if mc, isMC := g.Call.Value.(*ssa.MakeClosure); isMC {
								if f, isF := mc.Fn.(*ssa.Function); isF {
									spawned[f] = true
								}
							}
						}
					}
				}
			}
			for _, fn := range x.P.FuncsIn("server/rpc") {
				if len(fn.Blocks) == 0 || (fn.Origin() != nil && fn.Origin() != fn) {
					continue
				}
				i := 0
				for _, b := range fn.Blocks {
					for _, ins := range b.Instrs {
						sel, ok := ins.(*ssa.Select)
						if !ok {
							continue
						}
						fromEvents := false
						for _, st := range sel.States {
							if st.Dir != types.RecvOnly {
								continue
							}
							if c, isC := prog.Strip(st.Chan).(*ssa.Call); isC {
								name := ""
								if c.Call.IsInvoke() {
									name = c.Call.Method.Name()
								} else if o := prog.CallObj(c); o != nil {
									name = o.Name()
								}
								if name == "Events" {
									fromEvents = true
								}
							}
						}
						if !fromEvents {
							continue
						}
						// the comma-ok flag of the select
						var okv ssa.Value
						for _, r := range *sel.Referrers() {
							if ex, isE := r.(*ssa.Extract); isE && ex.Index == 1 {
								okv = ex
							}
						}
						if okv == nil {
							continue
						}
						for _, bb := range fn.Blocks {
							iff := prog.IfOf(bb)
							if iff == nil || iff.Cond != okv {
								continue
							}
							i++
							n++
							closedSucc := bb.Succs[1]
							region := map[*ssa.BasicBlock]bool{closedSucc: true}
							for _, d := range fn.Blocks {
								if closedSucc.Dominates(d) {
									region[d] = true
								}
							}
							reports, returns := false, false
							for d := range region {
								for _, di := range d.Instrs {
									switch t := di.(type) {
									case *ssa.Send:
										reports = true
									case *ssa.Select:
										for _, st := range t.States {
											if st.Dir == types.SendOnly {
												reports = true
											}
										}
									case *ssa.Return:
										returns = true
									case *ssa.Call:
										// a helper of the RPC layer that does the send (notifyClosed(merged, done))
										if callee := t.Call.StaticCallee(); callee != nil {
											for f := range x.closureOf([]*ssa.Function{callee}, []string{"server/rpc"}) {
												if sendsOnChannel(f) {
													reports = true
												}
											}
										}
									}
								}
							}
							k := fmt.Sprintf("func=%s events-receive#%d closed-subscription-ends-the-stream", prog.FnName(fn), i)
							if spawned[fn] {
								x.check(reports, k, x.pos(iff), "the forwarder reports the closed subscription before it returns",
									"the forwarding goroutine just returns when its subscription is closed: the main loop of the stream never learns of it, the stream stays open and silent, and the watcher — pruned after a stall — misses every later change without any sign")
							} else {
								x.check(returns, k, x.pos(iff), "the streaming function returns when the subscription is closed", "the streaming function goes on after its subscription was closed")
							}
						}
					}
				}
			}
			if n < 3 {
				x.C.Vacuous(x.id()+" receives from a subscription", n, 3)
			}
		}})
}

// sendsOnChannel: fn sends on a channel (a send statement or a send arm of a select).
func sendsOnChannel(fn *ssa.Function) bool {
	for _, b := range fn.Blocks {
		for _, ins := range b.Instrs {
			switch t := ins.(type) {
			case *ssa.Send:
				return true
			case *ssa.Select:
				for _, st := range t.States {
					if st.Dir == types.SendOnly {
						return true
					}
				}
			}
		}
	}
	return false
}

func init() {
	register(&Rule{ID: "O2.anchor", Min: 2, Text: "one anchor per slot: in crdt.ElementRHT and ElementRHTNode (the object's key slots), every last-writer-wins comparison against the element that occupies a slot (ticket.After(…) on a value taken from the occupying node's element) uses the element's positioned-at ticket (PositionedAt(elem) — the ticket of the write that last placed it there, which undo/redo makes newer than its creation ticket), not its CreatedAt. A removal gated on CreatedAt wins over a restore that was placed later than the removal on one replica and loses on the other: both clients delete a key, one undoes before syncing — {} on one side, {\"k\":1} on the other",
		Run: func(x *Ctx) {
			n := 0
			for _, fn := range x.P.FuncsIn(crdtPkg) {
				r := fn.Signature.Recv()
				if r == nil || namedOf(r.Type()) == nil {
					continue
				}
				rn := namedOf(r.Type()).Obj().Name()
				if rn != "ElementRHT" && rn != "ElementRHTNode" {
					continue
				}
				i := 0
				for _, c := range prog.CallsIn(fn) {
					o := prog.CallObj(c)
					if o == nil || o.Name() != "After" || len(c.Common().Args) < 2 {
						continue
					}
					arg := c.Common().Args[1]
					// what is the ticket compared against?
					ac, isC := prog.Strip(arg).(*ssa.Call)
					if !isC {
						continue
					}
					name := ""
					if ac.Call.IsInvoke() {
						name = ac.Call.Method.Name()
					} else if ao := prog.CallObj(ac); ao != nil {
						name = ao.Name()
					}
					switch name {
					case "CreatedAt", "PositionedAt", "MovedAt":
					default:
						continue
					}
					// of the occupying element: reached through a node's elem field
					var recv ssa.Value
					if ac.Call.IsInvoke() {
						recv = ac.Call.Value
					} else if len(ac.Call.Args) > 0 {
						recv = ac.Call.Args[0]
					}
					if recv == nil || prog.LoadedField(recv) == nil || prog.LoadedField(recv).Name() != "elem" {
						continue
					}
					i++
					n++
					x.check(name == "PositionedAt", fmt.Sprintf("func=%s lww-comparison#%d against-the-occupant's-positioned-at", prog.FnName(fn), i), x.pos(c),
						"the comparison uses the ticket of the write that last placed the occupant", "the comparison against the occupying element uses its "+name+"() instead of PositionedAt(elem): once undo/redo has re-placed an element under its old identity, a concurrent removal that is older than the restore still wins here, and the replicas disagree on whether the key exists")
				}
			}
			if n < 2 {
				x.C.Vacuous(x.id()+" LWW comparisons against a slot's occupant", n, 2)
			}
		}})
}
