package rules

import (
	"fmt"
	"go/token"
	"go/types"
	"sort"
	"strings"

	"yv/internal/prog"

	"golang.org/x/tools/go/ssa"
)

// Anchors of the sync pipeline, resolved once per rule run.
type pipe struct {
	x            *Ctx
	DB           *types.Named
	CreateCI     *types.Func // Database.CreateChangeInfos
	CompactCI    *types.Func
	FindBetween  *types.Func
	UpdClient    *types.Func // Database.UpdateClientInfoAfterPushPull
	UpdMinVV     *types.Func
	GetMinVV     *types.Func
	FindDocByRef *types.Func
	PushPull     *ssa.Function
	Pusher       *ssa.Function // the function of package packs that calls CreateChangeInfos
	PushCall     ssa.CallInstruction
	Puller       *ssa.Function // the function of package packs that calls FindChangeInfosBetweenServerSeqs
	PullCall     ssa.CallInstruction
	ok           bool
}

func (x *Ctx) pipe() *pipe {
	p := &pipe{x: x, ok: true}
	need := func(spec string) *types.Func {
		o := x.P.IfaceMethod(spec)
		if o == nil {
			x.C.Unresolved(x.id(), spec)
			p.ok = false
		}
		return o
	}
	p.DB = x.P.Named("server/backend/database.Database")
	p.CreateCI = need("server/backend/database.Database.CreateChangeInfos")
	p.CompactCI = need("server/backend/database.Database.CompactChangeInfos")
	p.FindBetween = need("server/backend/database.Database.FindChangeInfosBetweenServerSeqs")
	p.UpdClient = need("server/backend/database.Database.UpdateClientInfoAfterPushPull")
	p.UpdMinVV = need("server/backend/database.Database.UpdateMinVersionVector")
	p.GetMinVV = need("server/backend/database.Database.GetMinVersionVector")
	p.FindDocByRef = need("server/backend/database.Database.FindDocInfoByRefKey")
	p.PushPull = x.fn("server/packs.PushPull")
	if p.PushPull == nil {
		p.ok = false
	}
	if !p.ok {
		return p
	}
	packsFns := x.P.FuncsIn("server/packs")
	for _, c := range callsTo(packsFns, p.CreateCI) {
		if c.Common().IsInvoke() {
			p.Pusher, p.PushCall = c.Parent(), c
		}
	}
	for _, c := range callsTo(packsFns, p.FindBetween) {
		if c.Common().IsInvoke() && c.Parent().Parent() == nil {
			// the one on the PushPull path (reachable from PushPull)
			if x.reachableFrom(p.PushPull, c.Parent()) {
				p.Puller, p.PullCall = c.Parent(), c
			}
		}
	}
	if p.Pusher == nil {
		x.C.Unresolved(x.id(), "the function of server/packs that calls Database.CreateChangeInfos")
		p.ok = false
	}
	if p.Puller == nil {
		x.C.Unresolved(x.id(), "the function of server/packs reachable from PushPull that calls Database.FindChangeInfosBetweenServerSeqs")
		p.ok = false
	}
	return p
}

// reachableFrom: is `to` reachable from `from` over synchronous call edges?
func (x *Ctx) reachableFrom(from, to *ssa.Function) bool {
	ci := x.calls()
	seen := map[*ssa.Function]bool{}
	work := []*ssa.Function{from}
	for len(work) > 0 {
		f := work[len(work)-1]
		work = work[:len(work)-1]
		if f == to {
			return true
		}
		if seen[f] {
			continue
		}
		seen[f] = true
		for _, e := range ci.out[f] {
			if !e.Spawned {
				work = append(work, e.Callee)
			}
		}
	}
	return false
}

// errNilCmp: the comparison "error result of call == nil".
func errNilCmp(call ssa.Value) Cmp {
	isErr := VP{"error of " + call.Name(), func(v ssa.Value) bool {
		return prog.Reaches(v, func(w ssa.Value) bool {
			if w == call {
				return true
			}
			if ex, ok := w.(*ssa.Extract); ok && ex.Tuple == call {
				return isErrorType(ex.Type())
			}
			return false
		}) && isErrorType(v.Type())
	}}
	return Cmp{L: isErr, R: VP{"nil", prog.IsNilConst}, Want: EQ}
}

func isErrorType(t types.Type) bool {
	n, ok := t.(*types.Named)
	return ok && n.Obj().Pkg() == nil && n.Obj().Name() == "error"
}

func init() {
	// -----------------------------------------------------------------------
	register(&Rule{ID: "A4.log", Min: 3, Text: "who may append to or reset the change log: every production call of Database.CreateChangeInfos is in package server/packs; every production call of Database.CompactChangeInfos is in server/packs or server/documents; DocInfo.ServerSeq is written only by DocInfo methods, the two database backends and DeepCopy; DocInfo.Epoch only by the two CompactChangeInfos implementations, the backends' decoders and DeepCopy",
		Run: func(x *Ctx) {
			p := x.pipe()
			if !p.ok {
				return
			}
			for _, c := range x.directCallers(p.CreateCI) {
				pk := strings.TrimPrefix(prog.PkgOf(c.Parent()), prog.Mod+"/")
				x.check(pk == "server/packs", "caller-of=CreateChangeInfos func="+prog.FnName(c.Parent()), x.pos(c),
					"log append from the push function of server/packs", "the change log is appended from outside server/packs: serverSeq assignment is no longer serialised by the push lock")
			}
			for _, c := range x.directCallers(p.CompactCI) {
				pk := strings.TrimPrefix(prog.PkgOf(c.Parent()), prog.Mod+"/")
				x.check(pk == "server/packs" || pk == "server/documents", "caller-of=CompactChangeInfos func="+prog.FnName(c.Parent()), x.pos(c),
					"log reset from "+pk, "the change log is reset from outside server/packs and server/documents")
			}
			for _, fld := range []struct{ spec, allowed string }{
				{"server/backend/database.DocInfo.ServerSeq", "server/backend/database,server/backend/database/memory,server/backend/database/mongo"},
				{"server/backend/database.DocInfo.Epoch", "server/backend/database,server/backend/database/memory,server/backend/database/mongo"},
			} {
				f := x.P.Field(fld.spec)
				if f == nil {
					x.C.Unresolved(x.id(), fld.spec)
					continue
				}
				n := 0
				for _, fn := range x.P.ProdFuncs() {
					for _, st := range storesTo(fn, f) {
						n++
						pk := strings.TrimPrefix(prog.PkgOf(fn), prog.Mod+"/")
						ok := false
						for _, a := range strings.Split(fld.allowed, ",") {
							if pk == a {
								ok = true
							}
						}
						x.check(ok, "writer-of="+f.Name()+" func="+prog.FnName(fn), x.pos(st), "writer in the storage layer", "field "+f.Name()+" of DocInfo is written outside the storage layer")
					}
				}
				if n == 0 {
					x.C.Unresolved(x.id(), "no writer of "+fld.spec)
				}
			}
		}})

	// -----------------------------------------------------------------------
	register(&Rule{ID: "L4a", Min: 2, Text: "the log append (Database.CreateChangeInfos) is made with the push lock held whenever the change list may be non-empty or the request removes the document: every path to the call passes the DocPushKey acquisition or the false edge of a len(list) > 0 test of the same list, and likewise the acquisition or an edge on which the removed flag is false; the lock is released only after the call",
		Run: func(x *Ctx) {
			p := x.pipe()
			if !p.ok {
				return
			}
			m := x.locks()
			fn := p.Pusher
			var push *acquisition
			for _, a := range m.byFn[fn] {
				if a.Class == "push" && a.Mode == "W" {
					push = a
				}
			}
			key := "func=" + prog.FnName(fn) + " call=CreateChangeInfos"
			if push == nil {
				x.fail(key, x.pos(p.PushCall), "no exclusive DocPushKey acquisition in the function that appends to the log")
				return
			}
			// the list argument and everything it is a phi of
			listArg := paramArg(p.PushCall, 3)
			family := map[ssa.Value]bool{}
			prog.Reaches(listArg, func(v ssa.Value) bool { family[v] = true; return false })
			lenList := VP{"len(changes to push)", func(v ssa.Value) bool {
				c, ok := prog.Strip(v).(*ssa.Call)
				if !ok {
					return false
				}
				b, ok := c.Call.Value.(*ssa.Builtin)
				return ok && b.Name() == "len" && family[c.Call.Args[0]]
			}}
			guards, _ := GuardEdges(fn, []Cmp{{L: lenList, R: vpConst(0), Want: LE}}, nil)
			cut := map[prog.Edge]bool{}
			for e := range guards {
				cut[e] = true
			}
			ab := push.Call.Block()
			for _, s := range ab.Succs {
				cut[prog.Edge{From: ab, To: s}] = true
			}
			ok := (ab == p.PushCall.Block() && prog.InstrIndex(push.Call) < prog.InstrIndex(p.PushCall)) ||
				prog.CutDisconnects(fn, p.PushCall.Block(), cut)
			x.check(ok, key, x.pos(p.PushCall), "every path to the append holds the push lock or has an empty list",
				"a path reaches the log append with a possibly non-empty list and without the push lock")
			// the same for a removal: the append also writes the document's removed state, so every path to it
			// holds the lock or passes an edge on which the removed flag handed to the store is false
			if remArg := paramArg(p.PushCall, 4); remArg != nil {
				if f := prog.LoadedField(remArg); f != nil {
					g2, _ := GuardEdges(fn, []Cmp{isFalse(vpField(f))}, nil)
					cut2 := map[prog.Edge]bool{}
					for e := range g2 {
						cut2[e] = true
					}
					for _, s := range ab.Succs {
						cut2[prog.Edge{From: ab, To: s}] = true
					}
					ok2 := (ab == p.PushCall.Block() && prog.InstrIndex(push.Call) < prog.InstrIndex(p.PushCall)) ||
						prog.CutDisconnects(fn, p.PushCall.Block(), cut2)
					x.check(ok2, key+" removal-under-push-lock", x.pos(p.PushCall), "every path to the append holds the push lock or carries no removal",
						"a request that removes the document without carrying changes reaches the store without the push lock: the removal can slip between another pusher's 'document is alive' read and its append, and the removed document's log still grows")
				}
			}
			// held until after the call: release must be deferred or come after
			rel := push.Release
			relOK := rel != nil
			for _, r := range push.explicitReleases() {
				if prog.MayPrecede(r, p.PushCall) {
					relOK = false
				}
			}
			x.check(relOK, key+" release", x.pos(push.Call), "the push lock is released after the append", "the push lock can be released before the append")
			// the doc-info read used for the epoch/removed tests happens under the lock
			for _, c := range callsToIn(fn, p.FindDocByRef) {
				x.check(push.mustHoldAt(c), "func="+prog.FnName(fn)+" read=FindDocInfoByRefKey under push lock", x.pos(c),
					"the DocInfo the push decisions are based on is read under the push lock",
					"the DocInfo the push decisions are based on is read outside the push lock")
			}
		}})

	// -----------------------------------------------------------------------
	register(&Rule{ID: "L4b", Min: 7, Text: "every call of packs.PushPull is made with the document lock (any mode) held, and — unless the ClientInfo argument comes from database.SystemClientInfo — with the per-(client,document) pull lock held; held means on every path, in the calling function or in all of its synchronous callers",
		Run: func(x *Ctx) {
			p := x.pipe()
			if !p.ok {
				return
			}
			sys := x.P.FnObj("server/backend/database.SystemClientInfo")
			ppObj, _ := p.PushPull.Object().(*types.Func)
			for _, c := range x.directCallers(ppObj) {
				k := "caller=" + prog.FnName(c.Parent())
				ok, why := x.mustHold(c, "doc", "RW")
				x.check(ok, k+" lock=doc", x.pos(c), "doc lock held around PushPull", "PushPull without the document lock (compaction is not excluded): "+why)
				isSys := sys != nil && prog.Reaches(paramArg(c, 3), vpCall(sys).M)
				if isSys {
					x.hold(k+" lock=pull", x.pos(c), "system client: no per-client pull lock needed")
					continue
				}
				ok, why = x.mustHold(c, "pull", "W")
				x.check(ok, k+" lock=pull", x.pos(c), "pull lock held around PushPull", "PushPull for a real client without the per-(client,document) pull lock: "+why)
				// the client record (its stored checkpoint and attachment state) is read under the same pull lock:
				// a request queued behind another request of the same client must not run on what it read before waiting
				findActive := x.P.FnObj("server/clients.FindActiveClientInfo")
				for _, fc := range callsToIn(c.Parent(), findActive) {
					fcc, isCall := fc.(*ssa.Call)
					if !isCall {
						continue
					}
					feeds := prog.Reaches(paramArg(c, 3), func(v ssa.Value) bool {
						if ex, ok := v.(*ssa.Extract); ok {
							if ex.Tuple == ssa.Value(fcc) {
								return true
							}
							// through clients.AttachDocument(ctx, be, clientInfo, …)
							if ac, ok := ex.Tuple.(*ssa.Call); ok && prog.CallObj(ac) != nil && prog.CallObj(ac).Name() == "AttachDocument" {
								return prog.Reaches(paramArg(ac, 2), func(w ssa.Value) bool {
									e2, ok := w.(*ssa.Extract)
									return ok && e2.Tuple == ssa.Value(fcc)
								})
							}
						}
						return false
					})
					if !feeds {
						continue
					}
					okp, whyp := x.mustHold(fc, "pull", "W")
					x.check(okp, k+" client-record-read-under-pull-lock", x.pos(fc), "the ClientInfo passed to PushPull is read under the pull lock",
						"the ClientInfo (stored checkpoint, attachment state) passed to PushPull is read before the per-(client,document) pull lock is held: a request queued behind another one of the same client runs on stale data and stores its changes twice or after a detach: "+whyp)
					okd, whyd := x.mustHold(fc, "doc", "RW")
					x.check(okd, k+" client-record-read-under-doc-lock", x.pos(fc), "the ClientInfo is read under the document lock", "the ClientInfo passed to PushPull is read before the document lock is held: "+whyd)
				}
			}
		}})

	// -----------------------------------------------------------------------
	register(&Rule{ID: "O2.dedup", Min: 2, Text: "already-stored changes are dropped: in the push function every change converted for storage (database.NewFromChange) sits on an edge where change.ClientSeq > the ClientSeq of the client's *stored* checkpoint (ClientInfo.Checkpoint); and the continuity validation compares each such change with stored ClientSeq+1, +2, … and returns an error otherwise",
		Run: func(x *Ctx) {
			p := x.pipe()
			if !p.ok {
				return
			}
			cpM := x.P.FnObj("server/backend/database.(*ClientInfo).Checkpoint")
			clientSeqM := x.P.FnObj("pkg/document/change.ID.ClientSeq")
			cpClientSeq := x.P.Field("pkg/document/change.Checkpoint.ClientSeq")
			newFrom := x.P.FnObj("server/backend/database.NewFromChange")
			if cpM == nil || clientSeqM == nil || cpClientSeq == nil || newFrom == nil {
				x.C.Unresolved(x.id(), "ClientInfo.Checkpoint / change.ID.ClientSeq / Checkpoint.ClientSeq / database.NewFromChange")
				return
			}
			storedCP := vpFieldOf(cpClientSeq, vpFlow(vpCall(cpM)))
			cmp := Cmp{L: vpCall(clientSeqM), R: storedCP, Want: GT}
			sites := callsToIn(p.Pusher, newFrom)
			if len(sites) == 0 {
				x.C.Unresolved(x.id(), "database.NewFromChange call in the push function")
			}
			for _, s := range sites {
				x.guardedSite("func="+prog.FnName(p.Pusher)+" site=NewFromChange guard=ClientSeq>stored", s, []Cmp{cmp}, nil)
			}
			// siblings: wherever else package packs hands the request's changes to a document or to the store
			// (change.NewPack → ApplyChangePack in the snapshot pull), they are selected the same way — the
			// unfiltered request list (Pack.Changes of a *change.Pack parameter) is never the argument
			packChanges := x.P.Field(changePkg + ".Pack.Changes")
			newPack := x.P.FnObj(changePkg + ".NewPack")
			if packChanges != nil && newPack != nil {
				nsib := 0
				for _, fn := range x.P.FuncsIn("server/packs") {
					if fn == p.Pusher {
						continue
					}
					// only a function that receives the request pack can apply request changes
					hasReq := false
					for _, pm := range fn.Params {
						if pt, ok := pm.Type().(*types.Pointer); ok && isNamed(pt.Elem(), x.P.Named(changePkg+".Pack")) {
							hasReq = true
						}
					}
					if !hasReq {
						continue
					}
					nsib = 0
					isReqChanges := func(w ssa.Value) bool {
						if prog.LoadedField(w) != packChanges {
							return false
						}
						return prog.Reaches(prog.FieldBase(w), func(u ssa.Value) bool {
							pm, ok := u.(*ssa.Parameter)
							return ok && pm.Parent() == fn
						})
					}
					for _, c := range callsToIn(fn, newPack) {
						arg := paramArg(c, 2)
						if arg == nil {
							continue
						}
						if k, isK := arg.(*ssa.Const); isK && k.IsNil() {
							continue
						}
						nsib++
						key := fmt.Sprintf("func=%s site=NewPack#%d request-changes-filtered", prog.FnName(fn), nsib)
						// a filter helper of the package: f(reqPack.Changes, stored.ClientSeq) whose result is built by
						// appends of its list parameter's elements, each on the edge ClientSeq > its threshold parameter
						if hc, isC := prog.Strip(arg).(*ssa.Call); isC && hc.Call.StaticCallee() != nil && prog.PkgOf(hc.Call.StaticCallee()) == prog.PkgOf(fn) && len(hc.Call.StaticCallee().Blocks) > 0 {
							h := hc.Call.StaticCallee()
							var thr *ssa.Parameter
							for i, a := range hc.Call.Args {
								if i < len(h.Params) && cmp.R.match(a) {
									thr = h.Params[i]
								}
							}
							if thr != nil {
								hcmp := Cmp{L: vpCall(clientSeqM), R: VP{"the threshold parameter", func(v ssa.Value) bool { return prog.Strip(v) == ssa.Value(thr) }}, Want: GT}
								okAll, any := true, false
								for _, r := range prog.Returns(h) {
									if len(r.Results) == 0 {
										continue
									}
									for _, ap := range builtinCalls(h, "append") {
										if !prog.DependsOn(r.Results[0], func(w ssa.Value) bool { return w == ssa.Value(ap) }) && !prog.Reaches(r.Results[0], func(w ssa.Value) bool { return w == ssa.Value(ap) }) {
											continue
										}
										any = true
										if !x.quietGuarded(ap, []Cmp{hcmp}) {
											okAll = false
										}
									}
									// the list itself is never the result
									for _, pm := range h.Params {
										if _, isSl := pm.Type().Underlying().(*types.Slice); isSl && prog.Strip(r.Results[0]) == ssa.Value(pm) {
											okAll = false
										}
									}
								}
								if any {
									x.check(okAll, key, x.pos(c), "only changes with ClientSeq > the stored checkpoint's ClientSeq are applied (selected by "+prog.FnName(h)+")", "the helper "+prog.FnName(h)+" that selects the request changes for the rebuilt document does not select by ClientSeq > its threshold")
									continue
								}
							}
						}
						if prog.Reaches(arg, isReqChanges) {
							x.fail(key, x.pos(c), "the whole request list (reqPack.Changes) is applied to the rebuilt document: the changes of a retried request that an earlier attempt already stored are in that document already and are applied a second time (the snapshot counts the edit twice)")
							continue
						}
						// built by append: every append of a request change sits on the ClientSeq > stored edge
						okAll, any := true, false
						for _, ap := range builtinCalls(fn, "append") {
							if !prog.DependsOn(arg, func(w ssa.Value) bool { return w == ssa.Value(ap) }) && !prog.Reaches(arg, func(w ssa.Value) bool { return w == ssa.Value(ap) }) {
								continue
							}
							any = true
							if !x.quietGuarded(ap, []Cmp{cmp}) {
								okAll = false
							}
						}
						x.check(any && okAll, key, x.pos(c), "only changes with ClientSeq > the stored checkpoint's ClientSeq are applied", "the changes applied to the rebuilt document are not selected by ClientSeq > stored ClientSeq, the way the push selects what it stores")
					}
				}
			}
			// continuity validation: a callee of PushPull dominating the push, with a Checkpoint parameter
			var pushCallInPP ssa.CallInstruction
			for _, c := range x.callsReaching(p.PushPull, p.CreateCI) {
				pushCallInPP = c
			}
			if pushCallInPP == nil {
				x.C.Unresolved(x.id(), "call in PushPull that reaches CreateChangeInfos")
				return
			}
			cpT := x.P.Named("pkg/document/change.Checkpoint")
			var val *ssa.Call
			for _, c := range prog.CallsIn(p.PushPull) {
				call, ok := c.(*ssa.Call)
				if !ok || call.Call.StaticCallee() == nil || !prog.Dominates(call, pushCallInPP) {
					continue
				}
				cal := call.Call.StaticCallee()
				if prog.PkgOf(cal) != prog.PkgOf(p.PushPull) || !isErrorType(cal.Signature.Results().At(cal.Signature.Results().Len()-1).Type()) {
					continue
				}
				for i, pm := range cal.Params {
					if isNamed(pm.Type(), cpT) && prog.Reaches(call.Call.Args[i], vpCall(cpM).M) {
						val = call
					}
				}
			}
			k := "func=" + prog.FnName(p.PushPull) + " continuity-validation"
			if val == nil {
				x.fail(k, x.fpos(p.PushPull), "no call before the push that validates the request against the stored checkpoint (ClientInfo.Checkpoint)")
				return
			}
			x.guardedSite(k+" error-edge-returns", pushCallInPP, []Cmp{errNilCmp(val)}, nil)
			vf := val.Call.StaticCallee()
			// the validation skips exactly what the push drops: its comparison with the expected next ClientSeq is
			// reached only on the edge ClientSeq > the ClientSeq of the stored checkpoint it was handed
			for _, pm := range vf.Params {
				if !isNamed(pm.Type(), cpT) {
					continue
				}
				storedIn := vpFieldOf(cpClientSeq, VP{"the checkpoint parameter", func(v ssa.Value) bool {
					return prog.Reaches(v, func(w ssa.Value) bool { return w == ssa.Value(pm) })
				}})
				var tests []ssa.Instruction
				for _, b := range vf.Blocks {
					iff := prog.IfOf(b)
					if iff == nil {
						continue
					}
					bo, ok := iff.Cond.(*ssa.BinOp)
					if !ok || !(bo.Op == token.NEQ || bo.Op == token.EQL) {
						continue
					}
					if vpCall(clientSeqM).match(bo.X) || vpCall(clientSeqM).match(bo.Y) {
						tests = append(tests, iff)
					}
				}
				for i, tst := range tests {
					x.guardedSite(fmt.Sprintf("func=%s continuity-test#%d only-for-ClientSeq>stored", prog.FnName(vf), i+1), tst, []Cmp{{L: vpCall(clientSeqM), R: storedIn, Want: GT}}, nil)
				}
				if len(tests) == 0 {
					x.fail("func="+prog.FnName(vf)+" continuity-test", x.fpos(vf), "the validation no longer compares ClientSeq with the expected next one")
				}
			}
			// inside: an error return guarded by ClientSeq != expected, expected derived from cp.ClientSeq + 1
			var cpParam *ssa.Parameter
			for _, pm := range vf.Params {
				if isNamed(pm.Type(), cpT) {
					cpParam = pm
				}
			}
			base := vpFieldOf(cpClientSeq, VP{"checkpoint parameter", func(v ssa.Value) bool {
				return prog.Reaches(v, func(w ssa.Value) bool { return w == ssa.Value(cpParam) })
			}})
			plusOne := func(v ssa.Value) bool {
				b, ok := prog.Strip(v).(*ssa.BinOp)
				if !ok || b.Op != token.ADD {
					return false
				}
				k1, ok1 := prog.IntConst(b.Y)
				k2, ok2 := prog.IntConst(b.X)
				return (ok1 && k1 == 1) || (ok2 && k2 == 1)
			}
			expected := VP{"stored ClientSeq+1 (+1 per accepted change)", func(v ssa.Value) bool {
				// a phi/induction value seeded by base+1 and advanced by +1
				seed, adv := false, true
				prog.Reaches(v, func(w ssa.Value) bool {
					if plusOne(w) {
						b := prog.Strip(w).(*ssa.BinOp)
						if base.match(b.X) || base.match(b.Y) {
							seed = true
						}
					}
					return false
				})
				return seed && adv
			}}
			found := false
			for _, b := range vf.Blocks {
				iff := prog.IfOf(b)
				if iff == nil {
					continue
				}
				r, ok := relOnTrue(iff.Cond, vpCall(clientSeqM), expected, nil)
				if !ok {
					continue
				}
				// the edge on which they differ must lead to a non-nil error return, without a way back
				var bad *ssa.BasicBlock
				if r == NE {
					bad = b.Succs[0]
				} else if r == EQ {
					bad = b.Succs[1]
				}
				if bad == nil {
					continue
				}
				reach := prog.ReachableFrom(b, map[prog.Edge]bool{{From: b, To: otherSucc(b, bad)}: true})
				allErr := true
				nret := 0
				for _, rt := range prog.Returns(vf) {
					if reach[rt.Block()] {
						nret++
						if prog.IsNilConst(rt.Results[len(rt.Results)-1]) {
							allErr = false
						}
					}
				}
				if nret > 0 && allErr {
					found = true
				}
			}
			x.check(found, "func="+prog.FnName(vf)+" gap-rejected", x.fpos(vf),
				"a change whose ClientSeq differs from the expected next one leads to an error return",
				"no comparison of the change's ClientSeq with stored ClientSeq+1 whose mismatch edge returns an error")
			// skipped prefix: changes at or below the stored checkpoint are skipped, not rejected
		}})

	// -----------------------------------------------------------------------
	register(&Rule{ID: "O2.own", Min: 2, Text: "a client never receives an echo of its own change: in the pull function every change added to the response is on an edge where NOT(change.ActorID == requester.ID AND change.ClientSeq <= checkpoint-after-push.ClientSeq); the compared checkpoint is the one returned by the push, and the response checkpoint is that checkpoint advanced to the document's ServerSeq",
		Run: func(x *Ctx) {
			p := x.pipe()
			if !p.ok {
				return
			}
			fn := p.Puller
			ciT := x.P.Named("server/backend/database.ChangeInfo")
			actorF := x.P.Field("server/backend/database.ChangeInfo.ActorID")
			cseqF := x.P.Field("server/backend/database.ChangeInfo.ClientSeq")
			cliID := x.P.Field("server/backend/database.ClientInfo.ID")
			cpClientSeq := x.P.Field("pkg/document/change.Checkpoint.ClientSeq")
			cpT := x.P.Named("pkg/document/change.Checkpoint")
			if ciT == nil || actorF == nil || cseqF == nil || cliID == nil || cpClientSeq == nil {
				x.C.Unresolved(x.id(), "ChangeInfo.ActorID/ClientSeq, ClientInfo.ID, Checkpoint.ClientSeq")
				return
			}
			// sites: appends of *ChangeInfo to the result slice
			var sites []ssa.Instruction
			for _, c := range prog.CallsIn(fn) {
				if b, ok := c.Common().Value.(*ssa.Builtin); ok && b.Name() == "append" {
					if sl, ok := c.Common().Args[0].Type().Underlying().(*types.Slice); ok && isNamed(sl.Elem(), ciT) {
						sites = append(sites, c)
					}
				}
			}
			if len(sites) == 0 {
				x.C.Unresolved(x.id(), "append of *ChangeInfo in the pull function")
				return
			}
			var cpParam VP
			for _, pm := range fn.Params {
				if isNamed(pm.Type(), cpT) {
					pm := pm
					cpParam = VP{"checkpoint parameter " + pm.Name(), func(v ssa.Value) bool {
						return prog.Reaches(v, func(w ssa.Value) bool { return w == ssa.Value(pm) })
					}}
				}
			}
			cmps := []Cmp{
				{L: vpField(cliID), R: vpField(actorF), Want: NE},
				{L: vpField(cseqF), R: vpFieldOf(cpClientSeq, cpParam), Want: GT},
			}
			for i, s := range sites {
				x.guardedSite(fmt.Sprintf("func=%s site=append#%d guard=not-own-change", prog.FnName(fn), i+1), s, cmps, nil)
			}
			// the checkpoint parameter is the push result at the call chain from PushPull
			x.checkpointFlow(p)
		}})

	// -----------------------------------------------------------------------
	register(&Rule{ID: "PULL.range", Min: 3, Text: "pull range = (client checkpoint, head before own push]: the `from` argument of FindChangeInfosBetweenServerSeqs is request.Checkpoint.ServerSeq + 1 and the `to` argument is the pre-push head, which the push function computes as DocInfo.ServerSeq − len(pushed) from the DocInfo returned by CreateChangeInfos; the same value bounds the snapshot rebuild",
		Run: func(x *Ctx) {
			p := x.pipe()
			if !p.ok {
				return
			}
			cpSS := x.P.Field("pkg/document/change.Checkpoint.ServerSeq")
			packCP := x.P.Field("pkg/document/change.Pack.Checkpoint")
			docSS := x.P.Field("server/backend/database.DocInfo.ServerSeq")
			if cpSS == nil || packCP == nil || docSS == nil {
				x.C.Unresolved(x.id(), "Checkpoint.ServerSeq / Pack.Checkpoint / DocInfo.ServerSeq")
				return
			}
			from := paramArg(p.PullCall, 2)
			to := paramArg(p.PullCall, 3)
			k := "func=" + prog.FnName(p.Puller)
			// from == reqPack.Checkpoint.ServerSeq + 1
			okFrom := false
			if b, ok := prog.Strip(from).(*ssa.BinOp); ok && b.Op == token.ADD {
				if c, isC := prog.IntConst(b.Y); isC && c == 1 && prog.LoadedField(b.X) == cpSS {
					if base := fieldAddrBase(b.X); base != nil && prog.FieldVar(base) == packCP {
						okFrom = true
					}
				}
			}
			x.check(okFrom, k+" from=req.Checkpoint.ServerSeq+1", x.pos(p.PullCall), "from is the request checkpoint's ServerSeq + 1",
				"the lower bound of the pulled range is not request.Checkpoint.ServerSeq + 1 (changes are skipped or delivered twice)")
			// to is a parameter fed, through the call chain from PushPull, by the push function's third result
			var pm *ssa.Parameter
			prog.Reaches(to, func(w ssa.Value) bool {
				if q, ok := w.(*ssa.Parameter); ok {
					pm = q
					return true
				}
				return false
			})
			isParam := pm != nil
			x.check(isParam, k+" to=pre-push head (parameter)", x.pos(p.PullCall), "to is passed in from the push result", "the upper bound of the pulled range is not the pre-push head handed down from the push")
			if isParam {
				x.traceParamToPushResult(p, p.Puller, pm, k+" to")
			}
			// in the pusher: a returned int64 equals DocInfo.ServerSeq - len(pushables) with DocInfo from CreateChangeInfos
			found := false
			listArg := paramArg(p.PushCall, 3)
			family := map[ssa.Value]bool{}
			prog.Reaches(listArg, func(v ssa.Value) bool { family[v] = true; return false })
			for _, r := range prog.Returns(p.Pusher) {
				for _, res := range r.Results {
					prog.Reaches(res, func(cand ssa.Value) bool {
						b, ok := cand.(*ssa.BinOp)
						if !ok || b.Op != token.SUB || prog.LoadedField(b.X) != docSS {
							return false
						}
						base := prog.FieldBase(b.X)
						fromCreate := base != nil && prog.Reaches(base, func(w ssa.Value) bool {
							ex, ok := w.(*ssa.Extract)
							return ok && ex.Tuple == p.PushCall.Value() && ex.Index == 0
						})
						lenOK := prog.DependsOn(b.Y, func(w ssa.Value) bool {
							c, ok := w.(*ssa.Call)
							if !ok {
								return false
							}
							bi, ok := c.Call.Value.(*ssa.Builtin)
							return ok && bi.Name() == "len" && family[c.Call.Args[0]]
						})
						if fromCreate && lenOK {
							found = true
						}
						return false
					})
				}
			}
			// the snapshot pull rebuilds the document for that same pre-push head: the serverSeq argument of
			// BuildInternalDocForServerSeq in a function that also receives the request pack is its int64 parameter
			// (the head before the push), not the post-push DocInfo.ServerSeq (which already contains the pushed changes)
			if build := x.P.FnObj("server/packs.BuildInternalDocForServerSeq"); build != nil {
				for _, fn := range x.P.FuncsIn("server/packs") {
					hasReq := false
					for _, pm := range fn.Params {
						if pt, ok := pm.Type().(*types.Pointer); ok && isNamed(pt.Elem(), x.P.Named(changePkg+".Pack")) {
							hasReq = true
						}
					}
					if !hasReq {
						continue
					}
					for i, c := range callsToIn(fn, build) {
						arg := paramArg(c, 3)
						var pm2 *ssa.Parameter
						prog.Reaches(arg, func(w ssa.Value) bool {
							if q, ok := w.(*ssa.Parameter); ok {
								pm2 = q
								return true
							}
							return false
						})
						okB := pm2 != nil && prog.LoadedField(arg) == nil
						x.check(okB, fmt.Sprintf("func=%s rebuild#%d for=pre-push head (parameter)", prog.FnName(fn), i+1), x.pos(c), "the document is rebuilt for the head before the push", "the snapshot pull rebuilds the document for something other than the pre-push head handed down from the push (e.g. DocInfo.ServerSeq, which already contains the requester's pushed changes: they are then applied twice)")
						if okB {
							x.traceParamToPushResult(p, fn, pm2, fmt.Sprintf("func=%s rebuild#%d bound", prog.FnName(fn), i+1))
						}
					}
				}
			}
			x.check(found, "func="+prog.FnName(p.Pusher)+" returns=ServerSeq-len(pushed)", x.fpos(p.Pusher),
				"the push function returns DocInfo.ServerSeq − len(stored changes) of the DocInfo returned by the append",
				"the pre-push head is no longer computed as (ServerSeq returned by the append) − (number of stored changes)")
		}})

	// -----------------------------------------------------------------------
	register(&Rule{ID: "O1.pipeline", Min: 6, Text: "pipeline order inside PushPull (roles identified by the storage call they reach): continuity validation ≺ every rewrite of the request's change list (the presence strip, found by role: a store into Pack.Changes of the request) ≺ log append ≺ pull (change range or rebuilt document) ≺ ClientInfo.UpdateDocStatus ≺ Database.UpdateMinVersionVector ≺ Database.UpdateClientInfoAfterPushPull ≺ success return; every step's error edge returns before the next step",
		Run: func(x *Ctx) {
			p := x.pipe()
			if !p.ok {
				return
			}
			pp := p.PushPull
			first := func(cs []ssa.CallInstruction) ssa.CallInstruction {
				if len(cs) == 0 {
					return nil
				}
				return cs[0]
			}
			push := first(x.callsReaching(pp, p.CreateCI))
			pull := first(x.callsReaching(pp, p.FindBetween))
			k := "func=" + prog.FnName(pp)
			if push == nil || pull == nil {
				x.fail(k+" push≺pull", x.fpos(pp), "PushPull no longer reaches both the log append and the change pull")
				return
			}
			x.check(prog.Dominates(push, pull), k+" push≺pull", x.pos(pull), "the log append dominates the pull",
				"the pull can run before the client's own changes are stored")
			if pc, ok := push.(*ssa.Call); ok {
				x.guardedSite(k+" push-error-returns-before-pull", pull, []Cmp{errNilCmp(pc)}, nil)
			}
			// within the pull side (the callee of PushPull containing UpdateDocStatus)
			uds := x.P.FnObj("server/backend/database.(*ClientInfo).UpdateDocStatus")
			if uds == nil {
				x.C.Unresolved(x.id(), "ClientInfo.UpdateDocStatus")
				return
			}
			var host *ssa.Function
			var udsCall ssa.CallInstruction
			for _, c := range x.directCallers(uds) {
				if x.reachableFrom(pp, c.Parent()) && prog.PkgOf(c.Parent()) == prog.PkgOf(pp) {
					host, udsCall = c.Parent(), c
				}
			}
			if host == nil {
				x.fail(k+" status-update", x.fpos(pp), "no ClientInfo.UpdateDocStatus on the PushPull path")
				return
			}
			hk := "func=" + prog.FnName(host)
			prep := first(x.callsReaching(host, p.FindBetween))
			if prep == nil && host == pp {
				prep = pull
			}
			if prep != nil {
				x.check(prog.Dominates(prep, udsCall), hk+" pull≺status", x.pos(udsCall), "the response is prepared before the client's document status is updated",
					"the document status/checkpoint is updated before the response is prepared")
			} else {
				x.fail(hk+" pull≺status", x.pos(udsCall), "the function updating the status does not prepare the response")
			}
			if uc, ok := udsCall.(*ssa.Call); ok {
				for _, c := range callsToIn(host, p.UpdClient) {
					x.guardedSite(hk+" status-error-returns-before-persist", c, []Cmp{errNilCmp(uc)}, nil)
				}
			}
			persist := callsToIn(host, p.UpdClient)
			if len(persist) == 0 {
				x.fail(hk+" persist", x.fpos(host), "the client's checkpoint is not persisted (UpdateClientInfoAfterPushPull) on the PushPull path")
				return
			}
			for _, pc := range persist {
				x.check(prog.Dominates(udsCall, pc), hk+" status≺persist", x.pos(pc), "UpdateDocStatus dominates the checkpoint persist", "the client record is persisted before its status/checkpoint was updated")
				for _, mv := range callsToIn(host, p.UpdMinVV) {
					x.check(prog.MayPrecede(mv, pc) && !prog.MayPrecede(pc, mv), hk+" minvv≺persist", x.pos(mv), "the version-vector row is updated before the checkpoint persist", "the version-vector update can come after the checkpoint persist")
				}
				// success returns pass the persist for real clients: every non-error return is
				// either dominated by the persist or on the server-client edge
				isServer := x.P.FnObj("server/backend/database.(*ClientInfo).IsServerClient")
				srv := Cmp{L: vpCall(isServer), R: VP{"true", func(v ssa.Value) bool { return true }}, Want: EQ}
				_ = srv
				for _, r := range prog.Returns(host) {
					last := r.Results[len(r.Results)-1]
					if !prog.IsNilConst(last) {
						continue
					}
					ok := prog.Dominates(pc, r)
					if !ok {
						// reachable only through the edge on which IsServerClient() is true
						cut := map[prog.Edge]bool{}
						for _, b := range host.Blocks {
							if iff := prog.IfOf(b); iff != nil {
								cond := iff.Cond
								neg := false
								if u, isU := cond.(*ssa.UnOp); isU && u.Op == token.NOT {
									cond, neg = u.X, true
								}
								if vpCall(isServer).match(cond) {
									if neg {
										cut[prog.Edge{From: b, To: b.Succs[1]}] = true
									} else {
										cut[prog.Edge{From: b, To: b.Succs[0]}] = true
									}
								}
							}
						}
						pb := pc.Block()
						for _, s := range pb.Succs {
							cut[prog.Edge{From: pb, To: s}] = true
						}
						ok = prog.CutDisconnects(host, r.Block(), cut)
					}
					x.check(ok, hk+" success-return-after-persist", x.pos(r), "success is returned only after the checkpoint persist (or for the server's own client)",
						"a success return is reachable for a real client without persisting its checkpoint")
				}
			}
			// presence strip (when present) precedes the push
			for _, c := range prog.CallsIn(pp) {
				if cal := c.Common().StaticCallee(); cal != nil && strings.Contains(strings.ToLower(cal.Name()), "strippresence") {
					x.check(prog.Dominates(c, push) || !prog.MayPrecede(push, c), k+" strip≺push", x.pos(c), "presence is stripped before the log append", "presence is stripped only after the changes were stored")
				}
			}
			// the request's change list is rewritten (by role: a store into Pack.Changes of the request) only after the
			// continuity validation has seen the original list: dropped presence-only changes occupy a ClientSeq too
			if cpM, packChanges := x.P.FnObj(dbPkg+".(*ClientInfo).Checkpoint"), x.P.Field(changePkg+".Pack.Changes"); cpM != nil && packChanges != nil {
				cpT := x.P.Named(changePkg + ".Checkpoint")
				var val ssa.CallInstruction
				for _, c := range prog.CallsIn(pp) {
					call, ok := c.(*ssa.Call)
					if !ok || call.Call.StaticCallee() == nil || !prog.Dominates(call, push) {
						continue
					}
					cal := call.Call.StaticCallee()
					if prog.PkgOf(cal) != prog.PkgOf(pp) || cal.Signature.Results().Len() == 0 || !isErrorType(cal.Signature.Results().At(cal.Signature.Results().Len()-1).Type()) {
						continue
					}
					for i, pm := range cal.Params {
						if isNamed(pm.Type(), cpT) && prog.Reaches(call.Call.Args[i], vpCall(cpM).M) {
							val = call
						}
					}
				}
				for i, st := range storesTo(pp, packChanges) {
					okV := val != nil && prog.Dominates(val, st)
					x.check(okV, fmt.Sprintf("%s validate≺rewrite-of-request-changes#%d", k, i+1), x.pos(st), "the continuity validation sees the request before its change list is rewritten",
						"the request's change list is rewritten (presence-only changes dropped) before the ClientSeq continuity validation: a contiguous pack is refused as a gap forever, and a real gap that coincides with a dropped change is accepted")
				}
			}
		}})
}

func otherSucc(b, s *ssa.BasicBlock) *ssa.BasicBlock {
	if b.Succs[0] == s {
		return b.Succs[1]
	}
	return b.Succs[0]
}

// fieldAddrBase: for a load `*(&base.f)` returns base when base is itself a field
// selection (nested struct access such as pack.Checkpoint.ServerSeq).
func fieldAddrBase(v ssa.Value) ssa.Value {
	v = prog.Strip(v)
	switch t := v.(type) {
	case *ssa.UnOp:
		if fa, ok := t.X.(*ssa.FieldAddr); ok {
			if inner, ok := fa.X.(*ssa.FieldAddr); ok {
				return inner
			}
			if u, ok := fa.X.(*ssa.UnOp); ok {
				if inner, ok := u.X.(*ssa.FieldAddr); ok {
					return inner
				}
			}
		}
	case *ssa.Field:
		if inner, ok := t.X.(*ssa.Field); ok {
			return inner
		}
		if u, ok := t.X.(*ssa.UnOp); ok {
			if inner, ok := u.X.(*ssa.FieldAddr); ok {
				return inner
			}
		}
	}
	return nil
}

// traceParamToPushResult follows parameter pm of fn up the call chain to PushPull
// and requires it to be the push call's result with the same type at index idx
// (identified as: an int64 Extract of the push call).
func (x *Ctx) traceParamToPushResult(p *pipe, fn *ssa.Function, pm *ssa.Parameter, key string) {
	cur, curPm := fn, pm
	for depth := 0; depth < 6; depth++ {
		idx := -1
		for i, q := range cur.Params {
			if q == curPm {
				idx = i
			}
		}
		edges := x.calls().inSites[cur]
		if len(edges) != 1 || edges[0].Site == nil {
			x.fail(key+" provenance", x.fpos(cur), fmt.Sprintf("%s has %d callers; cannot follow the bound to the push result", prog.FnName(cur), len(edges)))
			return
		}
		site := edges[0].Site
		arg := site.Common().Args[idx]
		caller := site.Parent()
		var q *ssa.Parameter
		prog.Reaches(arg, func(w ssa.Value) bool {
			if pm, ok := w.(*ssa.Parameter); ok && pm.Parent() == caller {
				q = pm
				return true
			}
			return false
		})
		if q != nil {
			cur, curPm = caller, q
			continue
		}
		// must be an Extract of the call that reaches CreateChangeInfos
		ok := prog.Reaches(arg, func(w ssa.Value) bool {
			ex, isEx := w.(*ssa.Extract)
			if !isEx {
				return false
			}
			c, isC := ex.Tuple.(*ssa.Call)
			if !isC {
				return false
			}
			for _, pc := range x.callsReaching(caller, p.CreateCI) {
				if pc == ssa.CallInstruction(c) {
					return true
				}
			}
			return false
		})
		x.check(ok, key+" provenance", x.pos(site), "the bound is a result of the push step", "the upper bound of the pull does not come from the push step's result (e.g. it is the post-push head)")
		return
	}
}

// checkpointFlow: the Checkpoint parameter compared in the own-change filter is a
// result of the push step; the returned checkpoint is that checkpoint advanced by
// NextServerSeq(DocInfo.ServerSeq).
func (x *Ctx) checkpointFlow(p *pipe) {
	fn := p.Puller
	cpT := x.P.Named("pkg/document/change.Checkpoint")
	var pm *ssa.Parameter
	for _, q := range fn.Params {
		if isNamed(q.Type(), cpT) {
			pm = q
		}
	}
	if pm == nil {
		x.fail("func="+prog.FnName(fn)+" checkpoint-parameter", x.fpos(fn), "the pull function takes no checkpoint (after push) parameter")
		return
	}
	x.traceParamToPushResult(p, fn, pm, "func="+prog.FnName(fn)+" cpAfterPush")
	next := x.P.FnObj("pkg/document/change.Checkpoint.NextServerSeq")
	docSS := x.P.Field("server/backend/database.DocInfo.ServerSeq")
	ok := false
	for _, r := range prog.Returns(fn) {
		for _, res := range r.Results {
			if !isNamed(res.Type(), cpT) {
				continue
			}
			if prog.Reaches(res, func(w ssa.Value) bool {
				c, isC := w.(*ssa.Call)
				if !isC || !sameFunc(prog.CallObj(c), next) {
					return false
				}
				recvOK := prog.Reaches(c.Call.Args[0], func(u ssa.Value) bool { return u == ssa.Value(pm) })
				return recvOK && prog.LoadedField(c.Call.Args[1]) == docSS
			}) {
				ok = true
			}
		}
	}
	x.check(ok, "func="+prog.FnName(fn)+" response-checkpoint=cpAfterPush.NextServerSeq(doc.ServerSeq)", x.fpos(fn),
		"the response checkpoint is the post-push checkpoint advanced to the document head", "the response checkpoint is not cpAfterPush.NextServerSeq(DocInfo.ServerSeq)")
}

func init() {
	register(&Rule{ID: "WINDOW", Min: 5, Text: "retry-unsafe window (static fault enumeration): the de-duplication key of a client's changes (the ClientSeq of its stored checkpoint) is persisted by Database.UpdateClientInfoAfterPushPull, a different storage call than the log append. Every fallible step on the paths between the success of the append and the success of that persist is a point at which a failure leaves the changes stored but unacknowledged, so that the identical retry is stored a second time. The rule enumerates those steps (by the callee that can fail); each is reported, and the ones present on the pinned tree are known findings — a new fallible step in the window, or one that disappears from the list, changes the report",
		Run: func(x *Ctx) {
			p := x.pipe()
			if !p.ok {
				return
			}
			pp := p.PushPull
			var push ssa.CallInstruction
			for _, c := range x.callsReaching(pp, p.CreateCI) {
				if _, isGo := c.(*ssa.Go); !isGo {
					push = c
				}
			}
			if push == nil {
				x.fail("window", x.fpos(pp), "no push step")
				return
			}
			steps := map[string]string{}
			seen := map[*ssa.Function]bool{}
			returnsErr := func(c ssa.CallInstruction) bool {
				var sig *types.Signature
				if c.Common().IsInvoke() {
					sig = c.Common().Method.Type().(*types.Signature)
				} else if o := prog.CallObj(c); o != nil {
					sig = o.Type().(*types.Signature)
				} else if s, ok := c.Common().Value.Type().Underlying().(*types.Signature); ok {
					sig = s
				}
				return sig != nil && sig.Results().Len() > 0 && isErrorType(sig.Results().At(sig.Results().Len()-1).Type())
			}
			var collect func(fn *ssa.Function, after ssa.Instruction)
			collect = func(fn *ssa.Function, after ssa.Instruction) {
				if seen[fn] && after == nil {
					return
				}
				seen[fn] = true
				// the persist, if it is in this function, closes the window
				var persist ssa.CallInstruction
				for _, c := range callsTo([]*ssa.Function{fn}, p.UpdClient) {
					persist = c
				}
				for _, c := range prog.CallsIn(fn) {
					if _, isCall := c.(*ssa.Call); !isCall {
						continue
					}
					if after != nil && !(prog.MayPrecede(after, c)) {
						continue
					}
					if persist != nil && c != persist && !prog.MayPrecede(c, persist) {
						continue
					}
					if !returnsErr(c) {
						continue
					}
					callee := c.Common().StaticCallee()
					if callee != nil && prog.PkgOf(callee) == prog.PkgOf(pp) && callee.Blocks != nil {
						collect(callee, nil)
						continue
					}
					name := ""
					if c.Common().IsInvoke() {
						name = c.Common().Method.Name()
					} else if o := prog.CallObj(c); o != nil {
						name = o.Name()
					}
					if name == "" {
						continue
					}
					if o := prog.CallObj(c); o != nil && o.Pkg() != nil && (o.Pkg().Path() == "fmt" || o.Pkg().Path() == "errors") {
						continue // builds an error value; cannot fail
					}
					if _, ok := steps[name]; !ok {
						steps[name] = x.pos(c)
					}
				}
			}
			collect(pp, push)
			var names []string
			for n := range steps {
				names = append(names, n)
			}
			sort.Strings(names)
			x.C.Note("fallible steps between log append and checkpoint persist: " + strings.Join(names, ", "))
			for _, n := range names {
				x.fail("step="+n, steps[n], "a failure of "+n+" after the changes were appended to the log and before the client's checkpoint is persisted makes the server return an error with the changes stored; the client's identical retry is then stored again (each edit applied twice)")
			}
			if len(names) < 5 {
				x.C.Vacuous(x.id()+" steps", len(names), 5)
			}
		}})
}

func init() {
	register(&Rule{ID: "CP.flow", Min: 4, Text: "checkpoint provenance through the push: every implementation of Database.CreateChangeInfos returns, on each success exit, a checkpoint computed from the checkpoint it was given (never a constant or zero value: an empty or all-duplicate push must hand the stored client checkpoint back unchanged, otherwise the acknowledgement and the own-change filter of the pull are computed from 0); the push function's returned checkpoint is computed from that result, and the checkpoint it hands to CreateChangeInfos is computed from the client's stored checkpoint (ClientInfo.Checkpoint)",
		Run: func(x *Ctx) {
			p := x.pipe()
			if !p.ok {
				return
			}
			cpT := x.P.Named("pkg/document/change.Checkpoint")
			im := x.P.IfaceMethod(dbPkg + ".Database.CreateChangeInfos")
			if cpT == nil || im == nil || x.P.Named(dbPkg+".Database") == nil {
				x.C.Unresolved(x.id(), "change.Checkpoint / Database.CreateChangeInfos")
				return
			}
			n := 0
			var impls []*ssa.Function
			for _, t := range x.P.Implementers(x.P.Named(dbPkg + ".Database")) {
				if m := x.P.MethodOf(t, "CreateChangeInfos"); m != nil {
					impls = append(impls, m)
				}
			}
			for _, fn := range impls {
				var cpParam *ssa.Parameter
				for _, pm := range fn.Params {
					if isNamed(pm.Type(), cpT) {
						cpParam = pm
					}
				}
				ri := -1
				res := fn.Signature.Results()
				for i := 0; i < res.Len(); i++ {
					if isNamed(res.At(i).Type(), cpT) {
						ri = i
					}
				}
				if cpParam == nil || ri < 0 {
					x.C.Unresolved(x.id(), prog.FnName(fn)+" checkpoint parameter/result")
					continue
				}
				fromParam := func(w ssa.Value) bool {
					return prog.Reaches(w, func(u ssa.Value) bool { return u == ssa.Value(cpParam) })
				}
				i := 0
				for _, r := range prog.Returns(fn) {
					if !prog.ReturnsNilError(r) {
						continue
					}
					i++
					n++
					v := prog.ReturnValue(r, ri)
					x.check(prog.DependsOn(v, fromParam), fmt.Sprintf("func=%s success-return#%d checkpoint-from-parameter", prog.FnName(fn), i), x.pos(r),
						"the returned checkpoint is computed from the checkpoint passed in", "a success exit returns a checkpoint that does not derive from the one passed in (e.g. the initial checkpoint): the client's acknowledged ClientSeq/ServerSeq fall back and its own changes are delivered to it again")
				}
			}
			if n < 2 {
				x.C.Vacuous(x.id()+" success returns", n, 2)
			}
			// the pusher
			k := "func=" + prog.FnName(p.Pusher)
			cpM := x.P.FnObj(dbPkg + ".(*ClientInfo).Checkpoint")
			var cpArg ssa.Value
			for _, a := range p.PushCall.Common().Args {
				if isNamed(a.Type(), cpT) {
					cpArg = a
				}
			}
			if cpM == nil || cpArg == nil {
				x.C.Unresolved(x.id(), "ClientInfo.Checkpoint / checkpoint argument of CreateChangeInfos")
				return
			}
			x.check(prog.DependsOn(cpArg, func(w ssa.Value) bool {
				c, ok := prog.Strip(w).(*ssa.Call)
				return ok && sameFunc(prog.CallObj(c), cpM)
			}), k+" pushed-checkpoint-from-stored-client-checkpoint", x.pos(p.PushCall), "the checkpoint handed to the store derives from ClientInfo.Checkpoint", "the checkpoint handed to CreateChangeInfos does not derive from the client's stored checkpoint")
			res := p.Pusher.Signature.Results()
			for ri := 0; ri < res.Len(); ri++ {
				if !isNamed(res.At(ri).Type(), cpT) {
					continue
				}
				i := 0
				for _, r := range prog.Returns(p.Pusher) {
					if !prog.ReturnsNilError(r) {
						continue
					}
					i++
					v := prog.ReturnValue(r, ri)
					x.check(prog.DependsOn(v, func(w ssa.Value) bool {
						e, ok := prog.Strip(w).(*ssa.Extract)
						return ok && e.Tuple == p.PushCall.Value()
					}), fmt.Sprintf("%s success-return#%d checkpoint-from-store", k, i), x.pos(r), "the checkpoint after push is the one the store returned", "the push returns a checkpoint that is not the one CreateChangeInfos returned")
				}
			}
		}})
}

func init() {
	register(&Rule{ID: "CP.resp", Min: 3, Text: "a response never acknowledges changes it does not deliver: every ServerPack built in package packs with neither pulled changes nor a snapshot (the push-only response, the empty response of a detach after compaction) carries the request's own Checkpoint.ServerSeq — not the post-push head, which counts the sender's own new changes and everything other clients stored before them — together with the ClientSeq after the push; a pack that does deliver changes or a snapshot carries a checkpoint computed from the checkpoint after the push (NextServerSeq/…)",
		Run: func(x *Ctx) {
			newSP := x.P.FnObj("server/packs.NewServerPack")
			cpSS := x.P.Field(changePkg + ".Checkpoint.ServerSeq")
			cpCS := x.P.Field(changePkg + ".Checkpoint.ClientSeq")
			packCP := x.P.Field(changePkg + ".Pack.Checkpoint")
			cpT := x.P.Named(changePkg + ".Checkpoint")
			if newSP == nil || cpSS == nil || cpCS == nil || packCP == nil || cpT == nil {
				x.C.Unresolved(x.id(), "packs.NewServerPack / change.Checkpoint")
				return
			}
			n := 0
			cnt := map[string]int{}
			for _, fn := range x.P.FuncsIn("server/packs") {
				for _, c := range callsToIn(fn, newSP) {
					n++
					cnt[prog.FnName(fn)]++
					k := fmt.Sprintf("func=%s response#%d", prog.FnName(fn), cnt[prog.FnName(fn)])
					cp := paramArg(c, 1)
					empty := prog.IsNilConst(paramArg(c, 2)) && prog.IsNilConst(paramArg(c, 3))
					// a Checkpoint parameter of the function (the checkpoint after the push)
					var cpParam *ssa.Parameter
					for _, pm := range fn.Params {
						if isNamed(pm.Type(), cpT) {
							cpParam = pm
						}
					}
					fromParam := func(v ssa.Value) bool {
						return cpParam != nil && prog.DependsOn(v, func(w ssa.Value) bool {
							return prog.Reaches(w, func(u ssa.Value) bool { return u == ssa.Value(cpParam) })
						})
					}
					if !empty {
						x.check(fromParam(cp), k+" checkpoint-from-post-push-checkpoint", x.pos(c), "the response checkpoint is computed from the checkpoint after the push", "the response checkpoint is not computed from the checkpoint after the push")
						continue
					}
					// the composite literal's fields
					var ss, cs ssa.Value
					visitAlloc := func(w ssa.Value) bool {
						if u, isU := w.(*ssa.UnOp); isU {
							w = u.X
						}
						if al, ok := w.(*ssa.Alloc); ok {
							for _, r := range *al.Referrers() {
								if fa, isFA := r.(*ssa.FieldAddr); isFA {
									for _, rr := range *fa.Referrers() {
										if st, isSt := rr.(*ssa.Store); isSt && st.Addr == ssa.Value(fa) {
											switch prog.FieldVar(fa) {
											case cpSS:
												ss = st.Val
											case cpCS:
												cs = st.Val
											}
										}
									}
								}
							}
						}
						return false
					}
					visitAlloc(prog.Strip(cp))
					prog.Reaches(cp, visitAlloc)
					okSS := false
					if ss != nil && prog.LoadedField(ss) == cpSS {
						if base := fieldAddrBase(ss); base != nil && prog.FieldVar(base) == packCP {
							okSS = true
						}
					}
					x.check(okSS, k+" empty-response-keeps-request-ServerSeq", x.pos(c), "ServerSeq is the request checkpoint's", "a response that delivers nothing carries a ServerSeq other than the request's own: the client's checkpoint jumps over changes of other clients it has never received, and its next pull skips them")
					n++
					x.check(cs != nil && fromParam(cs), k+" empty-response-ClientSeq-after-push", x.pos(c), "ClientSeq is the one after the push", "the ClientSeq of an empty response is not taken from the checkpoint after the push: pushed changes are never acknowledged (or acknowledged before they are stored)")
				}
			}
			if n < 3 {
				x.C.Vacuous(x.id()+" responses", n, 3)
			}
		}})
}
