package rules

import (
	"fmt"
	"go/constant"
	"go/token"
	"go/types"
	"strings"

	"yv/internal/prog"

	"golang.org/x/tools/go/ssa"
)

// ---------------------------------------------------------------------------
// Value patterns: identify the *role* of an operand by provenance, never by name
// of a local variable or by position in the file.
// ---------------------------------------------------------------------------

// VP is a value pattern.
type VP struct {
	Desc string
	M    func(v ssa.Value) bool
}

func (p VP) match(v ssa.Value) bool { return p.M != nil && p.M(v) }

// vpAny matches when any of the patterns matches.
func vpAny(ps ...VP) VP {
	var ds []string
	for _, p := range ps {
		ds = append(ds, p.Desc)
	}
	return VP{strings.Join(ds, " | "), func(v ssa.Value) bool {
		for _, p := range ps {
			if p.match(v) {
				return true
			}
		}
		return false
	}}
}

// vpFlow: the value is, through value-preserving steps (phi, conversion,
// extract, load of a once-stored local), a value matching p.
func vpFlow(p VP) VP {
	return VP{p.Desc, func(v ssa.Value) bool { return prog.Reaches(v, p.M) }}
}

// vpDep: the value depends (any data dependence) on a value matching p.
func vpDep(p VP) VP {
	return VP{"f(" + p.Desc + ")", func(v ssa.Value) bool { return prog.DependsOn(v, p.M) }}
}

// vpCall: result of a call to the function/method object (static or invoke).
func vpCall(obj *types.Func) VP {
	name := "?"
	if obj != nil {
		name = obj.Name() + "()"
	}
	return VP{name, func(v ssa.Value) bool {
		c, ok := prog.Strip(v).(*ssa.Call)
		return ok && obj != nil && sameFunc(prog.CallObj(c), obj)
	}}
}

// vpCallOn: result of calling obj with a receiver/first argument matching recv.
func vpCallOn(obj *types.Func, recv VP) VP {
	name := "?"
	if obj != nil {
		name = obj.Name() + "()"
	}
	return VP{recv.Desc + "." + name, func(v ssa.Value) bool {
		c, ok := prog.Strip(v).(*ssa.Call)
		if !ok || obj == nil || !sameFunc(prog.CallObj(c), obj) {
			return false
		}
		var r ssa.Value
		if c.Call.IsInvoke() {
			r = c.Call.Value
		} else if len(c.Call.Args) > 0 {
			r = c.Call.Args[0]
		}
		return r != nil && recv.match(r)
	}}
}

// vpField: a load of struct field f (any base).
func vpField(f *types.Var) VP {
	name := "?"
	if f != nil {
		name = "." + f.Name()
	}
	return VP{name, func(v ssa.Value) bool { return f != nil && prog.LoadedField(v) == f }}
}

// vpFieldOf: a load of field f from a base matching base.
func vpFieldOf(f *types.Var, base VP) VP {
	name := "?"
	if f != nil {
		name = "." + f.Name()
	}
	return VP{base.Desc + name, func(v ssa.Value) bool {
		if f == nil || prog.LoadedField(v) != f {
			return false
		}
		b := prog.FieldBase(v)
		return b != nil && base.match(b)
	}}
}

// vpParam: the i-th parameter of fn (receiver = 0 for methods).
func vpParam(fn *ssa.Function, i int) VP {
	if fn == nil || i >= len(fn.Params) {
		return VP{"param?", nil}
	}
	pm := fn.Params[i]
	return VP{"param " + pm.Name(), func(v ssa.Value) bool { return prog.Strip(v) == ssa.Value(pm) }}
}

// vpParamNamedType: any parameter of fn whose type is (pointer to) the named type.
func vpParamOfType(fn *ssa.Function, n *types.Named) VP {
	return VP{"param of type " + typeName(n), func(v ssa.Value) bool {
		pm, ok := prog.Strip(v).(*ssa.Parameter)
		return ok && pm.Parent() == fn && isNamed(pm.Type(), n)
	}}
}

// vpType: any value whose type is (pointer to) the named type.
func vpType(n *types.Named) VP {
	return VP{"value of type " + typeName(n), func(v ssa.Value) bool { return isNamed(v.Type(), n) }}
}

// vpConst: the integer constant k.
func vpConst(k int64) VP {
	return VP{fmt.Sprint(k), func(v ssa.Value) bool { c, ok := prog.IntConst(v); return ok && c == k }}
}

// vpLen: len(x) with x matching p.
func vpLen(p VP) VP {
	return VP{"len(" + p.Desc + ")", func(v ssa.Value) bool {
		c, ok := prog.Strip(v).(*ssa.Call)
		if !ok {
			return false
		}
		b, ok := c.Call.Value.(*ssa.Builtin)
		return ok && b.Name() == "len" && len(c.Call.Args) == 1 && p.match(c.Call.Args[0])
	}}
}

// vpValue: exactly this SSA value (after stripping).
func vpValue(w ssa.Value) VP {
	return VP{w.Name(), func(v ssa.Value) bool { return prog.Strip(v) == prog.Strip(w) }}
}

// vpNot: anything not matching p.
func vpNot(p VP) VP {
	return VP{"not(" + p.Desc + ")", func(v ssa.Value) bool { return !p.match(v) }}
}

// vpAnything matches every value.
var vpAnything = VP{"_", func(ssa.Value) bool { return true }}

func typeName(n *types.Named) string {
	if n == nil {
		return "?"
	}
	return n.Obj().Name()
}

func isNamed(t types.Type, n *types.Named) bool {
	if n == nil {
		return false
	}
	if p, ok := t.(*types.Pointer); ok {
		t = p.Elem()
	}
	m, ok := t.(*types.Named)
	if !ok {
		return false
	}
	return m.Obj() == n.Obj() || (m.Origin() != nil && m.Origin().Obj() == n.Obj())
}

func sameFunc(a, b *types.Func) bool {
	if a == nil || b == nil {
		return false
	}
	if a == b {
		return true
	}
	return a.Origin() == b.Origin()
}

// ---------------------------------------------------------------------------
// Relations
// ---------------------------------------------------------------------------

// Rel is a binary relation between two roles.
type Rel int

const (
	RelNone Rel = iota
	GT
	GE
	LT
	LE
	EQ
	NE
)

func (r Rel) String() string { return [...]string{"?", ">", ">=", "<", "<=", "==", "!="}[r] }

func relOfToken(t token.Token) Rel {
	switch t {
	case token.GTR:
		return GT
	case token.GEQ:
		return GE
	case token.LSS:
		return LT
	case token.LEQ:
		return LE
	case token.EQL:
		return EQ
	case token.NEQ:
		return NE
	}
	return RelNone
}

func negRel(r Rel) Rel {
	switch r {
	case GT:
		return LE
	case GE:
		return LT
	case LT:
		return GE
	case LE:
		return GT
	case EQ:
		return NE
	case NE:
		return EQ
	}
	return RelNone
}

func swapRel(r Rel) Rel {
	switch r {
	case GT:
		return LT
	case GE:
		return LE
	case LT:
		return GT
	case LE:
		return GE
	}
	return r
}

// implies reports whether relation a (between the same operands) implies b.
func implies(a, b Rel) bool {
	if a == b {
		return true
	}
	switch b {
	case GE:
		return a == GT || a == EQ
	case LE:
		return a == LT || a == EQ
	case NE:
		return a == GT || a == LT
	}
	return false
}

// Cmp describes a comparison site: roles L and R and which relations (L rel R)
// make an edge a guard edge.
type Cmp struct {
	L, R VP
	Want Rel // the guard holds on edges that imply L Want R
}

func (c Cmp) String() string { return fmt.Sprintf("%s %s %s", c.L.Desc, c.Want, c.R.Desc) }

// BoolFn lets a rule teach the classifier a boolean-valued call: it returns the
// relation between (L,R) that holds when the call returns true.
type BoolFn func(call *ssa.Call, L, R VP) (Rel, bool)

// relOnTrue classifies a condition value: the relation L ? R that holds when the
// condition is true. found=false when the condition does not compare L and R.
func relOnTrue(cond ssa.Value, L, R VP, bf []BoolFn) (Rel, bool) {
	switch c := cond.(type) {
	case *ssa.UnOp:
		if c.Op == token.NOT {
			r, ok := relOnTrue(c.X, L, R, bf)
			return negRel(r), ok
		}
	case *ssa.BinOp:
		r := relOfToken(c.Op)
		if r == RelNone {
			return RelNone, false
		}
		// integer comparison of the roles
		if L.match(c.X) && R.match(c.Y) {
			return r, true
		}
		if L.match(c.Y) && R.match(c.X) {
			return swapRel(r), true
		}
		// three-way compare call against zero: f(L,R) ⋈ 0
		if call, ok := prog.Strip(c.X).(*ssa.Call); ok {
			if k, isK := prog.IntConst(c.Y); isK && k == 0 {
				if a, b, ok := twoOperands(call); ok && isCompareFn(call) {
					if L.match(a) && R.match(b) {
						return r, true
					}
					if L.match(b) && R.match(a) {
						return swapRel(r), true
					}
				}
			}
		}
		if call, ok := prog.Strip(c.Y).(*ssa.Call); ok {
			if k, isK := prog.IntConst(c.X); isK && k == 0 {
				if a, b, ok := twoOperands(call); ok && isCompareFn(call) {
					if L.match(a) && R.match(b) {
						return swapRel(r), true
					}
					if L.match(b) && R.match(a) {
						return r, true
					}
				}
			}
		}
		// boolean call compared with a constant? (x == true) — not used in this repo
	case *ssa.Call:
		for _, f := range bf {
			if r, ok := f(c, L, R); ok {
				return r, true
			}
		}
		// a.After(b) on tickets: a > b (Ticket.After is checked to be Compare > 0 by K.compare)
		if o := prog.CallObj(c); o != nil && o.Name() == "After" && isTicketMethod(o) {
			if a, b, ok := twoOperands(c); ok {
				if L.match(a) && R.match(b) {
					return GT, true
				}
				if L.match(b) && R.match(a) {
					return LT, true
				}
			}
		}
	}
	// a boolean value used directly as the condition: "L is true"
	if R.Desc == vpTrue.Desc && L.match(cond) {
		return EQ, true
	}
	return RelNone, false
}

// vpTrue is the right-hand side of "the boolean L is true".
var vpTrue = VP{"true", func(v ssa.Value) bool {
	c, ok := v.(*ssa.Const)
	return ok && c.Value != nil && c.Value.Kind() == constant.Bool && constant.BoolVal(c.Value)
}}

// isTrue: the guard "boolean value matching p is true".
func isTrue(p VP) Cmp { return Cmp{L: p, R: vpTrue, Want: EQ} }

// isFalse: the guard "boolean value matching p is false".
func isFalse(p VP) Cmp { return Cmp{L: p, R: vpTrue, Want: NE} }

// vpStr matches the string constant s.
func vpStr(s string) VP {
	return VP{fmt.Sprintf("%q", s), func(v ssa.Value) bool {
		c, ok := prog.Strip(v).(*ssa.Const)
		return ok && c.Value != nil && c.Value.Kind() == constant.String && constant.StringVal(c.Value) == s
	}}
}

// constStr resolves a package-level string constant ("rel/pkg.Name") to its value.
func (x *Ctx) constStr(spec string) (string, bool) {
	o, ok := x.P.Lookup(spec).(*types.Const)
	if !ok || o.Val().Kind() != constant.String {
		x.C.Unresolved(x.id(), spec)
		return "", false
	}
	return constant.StringVal(o.Val()), true
}

// constInt resolves a package-level integer constant.
func (x *Ctx) constInt(spec string) (int64, bool) {
	o, ok := x.P.Lookup(spec).(*types.Const)
	if !ok || o.Val().Kind() != constant.Int {
		x.C.Unresolved(x.id(), spec)
		return 0, false
	}
	i, _ := constant.Int64Val(o.Val())
	return i, true
}

func twoOperands(call *ssa.Call) (a, b ssa.Value, ok bool) {
	if call.Call.IsInvoke() {
		if len(call.Call.Args) == 1 {
			return call.Call.Value, call.Call.Args[0], true
		}
		return nil, nil, false
	}
	if len(call.Call.Args) == 2 {
		return call.Call.Args[0], call.Call.Args[1], true
	}
	return nil, nil, false
}

// isCompareFn: a three-way comparison by contract: a method or function named
// Compare returning int (time.Ticket.Compare, ActorID.Compare, bytes.Compare,
// strings.Compare, cmp.Compare).
func isCompareFn(call *ssa.Call) bool {
	o := prog.CallObj(call)
	if o == nil {
		return false
	}
	if o.Name() != "Compare" {
		return false
	}
	sig := o.Type().(*types.Signature)
	if sig.Results().Len() != 1 {
		return false
	}
	b, ok := sig.Results().At(0).Type().Underlying().(*types.Basic)
	return ok && b.Info()&types.IsInteger != 0
}

// GuardEdges returns the CFG edges of fn on which one of the comparisons is
// known to hold (true edge when the condition implies it, false edge when the
// negation implies it), and the list of edges where the roles are compared with
// the *wrong* polarity only (neither edge implies the wanted relation).
func GuardEdges(fn *ssa.Function, cmps []Cmp, bf []BoolFn) (guards map[prog.Edge]string, wrong []string) {
	guards = map[prog.Edge]string{}
	// holdsOn: does the condition value, when true (neg=false) or false (neg=true), imply one of the comparisons?
	holdsOn := func(cond ssa.Value, neg bool) (string, bool) {
		for _, c := range cmps {
			r, ok := relOnTrue(cond, c.L, c.R, bf)
			if !ok || r == RelNone {
				continue
			}
			if neg {
				r = negRel(r)
			}
			if implies(r, c.Want) {
				return fmt.Sprintf("(%s %s %s)", c.L.Desc, r, c.R.Desc), true
			}
		}
		return "", false
	}
	for _, b := range fn.Blocks {
		iff := prog.IfOf(b)
		if iff == nil || len(b.Succs) != 2 {
			continue
		}
		// a short-circuit result stored in a boolean: x := a && (b || c); if x { … } — a phi of booleans,
		// possibly nested; impliedBy walks it
		if ph, ok := iff.Cond.(*ssa.Phi); ok {
			if _, _, ok := boolPhi(ph); ok {
				tEdge, fEdge := prog.Edge{From: b, To: b.Succs[0]}, prog.Edge{From: b, To: b.Succs[1]}
				if d, ok := impliedBy(ph, true, holdsOn, 0); ok {
					guards[tEdge] = "true edge of a stored short-circuit condition: " + d
				}
				if d, ok := impliedBy(ph, false, holdsOn, 0); ok {
					guards[fEdge] = "false edge of a stored short-circuit condition: " + d
				}
				continue
			}
		}
		matched := false
		for _, c := range cmps {
			r, ok := relOnTrue(iff.Cond, c.L, c.R, bf)
			if !ok || r == RelNone {
				continue
			}
			if implies(r, c.Want) {
				guards[prog.Edge{From: b, To: b.Succs[0]}] = fmt.Sprintf("true edge of (%s %s %s)", c.L.Desc, r, c.R.Desc)
				matched = true
			} else if implies(negRel(r), c.Want) {
				guards[prog.Edge{From: b, To: b.Succs[1]}] = fmt.Sprintf("false edge of (%s %s %s)", c.L.Desc, r, c.R.Desc)
				matched = true
			} else if !matched {
				wrong = append(wrong, fmt.Sprintf("(%s %s %s) implies %s on neither edge", c.L.Desc, r, c.R.Desc, c.Want))
			}
		}
	}
	return guards, wrong
}

// boolPhi decomposes a boolean phi produced by a short-circuit expression that was
// assigned to a variable: it returns whether it is a conjunction (constant false
// edges) or a disjunction (constant true edges) and the condition values involved.
type condLit struct {
	V   ssa.Value
	Neg bool // the literal is NOT V
}

func boolPhi(ph *ssa.Phi) (isAnd bool, conds []condLit, ok bool) {
	b, isBool := ph.Type().Underlying().(*types.Basic)
	if !isBool || b.Kind() != types.Bool {
		return false, nil, false
	}
	nFalse, nTrue := 0, 0
	for i, e := range ph.Edges {
		pred := ph.Block().Preds[i]
		if c, isC := e.(*ssa.Const); isC && c.Value != nil && c.Value.Kind() == constant.Bool {
			iff := prog.IfOf(pred)
			if iff == nil {
				return false, nil, false
			}
			viaTrue := pred.Succs[0] == ph.Block()
			if constant.BoolVal(c.Value) {
				nTrue++
				// a disjunct that made the result true: cond if reached by the true edge, else NOT cond
				conds = append(conds, condLit{iff.Cond, !viaTrue})
			} else {
				nFalse++
				// a conjunct that made the result false: it is NOT(literal); literal = cond if reached by the false edge
				conds = append(conds, condLit{iff.Cond, viaTrue})
			}
			continue
		}
		conds = append(conds, condLit{e, false})
	}
	if nFalse > 0 && nTrue == 0 {
		return true, conds, true
	}
	if nTrue > 0 && nFalse == 0 {
		return false, conds, true
	}
	return false, nil, false
}

// impliedBy: does the boolean value v having the given outcome imply one of the
// wanted comparisons (holdsOn(cond, neg) answers for a leaf condition being true
// (neg=false) or false (neg=true))? Stored short-circuit results (phis of
// booleans) are walked: a conjunction that is true makes every conjunct true, one
// that is false makes some conjunct false — and dually for a disjunction.
func impliedBy(v ssa.Value, outcome bool, holdsOn func(ssa.Value, bool) (string, bool), depth int) (string, bool) {
	if ph, isPhi := v.(*ssa.Phi); isPhi && depth < 6 {
		if isAnd, lits, ok := boolPhi(ph); ok {
			// all: the outcome fixes every literal; any: it fixes at least one, unknown which
			all := isAnd == outcome
			var ds []string
			for _, l := range lits {
				// literal = (V is !Neg); under `all` the literal has the value `outcome`, so V is outcome XOR Neg
				d, ok := impliedBy(l.V, outcome != l.Neg, holdsOn, depth+1)
				if all && ok {
					return d, true
				}
				if !all {
					if !ok {
						return "", false
					}
					ds = append(ds, d)
				}
			}
			if !all && len(ds) > 0 {
				return "each of " + strings.Join(uniq(ds), " / "), true
			}
			return "", false
		}
	}
	return holdsOn(v, !outcome)
}

// relBits: the relations between L and R that are possible when the boolean v has
// the given outcome; compared reports whether v compares the two roles at all.
func relBits(v ssa.Value, outcome bool, L, R VP, depth int) (uint8, bool) {
	if ph, isPhi := v.(*ssa.Phi); isPhi && depth < 6 {
		if isAnd, lits, ok := boolPhi(ph); ok {
			all := isAnd == outcome
			bits, compared := uint8(0), false
			if all {
				bits = bitAll
			}
			for _, l := range lits {
				bl, c := relBits(l.V, outcome != l.Neg, L, R, depth+1)
				compared = compared || c
				if all {
					bits &= bl
				} else {
					bits |= bl
				}
			}
			return bits, compared
		}
	}
	if r, ok := relOnTrue(v, L, R, nil); ok && r != RelNone {
		if !outcome {
			r = negRel(r)
		}
		return satBits(r), true
	}
	return bitAll, false
}

// guardedSite decides one O2 obligation: every path from the entry of the site's
// function to the site uses an edge on which one of cmps holds.
func (x *Ctx) guardedSite(key string, site ssa.Instruction, cmps []Cmp, bf []BoolFn) bool {
	fn := site.Parent()
	guards, wrong := GuardEdges(fn, cmps, bf)
	cut := map[prog.Edge]bool{}
	var descs []string
	for e, d := range guards {
		cut[e] = true
		descs = append(descs, d)
	}
	var want []string
	for _, c := range cmps {
		want = append(want, c.String())
	}
	ok := len(cut) > 0 && prog.CutDisconnects(fn, site.Block(), cut)
	if ok {
		x.hold(key, x.pos(site), "every path to the site passes a guard edge: "+strings.Join(uniq(descs), "; "))
		return true
	}
	d := "the site is reachable without passing an edge on which [" + strings.Join(want, " or ") + "] holds"
	if len(wrong) > 0 {
		d += "; found with other polarity: " + strings.Join(uniq(wrong), "; ")
	}
	if len(descs) > 0 {
		d += "; guard edges present but not cutting: " + strings.Join(uniq(descs), "; ")
	}
	x.fail(key, x.pos(site), d)
	return false
}

func uniq(in []string) []string {
	seen := map[string]bool{}
	var out []string
	for _, s := range in {
		if !seen[s] {
			seen[s] = true
			out = append(out, s)
		}
	}
	return out
}

// ---------------------------------------------------------------------------
// Finding sites
// ---------------------------------------------------------------------------

// callsTo lists the call instructions in fns that call obj (a concrete function
// or an interface method invoked through the interface).
func callsTo(fns []*ssa.Function, obj *types.Func) []ssa.CallInstruction {
	var out []ssa.CallInstruction
	if obj == nil {
		return nil
	}
	for _, fn := range fns {
		for _, c := range prog.CallsIn(fn) {
			if sameFunc(prog.CallObj(c), obj) {
				out = append(out, c)
			}
		}
	}
	return out
}

// callsToIn lists calls to obj inside fn and its closures.
func callsToIn(fn *ssa.Function, obj *types.Func) []ssa.CallInstruction {
	fns := append([]*ssa.Function{fn}, prog.Closures(fn)...)
	return callsTo(fns, obj)
}

// storesTo lists the Store instructions in fn that write struct field f.
func storesTo(fn *ssa.Function, f *types.Var) []*ssa.Store {
	var out []*ssa.Store
	for _, b := range fn.Blocks {
		for _, ins := range b.Instrs {
			if st, ok := ins.(*ssa.Store); ok {
				if prog.FieldVar(st.Addr) == f {
					out = append(out, st)
				}
			}
		}
	}
	return out
}

// mapUpdatesOf lists the MapUpdate instructions in fn whose map is loaded from
// struct field f.
func mapUpdatesOf(fn *ssa.Function, f *types.Var) []*ssa.MapUpdate {
	var out []*ssa.MapUpdate
	for _, b := range fn.Blocks {
		for _, ins := range b.Instrs {
			if mu, ok := ins.(*ssa.MapUpdate); ok {
				if prog.LoadedField(mu.Map) == f {
					out = append(out, mu)
				}
			}
		}
	}
	return out
}

// argOf returns the i-th actual argument of a call, counting the receiver of a
// static method call as argument 0 and skipping the receiver of an invoke.
func argOf(c ssa.CallInstruction, i int) ssa.Value {
	cc := c.Common()
	if i < len(cc.Args) {
		return cc.Args[i]
	}
	return nil
}

// recvOf returns the receiver of a method call (static or invoke).
func recvOf(c ssa.CallInstruction) ssa.Value {
	cc := c.Common()
	if cc.IsInvoke() {
		return cc.Value
	}
	if len(cc.Args) > 0 {
		return cc.Args[0]
	}
	return nil
}

// paramArg returns the actual for the n-th *declared* parameter (not counting
// the receiver) of a method/function call.
func paramArg(c ssa.CallInstruction, n int) ssa.Value {
	cc := c.Common()
	if cc.IsInvoke() {
		if n < len(cc.Args) {
			return cc.Args[n]
		}
		return nil
	}
	off := 0
	if o := prog.CallObj(c); o != nil {
		if sig, ok := o.Type().(*types.Signature); ok && sig.Recv() != nil {
			off = 1
		}
	}
	if n+off < len(cc.Args) {
		return cc.Args[n+off]
	}
	return nil
}

// ---------------------------------------------------------------------------
// Relation dataflow: which of {L<R, L==R, L>R} are still possible at a block,
// given the comparisons of the two roles passed on the way (path-insensitive
// join = union). Precise for chained tests of one operand pair.
// ---------------------------------------------------------------------------

const (
	bitLT uint8 = 1 << iota
	bitEQ
	bitGT
	bitAll = bitLT | bitEQ | bitGT
)

func satBits(r Rel) uint8 {
	switch r {
	case LT:
		return bitLT
	case LE:
		return bitLT | bitEQ
	case GT:
		return bitGT
	case GE:
		return bitGT | bitEQ
	case EQ:
		return bitEQ
	case NE:
		return bitLT | bitGT
	}
	return bitAll
}

// relFlow computes, per block, the relations between roles L and R that are
// possible on entry to the block. Blocks in `removed` are treated as absent
// (paths through them do not count). Unreachable blocks map to 0.
func relFlow(fn *ssa.Function, L, R VP, removed map[*ssa.BasicBlock]bool) (map[*ssa.BasicBlock]uint8, bool) {
	state := map[*ssa.BasicBlock]uint8{}
	if len(fn.Blocks) == 0 {
		return state, false
	}
	compared := false
	state[fn.Blocks[0]] = bitAll
	work := []*ssa.BasicBlock{fn.Blocks[0]}
	for len(work) > 0 {
		b := work[len(work)-1]
		work = work[:len(work)-1]
		if removed[b] {
			continue
		}
		in := state[b]
		outs := make([]uint8, len(b.Succs))
		for i := range outs {
			outs[i] = in
		}
		if iff := prog.IfOf(b); iff != nil && len(b.Succs) == 2 {
			if bt, c := relBits(iff.Cond, true, L, R, 0); c {
				bf, _ := relBits(iff.Cond, false, L, R, 0)
				compared = true
				outs[0] = in & bt
				outs[1] = in & bf
			}
		}
		for i, s := range b.Succs {
			if outs[i] == 0 {
				continue
			}
			if state[s]|outs[i] != state[s] {
				state[s] |= outs[i]
				work = append(work, s)
			}
		}
	}
	return state, compared
}

// mustPassWhen decides: whenever (L bad R) is possible, every path to `site`
// passes `via`. It fails when the roles are never compared.
func (x *Ctx) mustPassWhen(key string, site, via ssa.Instruction, L, R VP, bad Rel, held, violated string) bool {
	fn := site.Parent()
	st, compared := relFlow(fn, L, R, map[*ssa.BasicBlock]bool{via.Block(): true})
	ok := compared && st[site.Block()]&satBits(bad) == 0
	if via.Block() == site.Block() && prog.InstrIndex(via) < prog.InstrIndex(site) {
		ok = compared
	}
	if !compared {
		violated = "no comparison of (" + L.Desc + ") with (" + R.Desc + ") decides the path; " + violated
	}
	x.check(ok, key, x.pos(site), held, violated)
	return ok
}

// onlyWhen decides: `site` is reached only when (L want R) holds, by relation
// dataflow over the comparisons of the two roles.
func (x *Ctx) onlyWhen(key string, site ssa.Instruction, L, R VP, want Rel, held, violated string) bool {
	st, compared := relFlow(site.Parent(), L, R, nil)
	ok := compared && st[site.Block()] != 0 && st[site.Block()]&^satBits(want) == 0
	x.check(ok, key, x.pos(site), held, violated)
	return ok
}

// sameAccessPath: two values denote the same storage path (identical value, or
// the same field chain over the same base) — go/ssa does no CSE, so each source
// mention of pair.elem is a new instruction.
func sameAccessPath(a, b ssa.Value) bool {
	a, b = prog.Strip(a), prog.Strip(b)
	if a == b {
		return true
	}
	fa, fb := prog.LoadedField(a), prog.LoadedField(b)
	if fa != nil && fa == fb {
		return sameAccessPath(prog.FieldBase(a), prog.FieldBase(b))
	}
	// field address bases
	if xa, ok := a.(*ssa.FieldAddr); ok {
		if xb, ok := b.(*ssa.FieldAddr); ok && xa.Field == xb.Field {
			return sameAccessPath(xa.X, xb.X)
		}
	}
	// loads of the same local
	if ua, ok := a.(*ssa.UnOp); ok {
		if ub, ok := b.(*ssa.UnOp); ok && ua.Op == token.MUL && ub.Op == token.MUL {
			return sameAccessPath(ua.X, ub.X)
		}
	}
	if ea, ok := a.(*ssa.Extract); ok {
		if eb, ok := b.(*ssa.Extract); ok {
			return ea.Index == eb.Index && ea.Tuple == eb.Tuple
		}
	}
	return false
}

func isTicketMethod(o *types.Func) bool {
	sig, ok := o.Type().(*types.Signature)
	if !ok || sig.Recv() == nil {
		return false
	}
	t := sig.Recv().Type()
	if p, ok := t.(*types.Pointer); ok {
		t = p.Elem()
	}
	n, ok := t.(*types.Named)
	return ok && n.Obj().Name() == "Ticket" && n.Obj().Pkg() != nil && strings.HasSuffix(n.Obj().Pkg().Path(), "/pkg/document/time")
}
