package rules

import (
	"fmt"
	"sort"
	"strings"

	"yv/internal/prog"

	"golang.org/x/tools/go/ssa"
)

// originCalls collects, for a value, the names of the calls/fields/parameters it
// originates from (through phis, extracts, spilled locals).
func originKinds(v ssa.Value) []string {
	set := map[string]bool{}
	prog.Reaches(v, func(w ssa.Value) bool {
		switch t := w.(type) {
		case *ssa.Call:
			name := "call:?"
			if t.Call.IsInvoke() {
				name = "call:" + t.Call.Method.Name()
			} else if o := prog.CallObj(t); o != nil {
				name = "call:" + o.Name()
			}
			set[name] = true
		case *ssa.Parameter:
			set["param:"+t.Name()] = true
		case *ssa.UnOp:
			if f := prog.LoadedField(t); f != nil {
				set["field:"+f.Name()] = true
			}
		case *ssa.Const:
			if t.IsNil() {
				set["nil"] = true
			}
		}
		return false
	})
	var out []string
	for k := range set {
		out = append(out, k)
	}
	sort.Strings(out)
	return out
}

func init() {
	register(&Rule{ID: "ANCHOR", Min: 3, Text: "anchor liveness in arrays: every anchor of a locally created Add/Move operation in package json originates from a liveness-filtered accessor (LastLiveCreatedAt, FindPrevCreatedAt, PosCreatedAt of a visible index) — never from the tombstone-inclusive LastCreatedAt, and from an element's own CreatedAt() only in a function that also converts it with PosCreatedAt (the fallback when the conversion fails)",
		Run: func(x *Ctx) {
			// --- liveness in package json: anchors of NewAdd / NewMove
			live := map[string]bool{"call:LastLiveCreatedAt": true, "call:FindPrevCreatedAt": true, "call:PosCreatedAt": true, "call:CreatedAt": true, "nil": true}
			jsonFns := x.P.FuncsIn("pkg/document/json")
			ci := x.calls()
			pairs := map[string]bool{} // kind@function
			var trace func(v ssa.Value, fn *ssa.Function, depth int, out map[string]string)
			trace = func(v ssa.Value, fn *ssa.Function, depth int, out map[string]string) {
				for _, k := range originKinds(v) {
					if strings.HasPrefix(k, "param:") && depth < 4 {
						// follow to the callers inside package json
						idx := -1
						for i, pm := range fn.Params {
							if "param:"+pm.Name() == k {
								idx = i
							}
						}
						followed := false
						for _, e := range ci.inSites[fn] {
							if e.Site == nil || idx < 0 || idx >= len(e.Site.Common().Args) {
								continue
							}
							if strings.HasSuffix(prog.PkgOf(e.Callee), "/pkg/document/json") {
								followed = true
								trace(e.Site.Common().Args[idx], e.Site.Parent(), depth+1, out)
							}
						}
						if !followed {
							out[k] = prog.FnName(fn) + " (public parameter)"
						}
						continue
					}
					out[k] = prog.FnName(fn)
					pairs[k+"@"+prog.FnName(fn)] = true
				}
			}
			n := 0
			for _, ctor := range []string{"NewAdd", "NewMove"} {
				obj := x.P.FnObj(opsPkg + "." + ctor)
				for _, c := range callsTo(jsonFns, obj) {
					n++
					origins := map[string]string{}
					for k := range pairs {
						delete(pairs, k)
					}
					trace(c.Common().Args[1], c.Parent(), 0, origins)
					var bad, all []string
					// an element's own CreatedAt() is an anchor only as the fallback of the conversion to its
					// position identity (PosCreatedAt failed): the function that takes it must also try PosCreatedAt
					for pk := range pairs {
						if strings.HasPrefix(pk, "call:CreatedAt@") {
							where := strings.TrimPrefix(pk, "call:CreatedAt@")
							if !pairs["call:PosCreatedAt@"+where] {
								bad = append(bad, "an element's CreatedAt() without the PosCreatedAt conversion in "+where+" (an element identity used as a position anchor: after the element was moved it names the dead slot it left)")
							}
						}
					}
					for k, where := range origins {
						all = append(all, k)
						if strings.HasPrefix(k, "param:") {
							continue // a ticket handed in through the public API: the caller's responsibility
						}
						if !live[k] {
							bad = append(bad, k+" in "+where)
						}
					}
					sort.Strings(all)
					sort.Strings(bad)
					k := fmt.Sprintf("liveness func=%s op=%s#%d", prog.FnName(c.Parent()), ctor, n)
					x.check(len(bad) == 0, k, x.pos(c), "anchor sources: "+strings.Join(all, ", "),
						"the operation's position anchor can come from "+strings.Join(bad, "; ")+", which may name a node the author already knows to be deleted: a peer that purged it can never apply the change")
				}
			}
			if n < 3 {
				x.C.Vacuous(x.id()+" json anchor sites", n, 3)
			}
		}})

	register(&Rule{ID: "ANCHOR.kind", Min: 10, Text: "identity kind of array anchors: every value bound to the position-anchor parameter of RGATreeList/Array InsertAfter/MoveAfter (and the internal forms) in packages crdt, json, operations and converter originates from a position-identity source (PositionCreatedAt, LastCreatedAt, LastLiveCreatedAt, FindPrevCreatedAt, PosCreatedAt, a decoded position ticket, an operation's prevCreatedAt, a parameter) — never directly from an element's CreatedAt(); and no list method uses one ticket both as a key of elementMapByCreatedAt (element identity) and as a position anchor: after a move the element identity names the dead slot the element left",
		Run: func(x *Ctx) {
			// --- identity kind: anchors handed to the list
			posKind := map[string]bool{"call:PositionCreatedAt": true, "call:LastCreatedAt": true, "call:LastLiveCreatedAt": true, "call:FindPrevCreatedAt": true,
				"call:PosCreatedAt": true, "call:fromTimeTicket": true, "call:FromTimeTicket": true, "field:prevCreatedAt": true, "field:createdAt": true, "nil": true, "call:PrevCreatedAt": true}
			for _, m := range []string{"RGATreeList.InsertAfter", "RGATreeList.MoveAfter", "RGATreeList.insertAfter", "RGATreeList.insertPositionAfter", "Array.InsertAfter", "Array.MoveAfter"} {
				obj := x.P.FnObj(crdtPkg + "." + m)
				if obj == nil {
					continue
				}
				idx := map[string]int{}
				for _, c := range callsTo(x.P.FuncsIn(crdtPkg, "pkg/document/json", convPkg, opsPkg), obj) {
					fn := c.Parent()
					idx[prog.FnName(fn)]++
					var bad, all []string
					for _, k := range originKinds(c.Common().Args[1]) {
						all = append(all, k)
						if strings.HasPrefix(k, "param:") {
							continue
						}
						if k == "call:CreatedAt" {
							bad = append(bad, k)
							continue
						}
						if !posKind[k] && !strings.HasPrefix(k, "call:") {
							continue
						}
						if !posKind[k] {
							bad = append(bad, k)
						}
					}
					k := fmt.Sprintf("identity-kind func=%s call=%s#%d", prog.FnName(fn), m, idx[prog.FnName(fn)])
					x.check(len(bad) == 0, k, x.pos(c), "anchor sources: "+strings.Join(all, ", "),
						"an element identity ("+strings.Join(bad, ", ")+") is used as a position anchor: after the element has been moved it names the dead slot it left, so the new node lands at the old place")
				}
			}
			// --- contradiction: one ticket used in both identity spaces inside one list method
			elemMap := x.P.Field(crdtPkg + ".RGATreeList.elementMapByCreatedAt")
			if elemMap == nil {
				x.C.Unresolved(x.id(), crdtPkg+".RGATreeList.elementMapByCreatedAt")
				return
			}
			anchorFns := map[string]bool{"insertAfter": true, "insertPositionAfter": true, "InsertAfter": true, "MoveAfter": true}
			for _, fn := range x.P.FuncsIn(crdtPkg) {
				if fn.Signature.Recv() == nil || !isNamed(fn.Signature.Recv().Type(), x.P.Named(crdtPkg+".RGATreeList")) {
					continue
				}
				for _, pm := range ticketParams(fn) {
					asElem, asAnchor := false, false
					var at ssa.Instruction
					for _, b := range fn.Blocks {
						for _, ins := range b.Instrs {
							switch t := ins.(type) {
							case *ssa.Lookup:
								if prog.LoadedField(t.X) == elemMap {
									if c, ok := t.Index.(*ssa.Call); ok && prog.CallObj(c) != nil && prog.CallObj(c).Name() == "Key" && len(c.Call.Args) > 0 && prog.Strip(c.Call.Args[0]) == ssa.Value(pm) {
										asElem = true
									}
								}
							case ssa.CallInstruction:
								o := prog.CallObj(t)
								if o != nil && anchorFns[o.Name()] && len(t.Common().Args) > 1 && prog.Strip(t.Common().Args[1]) == ssa.Value(pm) {
									asAnchor = true
									at = ins
								}
							}
						}
					}
					if asElem || asAnchor {
						k := fmt.Sprintf("one-identity-space func=%s ticket=%s", prog.FnName(fn), pm.Name())
						pos := x.fpos(fn)
						if at != nil {
							pos = x.pos(at)
						}
						x.check(!(asElem && asAnchor), k, pos, "the ticket is used in one identity space only",
							"the same ticket is looked up as an *element* identity (elementMapByCreatedAt) and passed on as a *position* anchor: once the element has been moved these differ and the anchor names the dead slot the element left")
					}
				}
			}
		}})
}

func init() {
	register(&Rule{ID: "ANCHOR.acc", Min: 2, Text: "the liveness-filtered accessors really filter: RGATreeList.FindPrevCreatedAt and LastLiveCreatedAt leave their backward walk — and so return a node's position identity — only on an edge where the node is the dummy head or node.IsRemoved() is false (FindPrevCreatedAt additionally skips slots that hold no element)",
		Run: func(x *Ctx) {
			isRemoved := x.P.FnObj(crdtPkg + ".(*RGATreeListNode).IsRemoved")
			head := x.P.Field(crdtPkg + ".RGATreeList.dummyHead")
			if isRemoved == nil || head == nil {
				x.C.Unresolved(x.id(), "RGATreeListNode.IsRemoved / RGATreeList.dummyHead")
				return
			}
			nodeT := x.P.Named(crdtPkg + ".RGATreeListNode")
			anyNode := VP{"node", func(v ssa.Value) bool { return isNamed(v.Type(), nodeT) }}
			for _, name := range []string{"FindPrevCreatedAt", "LastLiveCreatedAt"} {
				fn := x.fn(crdtPkg + ".(*RGATreeList)." + name)
				if fn == nil {
					continue
				}
				n := 0
				for _, r := range prog.Returns(fn) {
					if len(r.Results) > 1 && !prog.ReturnsNilError(r) {
						continue
					}
					n++
					x.guardedSite(fmt.Sprintf("func=%s return#%d live-or-head", prog.FnName(fn), n), r,
						[]Cmp{isFalse(vpCall(isRemoved)), {L: vpField(head), R: anyNode, Want: EQ}}, nil)
				}
				if n == 0 {
					x.fail("func="+prog.FnName(fn)+" returns", x.fpos(fn), "no success return")
				}
			}
		}})
}

func init() {
	register(&Rule{ID: "ANCHOR.slot", Min: 4, Text: "an element's slot is found through the element map: in RGATreeList no read of nodeMapByCreatedAt (the map of position slots, keyed by position identity) uses a key computed from an Element's CreatedAt() — an element that was moved sits in the slot elementMapByCreatedAt[id].positionNode, and its own creation ticket still names the dead slot it left; only the insertion of a new element writes nodeMapByCreatedAt under the element's ticket (the two identities coincide until the first move)",
		Run: func(x *Ctx) {
			slotF := x.P.Field(crdtPkg + ".RGATreeList.nodeMapByCreatedAt")
			elemI := x.P.Named(crdtPkg + ".Element")
			if slotF == nil || elemI == nil {
				x.C.Unresolved(x.id(), "RGATreeList.nodeMapByCreatedAt / crdt.Element")
				return
			}
			fromElement := func(k ssa.Value) bool {
				return prog.DependsOn(k, func(w ssa.Value) bool {
					c, ok := prog.Strip(w).(*ssa.Call)
					if !ok {
						return false
					}
					if c.Call.IsInvoke() && c.Call.Method.Name() == "CreatedAt" && isNamed(c.Call.Value.Type(), elemI) {
						return true
					}
					return false
				})
			}
			n := 0
			for _, fn := range x.P.FuncsIn(crdtPkg) {
				i := 0
				for _, b := range fn.Blocks {
					for _, ins := range b.Instrs {
						lk, ok := ins.(*ssa.Lookup)
						if !ok || prog.LoadedField(lk.X) != slotF {
							continue
						}
						i++
						n++
						x.check(!fromElement(lk.Index), fmt.Sprintf("func=%s slot-read#%d not-keyed-by-element-identity", prog.FnName(fn), i), x.pos(lk), "the slot is looked up by a position identity", "a position slot is looked up under an element's own CreatedAt(): for an element that was moved this is the dead slot it left, not the slot it occupies")
					}
				}
			}
			if n < 4 {
				x.C.Vacuous(x.id()+" slot reads", n, 4)
			}
		}})
}
