package rules

import (
	"fmt"
	"go/ast"
	"go/token"
	"go/types"
	"strings"

	"yv/internal/prog"

	"golang.org/x/tools/go/ssa"
)

// Round 9: rules written after the last seeded round and a second look at the
// stored changes no rule reported.

// astStack walks body and calls f for every node with the stack of its ancestors
// (outermost first, the node itself last).
func astStack(body ast.Node, f func(stack []ast.Node)) {
	var stack []ast.Node
	ast.Inspect(body, func(n ast.Node) bool {
		if n == nil {
			stack = stack[:len(stack)-1]
			return true
		}
		stack = append(stack, n)
		f(stack)
		return true
	})
}

// conjuncts splits a && b && c (parentheses removed).
func conjuncts(e ast.Expr) []ast.Expr {
	e = ast.Unparen(e)
	if b, ok := e.(*ast.BinaryExpr); ok && b.Op == token.LAND {
		return append(conjuncts(b.X), conjuncts(b.Y)...)
	}
	return []ast.Expr{e}
}

// disjuncts splits a || b || c.
func disjuncts(e ast.Expr) []ast.Expr {
	e = ast.Unparen(e)
	if b, ok := e.(*ast.BinaryExpr); ok && b.Op == token.LOR {
		return append(disjuncts(b.X), disjuncts(b.Y)...)
	}
	return []ast.Expr{e}
}

// leavesBlock: the statement list ends by leaving the enclosing construct.
func leavesBlock(b *ast.BlockStmt) bool {
	if b == nil || len(b.List) == 0 {
		return false
	}
	switch b.List[len(b.List)-1].(type) {
	case *ast.ReturnStmt, *ast.BranchStmt:
		return true
	}
	return false
}

func init() {
	register(&Rule{ID: "FLOOR.exact", Min: 1, Text: "a floor lookup answers \"the piece that starts at or before the key\": in package crdt, where the result of Tree.findFloorNode for a key whose Offset is computed in the function (a key built on the spot, not a stored id) is used as the node in front of which something is inserted (it appears in the arguments of InsertAt — its child index is the slot), the result's own id.Offset was compared for equality with the key's offset (or its id with the key) on the way — as a conjunct of an enclosing if, or by an earlier guard that leaves. Without it the piece that merely precedes the key — the successor was purged, an earlier piece of the same insertion survives — is taken for the successor, and restored text is put in front of text it followed",
		Run: func(x *Ctx) {
			pk, ok := x.P.Syntax(crdtPkg)
			if !ok {
				x.C.Unresolved(x.id(), crdtPkg)
				return
			}
			floor := x.P.FnObj(crdtPkg + ".(*Tree).findFloorNode")
			if floor == nil {
				x.C.Unresolved(x.id(), "Tree.findFloorNode")
				return
			}
			info := pk.TypesInfo
			calleeOf := func(c *ast.CallExpr) *types.Func {
				var id *ast.Ident
				switch f := ast.Unparen(c.Fun).(type) {
				case *ast.SelectorExpr:
					id = f.Sel
				case *ast.Ident:
					id = f
				}
				if id == nil {
					return nil
				}
				fn, _ := info.Uses[id].(*types.Func)
				return fn
			}
			n := 0
			for _, f := range pk.Syntax {
				if strings.HasSuffix(x.P.Fset.Position(f.Pos()).Filename, "_test.go") {
					continue
				}
				for _, d := range f.Decls {
					fd, ok := d.(*ast.FuncDecl)
					if !ok || fd.Body == nil {
						continue
					}
					// v := t.findFloorNode(&TreeNodeID{…, Offset: E}) with E computed
					type lookup struct {
						v   types.Object
						off ast.Expr
						pos token.Pos
					}
					var lookups []lookup
					ast.Inspect(fd.Body, func(nd ast.Node) bool {
						as, ok := nd.(*ast.AssignStmt)
						if !ok || len(as.Lhs) != 1 || len(as.Rhs) != 1 {
							return true
						}
						call, ok := ast.Unparen(as.Rhs[0]).(*ast.CallExpr)
						if !ok || len(call.Args) != 1 {
							return true
						}
						if fn := calleeOf(call); fn == nil || fn.Origin() != floor.Origin() {
							return true
						}
						un, ok := ast.Unparen(call.Args[0]).(*ast.UnaryExpr)
						if !ok || un.Op != token.AND {
							return true
						}
						lit, ok := ast.Unparen(un.X).(*ast.CompositeLit)
						if !ok {
							return true
						}
						for _, el := range lit.Elts {
							kv, ok := el.(*ast.KeyValueExpr)
							if !ok {
								continue
							}
							if k, ok := kv.Key.(*ast.Ident); ok && k.Name == "Offset" {
								lhs, ok := as.Lhs[0].(*ast.Ident)
								if !ok {
									continue
								}
								obj := info.Defs[lhs]
								if obj == nil {
									obj = info.Uses[lhs]
								}
								if obj != nil {
									lookups = append(lookups, lookup{obj, kv.Value, call.Pos()})
								}
							}
						}
						return true
					})
					if len(lookups) == 0 {
						continue
					}
					// isExact: the expression states v.id.Offset == E (either order), v.id.Equal(key) or v.id.Compare(key) == 0
					isOffsetOf := func(e ast.Expr, v types.Object) bool {
						s, ok := ast.Unparen(e).(*ast.SelectorExpr)
						if !ok || s.Sel.Name != "Offset" {
							return false
						}
						found := false
						ast.Inspect(s.X, func(nd ast.Node) bool {
							if id, ok := nd.(*ast.Ident); ok && info.Uses[id] == v {
								found = true
							}
							return true
						})
						return found
					}
					// a local that is defined once and never reassigned stands for its defining expression
					defs := map[types.Object]ast.Expr{}
					reassigned := map[types.Object]bool{}
					ast.Inspect(fd.Body, func(nd ast.Node) bool {
						switch t := nd.(type) {
						case *ast.AssignStmt:
							for i, l := range t.Lhs {
								id, ok := l.(*ast.Ident)
								if !ok {
									continue
								}
								if o := info.Defs[id]; o != nil && t.Tok == token.DEFINE && len(t.Lhs) == len(t.Rhs) {
									defs[o] = t.Rhs[i]
								} else if o := info.Uses[id]; o != nil {
									reassigned[o] = true
								}
							}
						case *ast.IncDecStmt:
							if id, ok := t.X.(*ast.Ident); ok && info.Uses[id] != nil {
								reassigned[info.Uses[id]] = true
							}
						case *ast.UnaryExpr:
							if id, ok := t.X.(*ast.Ident); ok && t.Op == token.AND && info.Uses[id] != nil {
								reassigned[info.Uses[id]] = true
							}
						}
						return true
					})
					var norm func(e ast.Expr, depth int) string
					norm = func(e ast.Expr, depth int) string {
						e = ast.Unparen(e)
						switch t := e.(type) {
						case *ast.Ident:
							if o := info.Uses[t]; o != nil && depth < 4 {
								if d, ok := defs[o]; ok && !reassigned[o] {
									return norm(d, depth+1)
								}
							}
						case *ast.BinaryExpr:
							return "(" + norm(t.X, depth) + t.Op.String() + norm(t.Y, depth) + ")"
						}
						return types.ExprString(e)
					}
					same := func(a, b ast.Expr) bool { return norm(a, 0) == norm(b, 0) }
					states := func(e ast.Expr, lk lookup, op token.Token) bool {
						e = ast.Unparen(e)
						if b, ok := e.(*ast.BinaryExpr); ok && b.Op == op {
							if (isOffsetOf(b.X, lk.v) && same(b.Y, lk.off)) || (isOffsetOf(b.Y, lk.v) && same(b.X, lk.off)) {
								return true
							}
						}
						if op == token.EQL {
							if c, ok := e.(*ast.CallExpr); ok {
								if s, ok := ast.Unparen(c.Fun).(*ast.SelectorExpr); ok && s.Sel.Name == "Equal" {
									mentions := false
									ast.Inspect(s.X, func(nd ast.Node) bool {
										if id, ok := nd.(*ast.Ident); ok && info.Uses[id] == lk.v {
											mentions = true
										}
										return true
									})
									return mentions
								}
							}
						}
						return false
					}
					astStack(fd.Body, func(stack []ast.Node) {
						id, ok := stack[len(stack)-1].(*ast.Ident)
						if !ok {
							return
						}
						for _, lk := range lookups {
							if info.Uses[id] != lk.v || id.Pos() < lk.pos {
								continue
							}
							// inside the arguments of an InsertAt call?
							inInsertAt := false
							for i := len(stack) - 2; i >= 0; i-- {
								if c, ok := stack[i].(*ast.CallExpr); ok {
									if fn := calleeOf(c); fn != nil && fn.Name() == "InsertAt" {
										for _, a := range c.Args {
											if a.Pos() <= id.Pos() && id.End() <= a.End() {
												inInsertAt = true
											}
										}
									}
								}
							}
							if !inInsertAt {
								continue
							}
							n++
							exact := false
							for i := len(stack) - 2; i >= 0 && !exact; i-- {
								switch t := stack[i].(type) {
								case *ast.IfStmt:
									// the use lies in the body (not the else, not the condition)
									if t.Body.Pos() <= id.Pos() && id.End() <= t.Body.End() {
										for _, cj := range conjuncts(t.Cond) {
											if states(cj, lk, token.EQL) {
												exact = true
											}
										}
									}
								case *ast.BlockStmt:
									// an earlier guard of this block that leaves when the offsets differ
									for _, st := range t.List {
										if st.End() > id.Pos() {
											break
										}
										if g, ok := st.(*ast.IfStmt); ok && g.Pos() > lk.pos && leavesBlock(g.Body) && g.Else == nil {
											for _, dj := range disjuncts(g.Cond) {
												if states(dj, lk, token.NEQ) {
													exact = true
												}
											}
										}
									}
								}
							}
							recv := ""
							if fd.Recv != nil && len(fd.Recv.List) > 0 {
								recv = types.ExprString(fd.Recv.List[0].Type) + "."
							}
							x.check(exact, fmt.Sprintf("func=%s%s floor-result=%s key-offset=%s inserted-in-front-of", recv, fd.Name.Name, lk.v.Name(), types.ExprString(lk.off)),
								x.P.Pos(id.Pos()), "the floor result is used as the right neighbour only when it starts exactly at the key's offset",
								"the result of a floor lookup is used as the node in front of which the restored piece is inserted without having been compared with the offset that was asked for: when the successor piece is gone the lookup returns an earlier piece of the same insertion and the restored text lands in front of text it followed")
						}
					})
				}
			}
			if n < 1 {
				x.C.Vacuous(x.id()+" floor results used as a right neighbour", n, 1)
			}
		}})

	register(&Rule{ID: "ENC.cap", Min: 2, Text: "the snapshot decoder accepts whatever the snapshot encoder emits: a function of the production packages that builds a zstd decoder (zstd.NewReader) configures it only with options that do not restrict which frames decode (WithDecoderLowmem, WithDecoderConcurrency, WithDecodeBuffersBelow) — no size or window cap (WithDecoderMaxMemory, WithDecoderMaxWindow, WithDecodeAllCapLimit) and no dictionary — and the function that builds the encoder (zstd.NewWriter) uses no dictionary option; a decoder capped by a constant that looks generous (the compression threshold) refuses every stored snapshot above it: the document can no longer be loaded from its snapshot",
		Run: func(x *Ctx) {
			const zpkg = "github.com/klauspost/compress/zstd"
			decOK := map[string]bool{"WithDecoderLowmem": true, "WithDecoderConcurrency": true, "WithDecodeBuffersBelow": true}
			encBad := map[string]bool{"WithEncoderDict": true, "WithEncoderDictRaw": true}
			n := 0
			for _, fn := range x.P.ProdFuncs() {
				if len(fn.Blocks) == 0 {
					continue
				}
				makesDec, makesEnc := false, false
				var opts []ssa.CallInstruction
				for _, c := range prog.CallsIn(fn) {
					o := prog.CallObj(c)
					if o == nil || o.Pkg() == nil || o.Pkg().Path() != zpkg {
						continue
					}
					switch {
					case o.Name() == "NewReader":
						makesDec = true
					case o.Name() == "NewWriter":
						makesEnc = true
					case strings.HasPrefix(o.Name(), "With"):
						opts = append(opts, c)
					}
				}
				if !makesDec && !makesEnc {
					continue
				}
				n++
				bad := ""
				for _, c := range opts {
					name := prog.CallObj(c).Name()
					if makesDec && strings.HasPrefix(name, "WithDec") && !decOK[name] {
						bad = name + " at " + x.pos(c)
					}
					if makesEnc && encBad[name] {
						bad = name + " at " + x.pos(c)
					}
				}
				what := "decoder"
				if makesEnc {
					what = "encoder"
				}
				x.check(bad == "", fmt.Sprintf("func=%s zstd-%s options-do-not-restrict-what-decodes", prog.FnName(fn), what), x.fpos(fn),
					"the "+what+" is built without a cap or a dictionary", "the zstd "+what+" is configured with "+bad+": frames the encoder emits (a snapshot larger than the cap, a frame without the dictionary) are refused when the stored snapshot is read back")
			}
			if n < 2 {
				x.C.Vacuous(x.id()+" functions that build a zstd encoder or decoder", n, 2)
			}
		}})

	register(&Rule{ID: "E.store", Min: 100, Text: "no error of the storage layer is dropped: every call, anywhere in the production packages, of a method of the database.Database interface (through the interface or on the memory or MongoDB implementation) that returns an error has that error looked at — the error component of the result has a use (a test, a return, a wrap, a log); a call whose error is discarded (`_ =`, `x, _ :=`, a bare call statement, `go`/`defer` of it) reports success for a write that did not happen: the client is told its changes are stored, or a checkpoint, a lock row or an attachment row silently stays as it was",
		Run: func(x *Ctx) {
			dbT := x.P.Named("server/backend/database.Database")
			if dbT == nil {
				x.C.Unresolved(x.id(), "database.Database")
				return
			}
			iface, _ := dbT.Underlying().(*types.Interface)
			if iface == nil {
				x.C.Unresolved(x.id(), "database.Database is not an interface")
				return
			}
			methods := map[string]bool{}
			for i := 0; i < iface.NumMethods(); i++ {
				m := iface.Method(i)
				sig := m.Type().(*types.Signature)
				if sig.Results().Len() > 0 && isErrorType(sig.Results().At(sig.Results().Len()-1).Type()) {
					methods[m.Name()] = true
				}
			}
			implements := func(t types.Type) bool {
				if t == nil {
					return false
				}
				return types.Implements(t, iface) || types.Implements(types.NewPointer(t), iface)
			}
			n := 0
			perFn := map[string]int{}
			for _, fn := range x.P.ProdFuncs() {
				if len(fn.Blocks) == 0 || (fn.Origin() != nil && fn.Origin() != fn) {
					continue
				}
				for _, c := range prog.CallsIn(fn) {
					cc := c.Common()
					name := ""
					var recv types.Type
					if cc.IsInvoke() {
						name, recv = cc.Method.Name(), cc.Value.Type()
					} else if o := prog.CallObj(c); o != nil {
						if sig, ok := o.Type().(*types.Signature); ok && sig.Recv() != nil {
							name, recv = o.Name(), sig.Recv().Type()
						}
					}
					if !methods[name] || recv == nil {
						continue
					}
					if !types.Identical(recv, dbT) && !implements(recv) {
						if p, ok := recv.(*types.Pointer); !ok || !implements(p.Elem()) {
							continue
						}
					}
					n++
					perFn[prog.FnName(fn)+" "+name]++
					k := fmt.Sprintf("func=%s call=%s#%d error-looked-at", prog.FnName(fn), name, perFn[prog.FnName(fn)+" "+name])
					used := false
					why := ""
					switch t := c.(type) {
					case *ssa.Call:
						res := t.Call.Signature().Results()
						if res.Len() == 1 {
							used = len(*t.Referrers()) > 0
						} else {
							for _, r := range *t.Referrers() {
								if ex, ok := r.(*ssa.Extract); ok && ex.Index == res.Len()-1 && len(*ex.Referrers()) > 0 {
									used = true
								}
							}
						}
						if !used {
							why = "its error result has no use"
						}
					default:
						why = "it is started with go/defer, which discards the result"
					}
					x.check(used, k, x.pos(c), "the error is looked at", "the storage call "+name+" is made and "+why+": a failed read or write is taken for a success")
				}
			}
			if n < 100 {
				x.C.Vacuous(x.id()+" storage calls", n, 100)
			}
		}})

	register(&Rule{ID: "OWN.scope", Min: 1, Text: "a counter that restarts with every attachment does not identify a change in a log that outlives attachments: ClientSeq is set back to 0 when a document is attached, detached or removed (ClientInfo.AttachDocument/DetachDocument/RemoveDocument), and the change log keeps the changes of earlier attachments of the same client; so where the pull function drops a logged change as the requester's own (ActorID == requester and ClientSeq ≤ acknowledged) the decision also looks at something that tells this attachment from an earlier one — the change's ServerSeq, or a field of the attachment record other than the ones it has today (Status, ServerSeq, ClientSeq, Epoch — none of them survives a detach or names the attachment). Without it a client that attaches a document again with a fresh replica that already carries k local changes never receives the first k changes of its earlier attachment",
		Run: func(x *Ctx) {
			p := x.pipe()
			if !p.ok {
				return
			}
			fn := p.Puller
			ciT := x.P.Named("server/backend/database.ChangeInfo")
			cseqDoc := x.P.Field("server/backend/database.ClientDocInfo.ClientSeq")
			statusDoc := x.P.Field("server/backend/database.ClientDocInfo.Status")
			sseqChange := x.P.Field("server/backend/database.ChangeInfo.ServerSeq")
			cdT := x.P.Named("server/backend/database.ClientDocInfo")
			if ciT == nil || cseqDoc == nil || sseqChange == nil || cdT == nil {
				x.C.Unresolved(x.id(), "ChangeInfo / ClientDocInfo fields")
				return
			}
			// premise: the counter restarts
			restarts := 0
			for _, g := range x.P.FuncsIn("server/backend/database") {
				for _, st := range storesToField(g, cseqDoc) {
					if k, ok := prog.IntConst(st.Val); ok && k == 0 {
						restarts++
					}
				}
			}
			if restarts == 0 {
				x.hold("premise=ClientSeq-restarts-per-attachment", x.fpos(fn), "ClientSeq is no longer set back to 0 by the attachment methods: the counter identifies a change for the lifetime of the client")
				return
			}
			i := 0
			for _, c := range prog.CallsIn(fn) {
				b, ok := c.Common().Value.(*ssa.Builtin)
				if !ok || b.Name() != "append" {
					continue
				}
				sl, ok := c.Common().Args[0].Type().Underlying().(*types.Slice)
				if !ok || !isNamed(sl.Elem(), ciT) {
					continue
				}
				i++
				scoped := false
				for _, iff := range x.P.ControlDeps(c.Block()) {
					if prog.DependsOn(iff.Cond, func(v ssa.Value) bool {
						f := prog.LoadedField(v)
						if f == nil {
							return false
						}
						if f == sseqChange {
							return true
						}
						// a field of the attachment record other than the restarting counter and the status
						if f != cseqDoc && f != statusDoc && f.Name() != "Epoch" && f.Name() != "ServerSeq" {
							if st, ok := cdT.Underlying().(*types.Struct); ok {
								for j := 0; j < st.NumFields(); j++ {
									if st.Field(j) == f {
										return true
									}
								}
							}
						}
						return false
					}) {
						scoped = true
					}
				}
				x.check(scoped, fmt.Sprintf("func=%s own-change-filter#%d tells-attachments-apart", prog.FnName(fn), i), x.pos(c),
					"the own-change filter is scoped to the current attachment",
					"the pull drops a logged change as the requester's own on ActorID and ClientSeq alone; ClientSeq restarts with every attachment, so the changes of an earlier attachment of the same client whose ClientSeq is not above the acknowledged one are withheld from its fresh replica")
			}
			if i == 0 {
				x.C.Unresolved(x.id(), "append of *ChangeInfo in the pull function")
			}
		}})

	register(&Rule{ID: "N5", Min: 20, Text: "an operation arrives with the tickets its execution dereferences: operations are client-supplied and the server executes them when it builds a snapshot (in a background goroutine — a panic there ends the process, and again at every later build). In the converter's operation decoders (everything FromOperations reaches inside package converter), every *time.Ticket handed to a constructor of package operations or to a constructor/identity function of the CRDT model comes from a decoding call that cannot answer (nil, nil) — a decoder is nilable when it has a return of two nils, or passes on the result of a nilable one for an argument it has not found non-nil — or is reached only on an edge where the field or the ticket itself was found non-nil. Exempt: the execution time (absent on a reverse operation that has not run; FromChanges requires it on every operation of a change — second clause) and tickets that record an optional event (removal, move, merge). Second clause: FromChanges compares every operation's ExecutedAt() with nil and leaves with an error before the change is built",
		Run: func(x *Ctx) {
			entry := x.fn(convPkg + ".FromOperations")
			fromChanges := x.fn(convPkg + ".FromChanges")
			if entry == nil || fromChanges == nil {
				return
			}
			tkT := x.P.Named("pkg/document/time.Ticket")
			if tkT == nil {
				x.C.Unresolved(x.id(), "time.Ticket")
				return
			}
			isTicketPtr := func(t types.Type) bool {
				p, ok := t.(*types.Pointer)
				return ok && isNamed(p.Elem(), tkT)
			}
			// nilable decoders of package converter: (*Ticket, error) functions that may answer (nil, nil)
			nilable := map[*ssa.Function]bool{}
			conv := x.P.FuncsIn(convPkg)
			for changed := true; changed; {
				changed = false
				for _, f := range conv {
					if nilable[f] || len(f.Blocks) == 0 || f.Signature.Results().Len() != 2 || !isTicketPtr(f.Signature.Results().At(0).Type()) {
						continue
					}
					for _, r := range prog.Returns(f) {
						if len(r.Results) != 2 {
							continue
						}
						if prog.IsNilConst(r.Results[0]) && prog.IsNilConst(r.Results[1]) {
							nilable[f] = true
							changed = true
							break
						}
						// passes on the result of a nilable decoder
						if ex, ok := r.Results[0].(*ssa.Extract); ok {
							if c, ok := ex.Tuple.(*ssa.Call); ok && c.Call.StaticCallee() != nil && nilable[c.Call.StaticCallee()] && len(c.Call.Args) > 0 {
								arg := c.Call.Args[0]
								same := VP{"the argument", func(w ssa.Value) bool { return sameAccessPath(w, arg) || prog.Strip(w) == prog.Strip(arg) }}
								if !x.quietGuarded(c, []Cmp{{L: same, R: vpNil, Want: NE}}) {
									nilable[f] = true
									changed = true
									break
								}
							}
						}
					}
				}
			}
			if len(nilable) == 0 {
				x.C.Unresolved(x.id(), "a nilable ticket decoder (fromTimeTicket)")
				return
			}
			optional := map[string]string{
				"SetRemovedAt": "removal is an optional event", "SetMovedAt": "a move is an optional event", "SetPosMovedAt": "a move is an optional event",
				"SetMergedAt": "a merge is an optional event", "SetUpdatedAt": "optional stamp",
			}
			n := 0
			cnt := map[string]int{}
			for fn := range x.closureOf([]*ssa.Function{entry}, []string{convPkg}) {
				if len(fn.Blocks) == 0 {
					continue
				}
				for _, c := range prog.CallsIn(fn) {
					callee := c.Common().StaticCallee()
					if callee == nil || callee.Pkg == nil {
						continue
					}
					cp := strings.TrimPrefix(callee.Pkg.Pkg.Path(), prog.Mod+"/")
					if cp != "pkg/document/operations" && cp != crdtPkg {
						continue
					}
					if _, opt := optional[callee.Name()]; opt {
						continue
					}
					for i, a := range c.Common().Args {
						if !isTicketPtr(a.Type()) {
							continue
						}
						var src *ssa.Call
						var srcVal ssa.Value
						prog.Reaches(a, func(w ssa.Value) bool {
							if ex, ok := w.(*ssa.Extract); ok && ex.Index == 0 {
								if cc, isC := ex.Tuple.(*ssa.Call); isC && cc.Call.StaticCallee() != nil && nilable[cc.Call.StaticCallee()] {
									src, srcVal = cc, ex
									return true
								}
							}
							return false
						})
						if src == nil || len(src.Call.Args) == 0 {
							continue
						}
						field := src.Call.Args[0]
						if f := prog.LoadedField(field); f != nil && f.Name() == "ExecutedAt" {
							continue // required per change, second clause
						}
						n++
						k0 := prog.FnName(fn) + " " + callee.Name()
						cnt[k0]++
						same := VP{"the decoded field", func(w ssa.Value) bool { return sameAccessPath(w, field) || prog.Strip(w) == prog.Strip(field) }}
						val := VP{"the decoded ticket", func(w ssa.Value) bool { return prog.Strip(w) == prog.Strip(srcVal) }}
						ok := x.quietGuarded(c, []Cmp{{L: same, R: vpNil, Want: NE}, {L: val, R: vpNil, Want: NE}})
						x.check(ok, fmt.Sprintf("func=%s call=%s#%d arg%d-ticket-present", prog.FnName(fn), callee.Name(), cnt[k0], i), x.pos(c),
							"the ticket cannot be absent here", "a ticket decoded from a field that may be absent is handed to "+callee.Name()+" in an operation decoder: executing the operation dereferences it — a structurally valid change without that field panics on every replica that applies it, and on the server at the snapshot build")
					}
				}
			}
			{
				// decodings that cannot answer (nil, nil) need no guard at the hand-off; they are listed as what was analysed
				for fn := range x.closureOf([]*ssa.Function{entry}, []string{convPkg}) {
					for _, c := range prog.CallsIn(fn) {
						cal := c.Common().StaticCallee()
						if cal != nil && cal.Pkg == fn.Pkg && cal.Signature.Results().Len() == 2 && isTicketPtr(cal.Signature.Results().At(0).Type()) && !nilable[cal] {
							n++
							cnt[prog.FnName(fn)+" required"]++
							x.hold(fmt.Sprintf("func=%s required-ticket-decoding#%d", prog.FnName(fn), cnt[prog.FnName(fn)+" required"]), x.pos(c), "decoded by "+cal.Name()+", which never answers (nil, nil)")
						}
					}
				}
			}
			// second clause
			okExec := false
			var at ssa.Instruction
			var fcBlocks []*ssa.BasicBlock
			for g := range x.closureOf([]*ssa.Function{fromChanges}, []string{convPkg}) {
				// FromChanges itself and helpers of the package it calls (the check may be extracted)
				fcBlocks = append(fcBlocks, g.Blocks...)
			}
			for _, b := range fcBlocks {
				iff := prog.IfOf(b)
				if iff == nil {
					continue
				}
				bo, ok := iff.Cond.(*ssa.BinOp)
				if !ok || (bo.Op != token.EQL && bo.Op != token.NEQ) {
					continue
				}
				var call *ssa.Call
				if c, ok := prog.Strip(bo.X).(*ssa.Call); ok && prog.IsNilConst(bo.Y) {
					call = c
				} else if c, ok := prog.Strip(bo.Y).(*ssa.Call); ok && prog.IsNilConst(bo.X) {
					call = c
				}
				if call == nil || !call.Call.IsInvoke() || call.Call.Method.Name() != "ExecutedAt" {
					continue
				}
				nilSucc := b.Succs[0]
				if bo.Op == token.NEQ {
					nilSucc = b.Succs[1]
				}
				// the nil edge leaves with an error
				leaves := false
				for _, ins := range nilSucc.Instrs {
					if r, ok := ins.(*ssa.Return); ok && len(r.Results) >= 1 && !prog.IsNilConst(r.Results[len(r.Results)-1]) {
						leaves = true
					}
				}
				if leaves {
					okExec = true
					at = iff
				}
			}
			n++
			if okExec {
				x.hold("func="+prog.FnName(fromChanges)+" every-operation-of-a-change-has-an-execution-time", x.pos(at), "FromChanges leaves with an error when an operation has no execution time")
			} else {
				x.fail("func="+prog.FnName(fromChanges)+" every-operation-of-a-change-has-an-execution-time", x.fpos(fromChanges), "FromChanges no longer refuses an operation without an execution time: every CRDT method compares it with stored tickets and panics on nil")
			}
			x.C.Count("ticket hand-offs in operation decoders", n)
		}})

	register(&Rule{ID: "R.full", Min: 2, Text: "a fixed-size read is a full read: in the value decoders of packages time, crdt, converter and database, reading into a buffer through an io.Reader's Read method (bytes.Reader.Read, …) is only done where the byte count it returns is looked at; otherwise the read goes through io.ReadFull / io.ReadAtLeast / binary.Read. Read may deliver fewer bytes than asked for with a nil error, so a truncated stored value (a version vector cut inside its last entry) decodes to a wrong value instead of an error",
		Run: func(x *Ctx) {
			n := 0
			cnt := map[string]int{}
			for _, fn := range x.P.FuncsIn("pkg/document/time", crdtPkg, convPkg, "server/backend/database", "server/backend/database/mongo", "server/backend/database/memory") {
				if len(fn.Blocks) == 0 {
					continue
				}
				for _, c := range prog.CallsIn(fn) {
					o := prog.CallObj(c)
					if o == nil {
						continue
					}
					full := o.Pkg() != nil && ((o.Pkg().Path() == "io" && (o.Name() == "ReadFull" || o.Name() == "ReadAtLeast")) || (o.Pkg().Path() == "encoding/binary" && o.Name() == "Read"))
					sig, _ := o.Type().(*types.Signature)
					raw := o.Name() == "Read" && sig != nil && sig.Recv() != nil && sig.Params().Len() == 1 && sig.Results().Len() == 2
					if raw {
						if sl, ok := sig.Params().At(0).Type().Underlying().(*types.Slice); !ok || !types.Identical(sl.Elem(), types.Typ[types.Byte]) {
							raw = false
						}
					}
					if !full && !raw {
						continue
					}
					n++
					cnt[prog.FnName(fn)]++
					k := fmt.Sprintf("func=%s read#%d complete-or-count-checked", prog.FnName(fn), cnt[prog.FnName(fn)])
					if full {
						x.hold(k, x.pos(c), "read through "+o.Name())
						continue
					}
					counted := false
					if call, ok := c.(*ssa.Call); ok {
						for _, r := range *call.Referrers() {
							if ex, ok := r.(*ssa.Extract); ok && ex.Index == 0 && len(*ex.Referrers()) > 0 {
								counted = true
							}
						}
					}
					x.check(counted, k, x.pos(c), "the count returned by Read is looked at", "a fixed-size read through Read whose byte count is discarded: on truncated input Read fills part of the buffer and returns a nil error, and the rest of the value is decoded from zeroes")
				}
			}
			if n < 2 {
				x.C.Vacuous(x.id()+" reads in value decoders", n, 2)
			}
		}})

	register(&Rule{ID: "RANGE.label", Min: 2, Text: "a rebuilt document is labelled with the end of the range it was built from: in package packs, a function that reads a range of the change log (Database.FindChangesBetweenServerSeqs(from, to)) and applies it as one pack stamps the pack's checkpoint with that same upper bound (Checkpoint.NextServerSeq(to): the same variable, field path or parameter) — the document's server sequence, under which a snapshot is stored or cached, then says exactly which changes it contains. Reading up to a fresher head while labelling with the older one stores a snapshot that already contains later changes; whoever loads it applies them a second time",
		Run: func(x *Ctx) {
			n := 0
			for _, fn := range x.P.FuncsIn("server/packs") {
				if len(fn.Blocks) == 0 {
					continue
				}
				var reads, stamps []ssa.CallInstruction
				for _, c := range prog.CallsIn(fn) {
					cc := c.Common()
					if cc.IsInvoke() && cc.Method.Name() == "FindChangesBetweenServerSeqs" {
						reads = append(reads, c)
					}
					if o := prog.CallObj(c); o != nil && o.Name() == "NextServerSeq" {
						stamps = append(stamps, c)
					}
				}
				if len(reads) == 0 || len(stamps) == 0 {
					continue
				}
				for i, r := range reads {
					args := r.Common().Args
					to := args[len(args)-1]
					for j, st := range stamps {
						// only a stamp that labels a pack built from these changes
						if !prog.MayPrecede(r, st) {
							continue
						}
						n++
						sa := st.Common().Args
						lab := sa[len(sa)-1]
						ok := sameAccessPath(lab, to) || prog.Strip(lab) == prog.Strip(to)
						x.check(ok, fmt.Sprintf("func=%s range-read#%d stamp#%d label=upper-bound", prog.FnName(fn), i+1, j+1), x.pos(st),
							"the pack is stamped with the upper bound of the range that was read", "the changes are read up to one server sequence and the pack that applies them is stamped with another: the rebuilt document claims a position in the log that does not match what it contains")
					}
				}
			}
			if n < 2 {
				x.C.Vacuous(x.id()+" range reads applied as a pack", n, 2)
			}
		}})

	register(&Rule{ID: "CP.ack", Min: 2, Text: "the acknowledged ClientSeq is the ClientSeq of what was stored: in both backends' CreateChangeInfos the checkpoint handed back to the push advances its ClientSeq only through Checkpoint.SyncClientSeq applied to the ClientSeq field of a change being stored — never by counting (NextClientSeq, IncreaseClientSeq). Counting agrees with the stored numbers until a change of the request is dropped before storage (a presence-only change of a presence-less document): the server then stores change #2 and acknowledges #1, the client sends the edit again, it passes the duplicate filter and is stored twice",
		Run: func(x *Ctx) {
			chSeq := x.P.Field("server/backend/database.ChangeInfo.ClientSeq")
			if chSeq == nil {
				x.C.Unresolved(x.id(), "ChangeInfo.ClientSeq")
				return
			}
			n := 0
			for _, spec := range []string{"server/backend/database/memory.(*DB).CreateChangeInfos", "server/backend/database/mongo.(*Client).CreateChangeInfos"} {
				fn := x.fn(spec)
				if fn == nil {
					continue
				}
				syncs, counts := 0, ""
				okArg := true
				for _, g := range append([]*ssa.Function{fn}, prog.Closures(fn)...) {
					for _, c := range prog.CallsIn(g) {
						o := prog.CallObj(c)
						if o == nil || o.Pkg() == nil || !strings.HasSuffix(o.Pkg().Path(), "/pkg/document/change") {
							continue
						}
						switch o.Name() {
						case "SyncClientSeq":
							syncs++
							args := c.Common().Args
							if prog.LoadedField(args[len(args)-1]) != chSeq {
								okArg = false
							}
						case "NextClientSeq", "IncreaseClientSeq":
							counts = o.Name() + " at " + x.pos(c)
						}
					}
				}
				n++
				x.check(syncs > 0 && okArg && counts == "", "func="+prog.FnName(fn)+" acknowledged-ClientSeq=stored-ClientSeq", x.fpos(fn),
					"the checkpoint's ClientSeq is synchronised with the ClientSeq of each stored change",
					"the checkpoint returned by CreateChangeInfos does not take its ClientSeq from the stored changes ("+counts+"): when a change of the request is not stored the acknowledgement and the log disagree, and the client's resend is stored twice")
			}
			if n < 2 {
				x.C.Vacuous(x.id()+" backends", n, 2)
			}
		}})

	register(&Rule{ID: "K.role", Min: 30, Text: "sequence numbers and clocks are not interchanged: three counters of the same Go types travel side by side — the per-client ClientSeq, the per-document ServerSeq and the Lamport clock — and many functions take two of them next to each other (change.NewID(clientSeq, serverSeq, lamport, …)). At every call, anywhere in the production packages, of a module function whose parameter is named for one of these roles, the argument is not a value read from a field, accessor or parameter named for another of them. A server sequence in the lamport slot gives the server's own changes a clock that goes backwards: they lose every last-writer-wins race against what the server had already seen",
		Run: func(x *Ctx) {
			roles := []string{"serverseq", "lamport", "clientseq"}
			roleOf := func(name string) string {
				l := strings.ToLower(name)
				for _, r := range roles {
					if strings.Contains(l, r) {
						return r
					}
				}
				return ""
			}
			n := 0
			cnt := map[string]int{}
			for _, fn := range x.P.ProdFuncs() {
				if len(fn.Blocks) == 0 || (fn.Origin() != nil && fn.Origin() != fn) {
					continue
				}
				for _, c := range prog.CallsIn(fn) {
					callee := c.Common().StaticCallee()
					if callee == nil || callee.Pkg == nil || !strings.HasPrefix(callee.Pkg.Pkg.Path(), prog.Mod) {
						continue
					}
					for i, pm := range callee.Params {
						want := roleOf(pm.Name())
						if want == "" || i >= len(c.Common().Args) {
							continue
						}
						if b, ok := pm.Type().Underlying().(*types.Basic); !ok || b.Info()&types.IsInteger == 0 {
							continue
						}
						// the roles the argument is read from: walk through conversions, arithmetic and phis
						got := map[string]bool{}
						seen := map[ssa.Value]bool{}
						var walk func(v ssa.Value, d int)
						walk = func(v ssa.Value, d int) {
							if v == nil || seen[v] || d > 8 {
								return
							}
							seen[v] = true
							if f := prog.LoadedField(v); f != nil {
								if r := roleOf(f.Name()); r != "" {
									got[r] = true
								}
								return
							}
							switch t := v.(type) {
							case *ssa.Parameter:
								if r := roleOf(t.Name()); r != "" {
									got[r] = true
								}
							case *ssa.Call:
								name := ""
								if t.Call.IsInvoke() {
									name = t.Call.Method.Name()
								} else if o := prog.CallObj(t); o != nil {
									name = o.Name()
								}
								if r := roleOf(name); r != "" {
									got[r] = true
								}
							case *ssa.Convert:
								walk(t.X, d+1)
							case *ssa.ChangeType:
								walk(t.X, d+1)
							case *ssa.BinOp:
								walk(t.X, d+1)
								walk(t.Y, d+1)
							case *ssa.Phi:
								for _, e := range t.Edges {
									walk(e, d+1)
								}
							case *ssa.UnOp:
								walk(t.X, d+1)
							case *ssa.Extract:
								walk(t.Tuple, d+1)
							}
						}
						walk(c.Common().Args[i], 0)
						if len(got) == 0 {
							continue // a constant or a value of no named role
						}
						n++
						k0 := prog.FnName(fn) + ">" + callee.Name() + ">" + pm.Name()
						cnt[k0]++
						bad := ""
						for r := range got {
							if r != want && !got[want] {
								bad = r
							}
						}
						x.check(bad == "", fmt.Sprintf("func=%s call=%s#%d param=%s argument-of-the-same-role", prog.FnName(fn), callee.Name(), cnt[k0], pm.Name()), x.pos(c),
							"the argument is read from a source of the parameter's role", "the "+pm.Name()+" parameter of "+callee.Name()+" is given a value read from a "+bad+" source: two counters of the same type were interchanged")
					}
				}
			}
			if n < 30 {
				x.C.Vacuous(x.id()+" role-named arguments", n, 30)
			}
		}})

	register(&Rule{ID: "N.exact", Min: 3, Text: "a payload that fills a fixed-size array has exactly that size: in packages time and crdt, wherever bytes that come from outside are copied into (copy(arr[:], data)) or converted to ([N]byte(data)) an array of constant length N, the site is reachable only on an edge where len(data) == N was established — not merely len(data) <= N. copy stops at the shorter operand without complaint, so a short payload (a dedup counter's registers cut off) is accepted and the rest of the array keeps its old or zero content: the value decodes to a different one instead of an error",
		Run: func(x *Ctx) {
			n := 0
			cnt := map[string]int{}
			for _, fn := range x.P.FuncsIn("pkg/document/time", crdtPkg) {
				if len(fn.Blocks) == 0 {
					continue
				}
				type site struct {
					at  ssa.Instruction
					src ssa.Value
					n   int64
				}
				var sites []site
				arrLen := func(t types.Type) (int64, bool) {
					if p, ok := t.Underlying().(*types.Pointer); ok {
						t = p.Elem()
					}
					if a, ok := t.Underlying().(*types.Array); ok {
						return a.Len(), true
					}
					return 0, false
				}
				for _, b := range fn.Blocks {
					for _, ins := range b.Instrs {
						switch t := ins.(type) {
						case *ssa.Call:
							bi, ok := t.Call.Value.(*ssa.Builtin)
							if !ok || bi.Name() != "copy" || len(t.Call.Args) != 2 {
								continue
							}
							dst, ok := t.Call.Args[0].(*ssa.Slice)
							if !ok || dst.Low != nil || dst.High != nil {
								continue
							}
							if l, ok := arrLen(dst.X.Type()); ok {
								sites = append(sites, site{t, t.Call.Args[1], l})
							}
						case *ssa.SliceToArrayPointer:
							if l, ok := arrLen(t.Type()); ok {
								sites = append(sites, site{t, t.X, l})
							}
						}
					}
				}
				for _, st := range sites {
					// the source slice, through re-slicings
					src := st.src
					for {
						if sl, ok := src.(*ssa.Slice); ok {
							src = sl.X
							continue
						}
						break
					}
					if _, isParamOrCall := prog.Strip(src).(*ssa.Const); isParamOrCall {
						continue
					}
					n++
					cnt[prog.FnName(fn)]++
					want := st.n
					lenOf := VP{"len(payload)", func(v ssa.Value) bool {
						c, ok := prog.Strip(v).(*ssa.Call)
						if !ok {
							return false
						}
						bi, ok := c.Call.Value.(*ssa.Builtin)
						return ok && bi.Name() == "len" && (sameAccessPath(c.Call.Args[0], src) || prog.Strip(c.Call.Args[0]) == prog.Strip(src))
					}}
					size := VP{fmt.Sprintf("%d", want), func(v ssa.Value) bool {
						k, ok := prog.IntConst(v)
						return ok && k == want
					}}
					ok := x.quietGuarded(st.at, []Cmp{{L: lenOf, R: size, Want: EQ}})
					x.check(ok, fmt.Sprintf("func=%s fill#%d len==%d", prog.FnName(fn), cnt[prog.FnName(fn)], want), x.pos(st.at),
						"the payload's length was found equal to the array's", fmt.Sprintf("bytes are copied into a %d-byte array without len == %d having been established on every path: a shorter payload is accepted and fills only part of the array", want, want))
				}
			}
			if n < 3 {
				x.C.Vacuous(x.id()+" fixed-size fills", n, 3)
			}
		}})

	register(&Rule{ID: "DEC.fresh", Min: 2, Text: "one decode target per item: in the production packages, a message that is filled by an Unmarshal/Decode call inside a loop and whose address is kept by that loop (appended to a slice, stored in a map, a field or an element) is allocated inside the loop. Hoisted out of it — it looks like saving an allocation — every kept pointer is the same message and all of them show what the last iteration decoded: a stored change with several operations comes back as N copies of its last operation, and everything the server rebuilds from the log (snapshots, revisions, compaction) diverges from what the clients hold",
		Run: func(x *Ctx) {
			n := 0
			for _, fn := range x.P.ProdFuncs() {
				if len(fn.Blocks) == 0 || (fn.Origin() != nil && fn.Origin() != fn) {
					continue
				}
				loops := prog.Loops(fn)
				if len(loops) == 0 {
					continue
				}
				k := 0
				done := map[*ssa.Alloc]bool{}
				for _, l := range loops {
					for b := range l.Body {
						for _, ins := range b.Instrs {
							c, ok := ins.(ssa.CallInstruction)
							if !ok {
								continue
							}
							name := ""
							if c.Common().IsInvoke() {
								name = c.Common().Method.Name()
							} else if o := prog.CallObj(c); o != nil {
								name = o.Name()
							}
							if name != "Unmarshal" && name != "Decode" && name != "UnmarshalBSON" && name != "UnmarshalJSON" {
								continue
							}
							args := c.Common().Args
							if len(args) == 0 {
								continue
							}
							tgt := args[len(args)-1]
							if mi, isMI := tgt.(*ssa.MakeInterface); isMI {
								tgt = mi.X
							}
							a, isA := tgt.(*ssa.Alloc)
							if !isA || done[a] {
								continue
							}
							// kept by the loop: its address is stored somewhere inside the loop
							kept := false
							for _, r := range *a.Referrers() {
								if st, isSt := r.(*ssa.Store); isSt && st.Val == ssa.Value(a) && l.Body[st.Block()] {
									kept = true
								}
								if mu, isMU := r.(*ssa.MapUpdate); isMU && mu.Value == ssa.Value(a) && l.Body[mu.Block()] {
									kept = true
								}
							}
							if !kept {
								continue
							}
							done[a] = true
							k++
							n++
							x.check(l.Body[a.Block()], fmt.Sprintf("func=%s decode-target#%d fresh-per-iteration", prog.FnName(fn), k), x.pos(c),
								"the message decoded into is allocated in the loop that keeps its address", "the message the loop decodes into and keeps the address of is allocated once outside the loop (at "+x.pos(a)+"): every kept pointer is the same message, holding what the last iteration decoded")
						}
					}
				}
			}
			if n < 2 {
				x.C.Vacuous(x.id()+" per-item decode targets", n, 2)
			}
		}})

	register(&Rule{ID: "LOCK.subject", Min: 3, Text: "the document that is locked is the document that is written: the client-facing handlers take the document, pull and push locks (and verify access) under the key carried in the change pack, while the document row is found by the id carried next to it. In every function of server/rpc that finds a DocInfo by reference key and then calls packs.PushPull, that call is reachable only on an edge where DocInfo.Key == Pack.DocumentKey was established; a handler that gets the row by the pack's key (attach: find-or-create) has nothing to compare; the cluster-internal detach is exempt (its key and id come from one row read by the calling server). Without the comparison a request \"id of A, key of B\" runs under B's locks only: A's exclusive compaction lock no longer excludes it, and old-generation rows land in A's new log",
		Run: func(x *Ctx) {
			pp := x.P.FnObj("server/packs.PushPull")
			docKeyF := x.P.Field("server/backend/database.DocInfo.Key")
			packKeyF := x.P.Field(changePkg + ".Pack.DocumentKey")
			diT := x.P.Named("server/backend/database.DocInfo")
			if pp == nil || docKeyF == nil || packKeyF == nil || diT == nil {
				x.C.Unresolved(x.id(), "packs.PushPull / DocInfo.Key / Pack.DocumentKey")
				return
			}
			n := 0
			for _, fn := range x.P.FuncsIn("server/rpc") {
				if len(fn.Blocks) == 0 {
					continue
				}
				calls := callsTo([]*ssa.Function{fn}, pp)
				if len(calls) == 0 {
					continue
				}
				if fn.Signature.Recv() != nil && namedOf(fn.Signature.Recv().Type()) != nil && namedOf(fn.Signature.Recv().Type()).Obj().Name() == "clusterServer" {
					// the cluster-internal detach: key and id of its request are taken from one DocInfo row by the calling
					// server (clients.Deactivate), and the call is authenticated by the cluster secret
					continue
				}
				// how the handler gets its DocInfo
				byKey, byRef := false, false
				for _, c := range prog.CallsIn(fn) {
					call, ok := c.(*ssa.Call)
					if !ok {
						continue
					}
					res := call.Call.Signature().Results()
					if res.Len() == 0 {
						continue
					}
					if pt, ok := res.At(0).Type().(*types.Pointer); !ok || !isNamed(pt.Elem(), diT) {
						continue
					}
					usesPackKey := false
					for _, a := range call.Call.Args {
						if prog.Reaches(a, func(w ssa.Value) bool { return prog.LoadedField(w) == packKeyF }) {
							usesPackKey = true
						}
					}
					if usesPackKey {
						byKey = true
					} else {
						byRef = true
					}
				}
				if !byRef {
					if byKey {
						n++
						x.hold("func="+prog.FnName(fn)+" row-found-by-the-pack's-key", x.fpos(fn), "the document row is found (or created) under the key in the change pack")
					}
					continue
				}
				for i, c := range calls {
					n++
					cmp := Cmp{L: vpField(docKeyF), R: vpField(packKeyF), Want: EQ}
					key := fmt.Sprintf("func=%s PushPull#%d row-key==pack-key", prog.FnName(fn), i+1)
					// the comparison may live in a helper that answers with an error: ensure(docInfo, pack.DocumentKey) — the
					// call is reached only where that error was found nil, and the helper answers nil only where the keys are equal
					viaHelper := ""
					for _, hc := range prog.CallsIn(fn) {
						h, ok := hc.(*ssa.Call)
						if !ok || h.Call.StaticCallee() == nil || len(h.Call.StaticCallee().Blocks) == 0 {
							continue
						}
						H := h.Call.StaticCallee()
						res := H.Signature.Results()
						if res.Len() != 1 || !isErrorType(res.At(0).Type()) {
							continue
						}
						keyIdx, hasRow := -1, false
						for ai, a := range h.Call.Args {
							if pt, isP := a.Type().(*types.Pointer); isP && isNamed(pt.Elem(), diT) {
								hasRow = true
							}
							if prog.LoadedField(a) == packKeyF {
								keyIdx = ai
							}
						}
						if !hasRow || keyIdx < 0 || keyIdx >= len(H.Params) {
							continue
						}
						errV := VP{"the helper's error", func(w ssa.Value) bool { return prog.Strip(w) == ssa.Value(h) }}
						if !x.quietGuarded(c, []Cmp{{L: errV, R: vpNil, Want: EQ}}) {
							continue
						}
						kp := H.Params[keyIdx]
						isKP := VP{"the key parameter", func(w ssa.Value) bool { return prog.Strip(w) == ssa.Value(kp) }}
						all, any := true, false
						for _, r := range prog.Returns(H) {
							if len(r.Results) == 1 && prog.IsNilConst(r.Results[0]) {
								any = true
								if !x.quietGuarded(r, []Cmp{{L: vpField(docKeyF), R: isKP, Want: EQ}}) {
									all = false
								}
							}
						}
						if any && all {
							viaHelper = prog.FnName(H)
						}
					}
					if viaHelper != "" {
						x.hold(key, x.pos(c), "the keys are compared by "+viaHelper+", whose error is checked before the push")
						continue
					}
					x.guardedSite(key, c, []Cmp{cmp}, nil)
				}
			}
			if n < 3 {
				x.C.Vacuous(x.id()+" handlers that push", n, 3)
			}
		}})

	register(&Rule{ID: "NUM.class", Min: 10, Text: "an integer operand is never routed through floating point: in the numeric value paths of packages json and crdt (counters and primitives; the HyperLogLog estimate, which is a real number by nature, excepted) every conversion between numeric types keeps an integer an integer — integer to integer (wrap-around is the documented 32/64-bit behaviour), float to float, float to integer (the documented truncation of a fractional operand) — and none turns an integer of 64 bits, or of platform width, into a float: above 2^53 the operand is rounded, and an integer counter no longer receives the low 32 bits of a wide operand",
		Run: func(x *Ctx) {
			n := 0
			cnt := map[string]int{}
			for _, fn := range x.P.FuncsIn("pkg/document/json", crdtPkg) {
				if len(fn.Blocks) == 0 {
					continue
				}
				if fn.Signature.Recv() != nil && namedOf(fn.Signature.Recv().Type()) != nil && namedOf(fn.Signature.Recv().Type()).Obj().Name() == "HLL" {
					continue
				}
				for _, b := range fn.Blocks {
					for _, ins := range b.Instrs {
						cv, ok := ins.(*ssa.Convert)
						if !ok {
							continue
						}
						from, ok1 := cv.X.Type().Underlying().(*types.Basic)
						to, ok2 := cv.Type().Underlying().(*types.Basic)
						if !ok1 || !ok2 || from.Info()&types.IsNumeric == 0 || to.Info()&types.IsNumeric == 0 {
							continue
						}
						if _, isK := cv.X.(*ssa.Const); isK {
							continue
						}
						n++
						cnt[prog.FnName(fn)]++
						wide := from.Kind() == types.Int64 || from.Kind() == types.Uint64 || from.Kind() == types.Int || from.Kind() == types.Uint || from.Kind() == types.Uintptr
						bad := from.Info()&types.IsInteger != 0 && to.Info()&types.IsFloat != 0 && wide
						x.check(!bad, fmt.Sprintf("func=%s conversion#%d %s->%s keeps-integers-integral", prog.FnName(fn), cnt[prog.FnName(fn)], from.Name(), to.Name()), x.pos(cv),
							"the conversion keeps the numeric class", "a "+from.Name()+" is converted to "+to.Name()+" on a counter/primitive value path: operands above 2^53 are rounded and a 32-bit counter loses the wrap-around of a wide operand")
					}
				}
			}
			if n < 10 {
				x.C.Vacuous(x.id()+" numeric conversions", n, 10)
			}
		}})

	register(&Rule{ID: "LOOP.carry", Min: 3, Text: "a loop that advances an anchor decides with the anchor, not with where it started: in the CRDT model (package crdt), where a loop carries a pointer from iteration to iteration (a variable assigned in the body: leftInChildren = content) that was initialised from another variable before the loop, a comparison inside the loop uses the carried variable — the variable it started from does not appear as an operand of a comparison in that loop unless the carried one is compared in the same loop too (a deliberate 'first iteration' test keeps both). Deciding every iteration by the starting point inserts each item of a multi-item edit at the same slot: the run comes out reversed",
		Run: func(x *Ctx) {
			n := 0
			for _, fn := range x.P.FuncsIn(crdtPkg) {
				if len(fn.Blocks) == 0 || (fn.Origin() != nil && fn.Origin() != fn) {
					continue
				}
				k := 0
				for _, l := range prog.Loops(fn) {
					for _, ins := range l.Header.Instrs {
						ph, ok := ins.(*ssa.Phi)
						if !ok {
							break
						}
						if _, isPtr := ph.Type().Underlying().(*types.Pointer); !isPtr {
							continue
						}
						var init ssa.Value
						updated := false
						for i, e := range ph.Edges {
							if l.Body[l.Header.Preds[i]] {
								if e != ssa.Value(ph) {
									updated = true
								}
							} else {
								init = e
							}
						}
						if init == nil || !updated {
							continue
						}
						if _, isK := init.(*ssa.Const); isK {
							continue
						}
						// comparisons in the loop
						usesInit, usesCarried := "", false
						for b := range l.Body {
							for _, bi := range b.Instrs {
								bo, isBO := bi.(*ssa.BinOp)
								if !isBO || (bo.Op != token.EQL && bo.Op != token.NEQ) {
									continue
								}
								for _, side := range []ssa.Value{bo.X, bo.Y} {
									if side == init {
										usesInit = x.pos(bo)
									}
									if side == ssa.Value(ph) {
										usesCarried = true
									}
								}
							}
						}
						k++
						n++
						x.check(usesInit == "" || usesCarried, fmt.Sprintf("func=%s carried-pointer#%d compared-not-its-starting-point", prog.FnName(fn), k), x.P.Pos(ph.Pos()),
							"comparisons in the loop use the carried pointer", "a loop that advances a pointer from iteration to iteration compares the variable it started from (at "+usesInit+") and never the advancing one: every iteration takes the decision of the first")
					}
				}
			}
			if n < 3 {
				x.C.Vacuous(x.id()+" pointer-carrying loops", n, 3)
			}
		}})

	register(&Rule{ID: "SNAP.vv", Min: 2, Text: "a snapshot carries the version vector of the document it was taken from: in both backends' CreateSnapshotInfo the vector written into the snapshot row is the document's (InternalDocument.VersionVector(), or its copy) on every path — a freshly made empty vector never reaches the stored value. The vector is not only the garbage collector's: a client that loads the snapshot takes its causal knowledge from it, and every change it makes carries that vector; with an empty one its removals do not cover the content they remove and are skipped on every replica, its own included",
		Run: func(x *Ctx) {
			newVV := x.P.FnObj("pkg/document/time.NewVersionVector")
			if newVV == nil {
				x.C.Unresolved(x.id(), "time.NewVersionVector")
				return
			}
			n := 0
			for _, spec := range []string{"server/backend/database/memory.(*DB).CreateSnapshotInfo", "server/backend/database/mongo.(*Client).CreateSnapshotInfo"} {
				fn := x.fn(spec)
				if fn == nil {
					continue
				}
				n++
				bad := ""
				for _, c := range callsToIn(fn, newVV) {
					v, ok := c.(*ssa.Call)
					if !ok {
						continue
					}
					// does the empty vector reach something that is stored or handed on (through phis and local variables)?
					seen := map[ssa.Value]bool{}
					var reach func(w ssa.Value, d int) bool
					reach = func(w ssa.Value, d int) bool {
						if w == nil || seen[w] || d > 8 || w.Referrers() == nil {
							return false
						}
						seen[w] = true
						for _, r := range *w.Referrers() {
							switch t := r.(type) {
							case *ssa.Phi:
								if reach(t, d+1) {
									return true
								}
							case *ssa.MakeInterface:
								if reach(t, d+1) {
									return true
								}
							case *ssa.ChangeType:
								if reach(t, d+1) {
									return true
								}
							case *ssa.Store:
								if t.Val != w {
									continue
								}
								if a, isA := t.Addr.(*ssa.Alloc); isA {
									for _, ar := range *a.Referrers() {
										if u, isU := ar.(*ssa.UnOp); isU && reach(u, d+1) {
											return true
										}
									}
									continue
								}
								return true
							case *ssa.MapUpdate:
								if t.Value == w {
									return true
								}
							case ssa.CallInstruction:
								return true
							}
						}
						return false
					}
					if reach(v, 0) {
						bad = x.pos(c)
					}
				}
				x.check(bad == "", "func="+prog.FnName(fn)+" stores-the-document's-vector-on-every-path", x.fpos(fn),
					"the row's vector is the document's", "an empty vector made at "+bad+" can reach the stored snapshot row: whoever loads that snapshot starts without causal knowledge of its content, and its later removals are skipped everywhere")
			}
			if n < 2 {
				x.C.Vacuous(x.id()+" backends", n, 2)
			}
		}})

	register(&Rule{ID: "GC.atomic", Min: 1, Text: "the minimum vector handed to a client is not younger than the range it pulled: the minimum over the attached clients' vectors tells a client what it may purge, which is safe only if every change whose author's stored vector went into that minimum is in the range the client receives with it. A peer's request appends its changes before it stores its vector, so the order that guarantees this is: compute the minimum (Database.UpdateMinVersionVector) first, fix the upper end of the pulled range (the push, Database.CreateChangeInfos, whose head bounds the pull) afterwards — or run both under the document's write lock. Requests of different clients share the document lock; with the range fixed first, two complete syncs of a peer in between put a removal under the minimum while the peer's concurrent edit, anchored in the removed node, lies beyond the range: the client purges the node and fails on that edit at every later sync",
		Run: func(x *Ctx) {
			p := x.pipe()
			if !p.ok {
				return
			}
			minVV := p.UpdMinVV
			pushes := x.callsReaching(p.PushPull, p.CreateCI)
			mins := x.callsReaching(p.PushPull, minVV)
			if len(pushes) == 0 || len(mins) == 0 {
				x.C.Unresolved(x.id(), "calls in PushPull that reach CreateChangeInfos / UpdateMinVersionVector")
				return
			}
			for i, m := range mins {
				ok := true
				for _, ps := range pushes {
					if prog.MayPrecede(ps, m) {
						ok = false
					}
				}
				if !ok {
					// under the document's write lock?
					if held, _ := x.mustHold(m, "doc", "W"); held {
						ok = true
					}
				}
				x.check(ok, fmt.Sprintf("func=%s minimum#%d computed-before-the-range-is-fixed", prog.FnName(p.PushPull), i+1), x.pos(m),
					"the minimum vector is computed before the pulled range is fixed (or both under the write lock)",
					"the upper end of the pulled range is fixed by the push before the minimum version vector is computed, and other clients' requests run in between under the shared document lock: the minimum can cover a removal whose concurrent edit is beyond the range")
			}
		}})

	register(&Rule{ID: "A5.map", Min: 4, Text: "a caller's map enters an operation only as a copy: the proxies of package json apply an edit to the editing copy at once and queue an operation that is executed on the document when the updater returns. Wherever a method of package json hands a map to a constructor of package operations, that map is not one of the method's own parameters (nor an element of its variadic parameter) — it went through maps.Clone or was built in the method. With the caller's map in the operation, a caller that reuses one attribute map for two calls and changes it in between sees the first value on Root() while the document, the pending change and every peer get the second",
		Run: func(x *Ctx) {
			n := 0
			cnt := map[string]int{}
			for _, fn := range x.P.FuncsIn("pkg/document/json") {
				if len(fn.Blocks) == 0 {
					continue
				}
				for _, c := range prog.CallsIn(fn) {
					callee := c.Common().StaticCallee()
					if callee == nil || callee.Pkg == nil || !strings.HasSuffix(callee.Pkg.Pkg.Path(), "/pkg/document/operations") || !strings.HasPrefix(callee.Name(), "New") {
						continue
					}
					for i, a := range c.Common().Args {
						if _, isMap := a.Type().Underlying().(*types.Map); !isMap {
							continue
						}
						n++
						cnt[prog.FnName(fn)+callee.Name()]++
						// the caller's own map: a parameter, or an element loaded from the variadic parameter, reached through phis only
						callers := false
						seen := map[ssa.Value]bool{}
						var walk func(v ssa.Value, d int)
						walk = func(v ssa.Value, d int) {
							if v == nil || seen[v] || d > 6 {
								return
							}
							seen[v] = true
							switch t := v.(type) {
							case *ssa.Parameter:
								callers = true
							case *ssa.Phi:
								for _, e := range t.Edges {
									walk(e, d+1)
								}
							case *ssa.UnOp:
								if ia, ok := t.X.(*ssa.IndexAddr); ok {
									if _, isP := ia.X.(*ssa.Parameter); isP {
										callers = true
									}
								}
								if al, ok := t.X.(*ssa.Alloc); ok {
									for _, r := range *al.Referrers() {
										if st, isSt := r.(*ssa.Store); isSt && st.Addr == ssa.Value(al) {
											walk(st.Val, d+1)
										}
									}
								}
							}
						}
						walk(a, 0)
						x.check(!callers, fmt.Sprintf("func=%s call=%s#%d arg%d map-is-a-copy", prog.FnName(fn), callee.Name(), cnt[prog.FnName(fn)+callee.Name()], i), x.pos(c),
							"the map handed to the operation is not the caller's", "the map handed to "+callee.Name()+" is the caller's own (a parameter of the proxy method): the operation is executed after the updater returns and sees whatever the caller has done to the map since")
					}
				}
			}
			if n < 4 {
				x.C.Vacuous(x.id()+" maps handed to operation constructors", n, 4)
			}
		}})

	register(&Rule{ID: "STYLE.empty", Min: 3, Text: "what the operation will not do, the proxy does not do: Style.Execute and TreeStyle.Execute apply an operation only when it carries attributes, so in package json a call of the model's Style (crdt.Text.Style, crdt.Tree.Style) with the caller's attribute map is reachable only on an edge where the map was found non-empty (len != 0 / > 0). Applied with an empty map the range is split on the editing copy and not on the document: Root() and the document marshal differently, and an empty change is queued",
		Run: func(x *Ctx) {
			n := 0
			for _, fn := range x.P.FuncsIn("pkg/document/json") {
				if len(fn.Blocks) == 0 {
					continue
				}
				for _, c := range prog.CallsIn(fn) {
					callee := c.Common().StaticCallee()
					if callee == nil || callee.Pkg == nil || !strings.HasSuffix(callee.Pkg.Pkg.Path(), "/"+crdtPkg) || callee.Name() != "Style" {
						continue
					}
					var m ssa.Value
					for _, a := range c.Common().Args {
						// the attribute map: map[string]string (the version vector is a map too)
						if mt, isMap := a.Type().Underlying().(*types.Map); isMap && types.Identical(mt.Key(), types.Typ[types.String]) && types.Identical(mt.Elem(), types.Typ[types.String]) {
							m = a
						}
					}
					if m == nil {
						continue
					}
					n++
					lenOf := VP{"len(attributes)", func(v ssa.Value) bool {
						cc, ok := prog.Strip(v).(*ssa.Call)
						if !ok {
							return false
						}
						bi, ok := cc.Call.Value.(*ssa.Builtin)
						return ok && bi.Name() == "len" && prog.Strip(cc.Call.Args[0]) == prog.Strip(m)
					}}
					zero := VP{"0", func(v ssa.Value) bool { k, ok := prog.IntConst(v); return ok && k == 0 }}
					x.guardedSite(fmt.Sprintf("func=%s model-style-call attributes-non-empty", prog.FnName(fn)), c, []Cmp{{L: lenOf, R: zero, Want: GT}, {L: lenOf, R: zero, Want: NE}}, nil)
				}
			}
			if n < 3 {
				x.C.Vacuous(x.id()+" style calls of the proxies", n, 3)
			}
		}})

	register(&Rule{ID: "PATH.miss", Min: 1, Text: "a path that cannot be walked yields nothing: in package schema, where a loop narrows the walked value with a comma-ok type assertion (getValueByPath: current.(*crdt.Object) per path component), the failing edge leads only to returns whose value is not the partially walked value — a walk that stops at a component which is not an object and returns what it has reached hands the validator the wrong node ($.a.b validated against the primitive at $.a), so a document that breaks the schema is accepted (or a valid one refused) and Update's schema gate no longer means what the schema says",
		Run: func(x *Ctx) {
			n := 0
			for _, fn := range x.P.FuncsIn("pkg/schema") {
				if len(fn.Blocks) == 0 {
					continue
				}
				loops := prog.Loops(fn)
				i := 0
				for _, b := range fn.Blocks {
					for _, ins := range b.Instrs {
						ta, ok := ins.(*ssa.TypeAssert)
						if !ok || !ta.CommaOk {
							continue
						}
						walked, isPhi := prog.Strip(ta.X).(*ssa.Phi)
						if !isPhi {
							continue
						}
						var loop *prog.Loop
						for _, l := range loops {
							if l.Header == walked.Block() && l.Body[b] {
								loop = l
							}
						}
						if loop == nil {
							continue
						}
						var okv ssa.Value
						for _, r := range *ta.Referrers() {
							if ex, isE := r.(*ssa.Extract); isE && ex.Index == 1 {
								okv = ex
							}
						}
						if okv == nil {
							continue
						}
						for _, bb := range fn.Blocks {
							iff := prog.IfOf(bb)
							if iff == nil || iff.Cond != okv {
								continue
							}
							i++
							n++
							// returns reachable from the failing edge without going round the loop again
							seen := map[*ssa.BasicBlock]bool{loop.Header: true}
							work := []*ssa.BasicBlock{bb.Succs[1]}
							bad := ""
							for len(work) > 0 {
								c := work[len(work)-1]
								work = work[:len(work)-1]
								if seen[c] {
									continue
								}
								seen[c] = true
								for _, ci := range c.Instrs {
									if r, isR := ci.(*ssa.Return); isR {
										for _, res := range r.Results {
											if prog.Reaches(res, func(v ssa.Value) bool { return v == ssa.Value(walked) }) {
												bad = x.pos(r)
											}
										}
									}
								}
								work = append(work, c.Succs...)
							}
							x.check(bad == "", fmt.Sprintf("func=%s narrowing-assertion#%d miss-returns-nothing", prog.FnName(fn), i), x.pos(ta),
								"a component that cannot be walked ends the walk with no value", "the failing edge of the narrowing assertion reaches a return of the partially walked value (at "+bad+"): the validator is handed the node at which the path stopped instead of nothing")
						}
					}
				}
			}
			if n < 1 {
				x.C.Vacuous(x.id()+" narrowing assertions in a path walk", n, 1)
			}
		}})
}

// Round 10: rules written after the fifth seeded round of C11–C20.
func init() {
	register(&Rule{ID: "VV.detach", Min: 1, Text: "a client that is no longer attached loses its vector row on every path: in the memory backend, the function that writes a client's version-vector row and deletes it when the client is not attached (it calls ClientInfo.IsAttached and deletes from the version-vector table) takes no successful exit before the attachment test — every return of a nil error is dominated by the IsAttached call. A shortcut in front of it (\"a request without a vector has nothing to record\") skips the deletion for exactly the requests the server builds itself: the detach that deactivation runs carries no vector, the row stays, and its stale vector bounds the minimum for ever",
		Run: func(x *Ctx) {
			isAtt := x.P.FnObj("server/backend/database.(*ClientInfo).IsAttached")
			if isAtt == nil {
				x.C.Unresolved(x.id(), "ClientInfo.IsAttached")
				return
			}
			n := 0
			for _, fn := range x.P.FuncsIn("server/backend/database/memory") {
				if len(fn.Blocks) == 0 {
					continue
				}
				atts := callsTo([]*ssa.Function{fn}, isAtt)
				if len(atts) == 0 {
					continue
				}
				deletes := false
				for _, c := range prog.CallsIn(fn) {
					if o := prog.CallObj(c); o != nil && (o.Name() == "DeleteAll" || o.Name() == "Delete") {
						for _, a := range c.Common().Args {
							if g, ok := prog.Strip(a).(*ssa.Global); ok && strings.Contains(strings.ToLower(g.Name()), "versionvector") {
								deletes = true
							}
							if u, ok := a.(*ssa.UnOp); ok {
								if g, ok := u.X.(*ssa.Global); ok && strings.Contains(strings.ToLower(g.Name()), "versionvector") {
									deletes = true
								}
							}
							if k, ok := constString(a); ok && strings.Contains(strings.ToLower(k), "versionvector") {
								deletes = true
							}
						}
					}
				}
				if !deletes {
					continue
				}
				for i, r := range prog.Returns(fn) {
					if !prog.ReturnsNilError(r) {
						continue
					}
					n++
					ok := false
					for _, a := range atts {
						if prog.Dominates(a, r) {
							ok = true
						}
					}
					x.check(ok, fmt.Sprintf("func=%s ok-return#%d after-the-attachment-test", prog.FnName(fn), i+1), x.pos(r),
						"the attachment test precedes this successful exit", "a successful exit is taken before ClientInfo.IsAttached was consulted: on that path the row of a client that has detached is not deleted")
				}
			}
			if n < 1 {
				x.C.Vacuous(x.id()+" successful exits of the row writer", n, 1)
			}
		}})

	register(&Rule{ID: "DEACT.all", Min: 1, Text: "deactivation detaches every document the client still has attached: in clients.Deactivate the detach request (ClusterClient.DetachDocument) is sent for every document of the list — inside its loop the call depends on no condition but the loop's own. DB.DeactivateClient refuses a client that still has an attached document, so a document that is skipped (\"it is removed anyway\") makes the client impossible to deactivate: it stays activated, with the document attached and its vector row in place",
		Run: func(x *Ctx) {
			fn := x.fn("server/clients.Deactivate")
			if fn == nil {
				return
			}
			n := 0
			// Deactivate and the helpers of its package it calls (the loop may be extracted)
			var sites []ssa.CallInstruction
			for g := range x.closureOf([]*ssa.Function{fn}, []string{"server/clients"}) {
				for _, c := range prog.CallsIn(g) {
					name := ""
					if c.Common().IsInvoke() {
						name = c.Common().Method.Name()
					} else if o := prog.CallObj(c); o != nil {
						name = o.Name()
					}
					if name == "DetachDocument" {
						sites = append(sites, c)
					}
				}
			}
			for i := 1; i < len(sites); i++ {
				for j := i; j > 0 && sites[j].Pos() < sites[j-1].Pos(); j-- {
					sites[j], sites[j-1] = sites[j-1], sites[j]
				}
			}
			for _, c := range sites {
				n++
				bad := ""
				g := c.Parent()
				for _, l := range prog.Loops(g) {
					if !l.Body[c.Block()] {
						continue
					}
					conds := loopConds(g)
					for _, iff := range x.P.ControlDeps(c.Block()) {
						if l.Body[iff.Block()] && !conds[iff] {
							bad = x.pos(iff)
						}
					}
				}
				x.check(bad == "", fmt.Sprintf("func=%s detach-request#%d sent-for-every-document", prog.FnName(fn), n), x.pos(c),
					"every listed document is detached", "inside the loop the detach request depends on a further condition (at "+bad+"): a document that is skipped stays attached and DeactivateClient refuses the client")
			}
			if n < 1 {
				x.C.Vacuous(x.id()+" detach requests in Deactivate", n, 1)
			}
		}})

	register(&Rule{ID: "EPOCH.fallback", Min: 1, Text: "every request that ends an attachment gets through after a compaction: the pull's fallback for an epoch mismatch (an empty pack instead of the error) applies to detach and to remove alike — in the function of package packs that tests the pull error against ErrEpochMismatch, the request's Status is compared with both document.StatusDetached and document.StatusRemoved. The push has already marked the document removed when the pull fails; with remove left out the remover gets ErrEpochMismatch for a removal that took place, keeps its attachment and its vector row, and every retry moves the removal date and fails again",
		Run: func(x *Ctx) {
			em, _ := x.P.Lookup("server/packs.ErrEpochMismatch").(*types.Var)
			det, ok1 := x.constInt("pkg/document.StatusDetached")
			rem, ok2 := x.constInt("pkg/document.StatusRemoved")
			if em == nil || !ok1 || !ok2 {
				x.C.Unresolved(x.id(), "packs.ErrEpochMismatch / document.StatusDetached / StatusRemoved")
				return
			}
			n := 0
			for _, fn := range x.P.FuncsIn("server/packs") {
				if len(fn.Blocks) == 0 {
					continue
				}
				// does it test an error against ErrEpochMismatch (errors.Is(err, ErrEpochMismatch))?
				tests := false
				for _, c := range prog.CallsIn(fn) {
					if o := prog.CallObj(c); o != nil && o.Name() == "Is" && o.Pkg() != nil && o.Pkg().Path() == "errors" {
						for _, a := range c.Common().Args {
							if prog.Reaches(a, func(w ssa.Value) bool {
								g, ok := w.(*ssa.Global)
								return ok && g.Object() == types.Object(em)
							}) {
								tests = true
							}
						}
					}
				}
				if !tests {
					continue
				}
				seen := map[int64]bool{}
				for _, b := range fn.Blocks {
					for _, ins := range b.Instrs {
						bo, ok := ins.(*ssa.BinOp)
						if !ok || bo.Op != token.EQL {
							continue
						}
						// a comparison of the request's Status (a field named Status) with a constant
						for _, pair := range [][2]ssa.Value{{bo.X, bo.Y}, {bo.Y, bo.X}} {
							if f := prog.LoadedField(pair[0]); f != nil && f.Name() == "Status" {
								if k, ok := prog.IntConst(pair[1]); ok {
									seen[k] = true
								}
							}
						}
					}
				}
				if !seen[det] && !seen[rem] {
					continue // the push's own epoch test has no status fallback
				}
				n++
				x.check(seen[det] && seen[rem], "func="+prog.FnName(fn)+" epoch-mismatch-fallback covers-detach-and-remove", x.fpos(fn),
					"the fallback applies to detach and to remove", "the epoch-mismatch fallback of the pull is no longer taken for both detach and remove: the one left out fails with ErrEpochMismatch after a compaction although the push has already taken effect")
			}
			if n < 1 {
				x.C.Vacuous(x.id()+" epoch-mismatch fallbacks", n, 1)
			}
		}})

	register(&Rule{ID: "P.norm", Min: 1, Text: "an absent presence map is an empty one on every path: in package converter every decoder that reads the data of an api.Presence message (GetData / the Data field) tests what it read for nil (and substitutes an empty map); the others go through such a decoder. Read without the test on one path, a participant that attached without initial presence is {} on a replica that pulled changes and nil on one that pulled a snapshot: AllPresences() differ, Presences() skips it, and its own next Set panics on a nil map",
		Run: func(x *Ctx) {
			n := 0
			for _, fn := range x.P.FuncsIn(convPkg) {
				if len(fn.Blocks) == 0 {
					continue
				}
				file := x.P.Fset.Position(fn.Pos()).Filename
				if !strings.HasSuffix(file, "from_pb.go") && !strings.HasSuffix(file, "from_bytes.go") {
					continue
				}
				k := 0
				for _, b := range fn.Blocks {
					for _, ins := range b.Instrs {
						var data ssa.Value
						switch t := ins.(type) {
						case *ssa.Call:
							if o := prog.CallObj(t); o != nil && o.Name() == "GetData" {
								if sig, ok := o.Type().(*types.Signature); ok && sig.Recv() != nil && namedOf(sig.Recv().Type()) != nil && namedOf(sig.Recv().Type()).Obj().Name() == "Presence" {
									data = t
								}
							}
						case *ssa.UnOp:
							if f := prog.LoadedField(t); f != nil && f.Name() == "Data" {
								if fa, ok := t.X.(*ssa.FieldAddr); ok && namedOf(fa.X.Type()) != nil && namedOf(fa.X.Type()).Obj().Name() == "Presence" && strings.Contains(namedOf(fa.X.Type()).Obj().Pkg().Path(), "/api/") {
									data = t
								}
							}
						}
						if data == nil {
							continue
						}
						k++
						n++
						// the reader normalises: the value read is compared with nil somewhere in the function
						normalises := false
						for _, bb := range fn.Blocks {
							iff := prog.IfOf(bb)
							if iff == nil {
								continue
							}
							if bo, ok := iff.Cond.(*ssa.BinOp); ok && (bo.Op == token.EQL || bo.Op == token.NEQ) {
								if (prog.IsNilConst(bo.Y) && prog.Reaches(bo.X, func(w ssa.Value) bool { return w == data })) || (prog.IsNilConst(bo.X) && prog.Reaches(bo.Y, func(w ssa.Value) bool { return w == data })) {
									normalises = true
								}
							}
						}
						x.check(normalises, fmt.Sprintf("func=%s presence-data-read#%d absent-map-normalised", prog.FnName(fn), k), x.pos(ins),
							"the decoder that reads the data tests it for nil", "the data of an api.Presence message is read without a test for an absent map: a participant without initial presence decodes to nil on this path and to {} on the others")
					}
				}
			}
			if n < 1 {
				x.C.Vacuous(x.id()+" readers of api.Presence.Data", n, 1)
			}
		}})

	register(&Rule{ID: "AUTH.verb", Min: 1, Text: "a pack that stores anything is announced as a write: in auth.AccessAttributes the verb handed to the authorisation webhook is Read only on the edge where Pack.HasChanges() is false — a pack with changes, presence-only ones included, is stored in the change log, advances the server sequence and is delivered to peers. Chosen by operations alone, a token that may only read can append changes to the document",
		Run: func(x *Ctx) {
			fn := x.fn("server/rpc/auth.AccessAttributes")
			has := x.P.FnObj(changePkg + ".(*Pack).HasChanges")
			if fn == nil || has == nil {
				if has == nil {
					x.C.Unresolved(x.id(), "Pack.HasChanges")
				}
				return
			}
			// the verb value: a phi of the two constants, selected by the test of HasChanges()
			ok := false
			var where ssa.Instruction
			for _, b := range fn.Blocks {
				iff := prog.IfOf(b)
				if iff == nil {
					continue
				}
				where = iff
				if c, isC := prog.Strip(iff.Cond).(*ssa.Call); isC && sameFunc(prog.CallObj(c), has) {
					ok = true
				}
			}
			nIf := 0
			for _, b := range fn.Blocks {
				if prog.IfOf(b) != nil {
					nIf++
				}
			}
			pos := x.fpos(fn)
			if where != nil {
				pos = x.pos(where)
			}
			_ = nIf
			x.check(ok, "func="+prog.FnName(fn)+" verb-chosen-by-HasChanges", pos, "ReadWrite is announced exactly when the pack has changes", "the verb announced to the authorisation webhook is no longer chosen by Pack.HasChanges(): a pack whose changes carry no operations (presence only) is stored like any other but announced as a read")
		}})

	register(&Rule{ID: "S6.cont", Min: 1, Text: "a skipped operation skips itself only: in Change.Execute the edge on which an operation answered ErrOperationSkipped goes on with the next operation — it stays inside the loop over the operations. Skipping happens on the undoing client alone while the pushed change carries every operation; leaving the loop there drops the rest of the entry on the undoer and not on the peers",
		Run: func(x *Ctx) {
			fn := x.fn(changePkg + ".(*Change).Execute")
			skipped, _ := x.P.Lookup(opsPkg + ".ErrOperationSkipped").(*types.Var)
			if fn == nil || skipped == nil {
				if skipped == nil {
					x.C.Unresolved(x.id(), "operations.ErrOperationSkipped")
				}
				return
			}
			n := 0
			for _, b := range fn.Blocks {
				iff := prog.IfOf(b)
				if iff == nil {
					continue
				}
				c, ok := prog.Strip(iff.Cond).(*ssa.Call)
				if !ok {
					continue
				}
				o := prog.CallObj(c)
				if o == nil || o.Name() != "Is" {
					continue
				}
				isSkip := false
				for _, a := range c.Call.Args {
					if prog.Reaches(a, func(w ssa.Value) bool { g, ok := w.(*ssa.Global); return ok && g.Object() == types.Object(skipped) }) {
						isSkip = true
					}
				}
				if !isSkip {
					continue
				}
				n++
				stays := false
				for _, l := range prog.Loops(fn) {
					if l.Body[b] && l.Body[b.Succs[0]] {
						stays = true
					}
				}
				x.check(stays, fmt.Sprintf("func=%s skipped-edge#%d continues-with-the-next-operation", prog.FnName(fn), n), x.pos(iff),
					"the skipped edge stays in the loop", "on ErrOperationSkipped the loop over the operations is left: the operations behind a skipped one are not executed on the undoing client, while peers execute all of them")
			}
			if n < 1 {
				x.C.Vacuous(x.id()+" tests for ErrOperationSkipped", n, 1)
			}
		}})

	register(&Rule{ID: "WG.join", Min: 2, Text: "what a function launches and promises to wait for, it waits for on every exit: in the server packages, a function that starts goroutines through a local sync.WaitGroup (wg.Go, or wg.Add with a go statement) and calls wg.Wait reaches every return that a launch can precede only through a Wait. An early return on a cancelled context that skips the Wait hands control back while deactivations are still in flight: the caller releases the housekeeping lock under them, cycles overlap, and the goroutines outlive shutdown",
		Run: func(x *Ctx) {
			n := 0
			for _, fn := range x.P.ProdFuncs() {
				if len(fn.Blocks) == 0 || !strings.HasPrefix(strings.TrimPrefix(prog.PkgOf(fn), prog.Mod+"/"), "server") {
					continue
				}
				var launches, waits []ssa.Instruction
				for _, c := range prog.CallsIn(fn) {
					o := prog.CallObj(c)
					if o == nil || o.Pkg() == nil || o.Pkg().Path() != "sync" {
						continue
					}
					sig, _ := o.Type().(*types.Signature)
					if sig == nil || sig.Recv() == nil || namedOf(sig.Recv().Type()) == nil || namedOf(sig.Recv().Type()).Obj().Name() != "WaitGroup" {
						continue
					}
					// a local wait group only
					if len(c.Common().Args) == 0 {
						continue
					}
					if _, isAlloc := c.Common().Args[0].(*ssa.Alloc); !isAlloc {
						continue
					}
					if _, isDefer := c.(*ssa.Defer); isDefer {
						if o.Name() == "Wait" {
							waits = append(waits, nil) // deferred: every exit waits
						}
						continue
					}
					switch o.Name() {
					case "Go", "Add":
						launches = append(launches, c)
					case "Wait":
						waits = append(waits, c)
					}
				}
				if len(launches) == 0 || len(waits) == 0 {
					continue
				}
				deferred := false
				for _, w := range waits {
					if w == nil {
						deferred = true
					}
				}
				for i, r := range prog.Returns(fn) {
					after := false
					for _, l := range launches {
						if prog.MayPrecede(l, r) {
							after = true
						}
					}
					if !after {
						continue
					}
					n++
					ok := deferred
					if !ok {
						// every path from a launch to this return passes a Wait
						ok = true
						for _, l := range launches {
							if !prog.MayPrecede(l, r) {
								continue
							}
							passes := false
							for _, w := range waits {
								if w != nil && passesThrough2(l, r, w) {
									passes = true
								}
							}
							if !passes {
								ok = false
							}
						}
					}
					x.check(ok, fmt.Sprintf("func=%s return#%d joins-what-was-launched", prog.FnName(fn), i+1), x.pos(r),
						"the wait group is waited for before this return", "a return that goroutines launched through the function's wait group can precede is reached without wg.Wait: the function hands control back while they are still running")
				}
			}
			if n < 2 {
				x.C.Vacuous(x.id()+" returns behind a launch", n, 2)
			}
		}})

	register(&Rule{ID: "PS.only", Min: 2, Text: "a subscription enters a set only under the map's lock: in PubSub.Subscribe and SubscribeChannel every call that adds the new subscription to a set of subscriptions (Subscriptions.Set) sits inside the callback handed to the per-key map's Upsert — none in the subscribing function itself (a 'fast path' through Get). The last Unsubscribe closes and removes an empty set under that same lock; an insertion outside it can land in a set that has just been orphaned: Subscribe has returned, the subscriber is in no ClientIDs() and no Publish ever reaches it",
		Run: func(x *Ctx) {
			n := 0
			for _, name := range []string{"Subscribe", "SubscribeChannel"} {
				fn := x.fn(psPkg + ".(*PubSub)." + name)
				if fn == nil {
					continue
				}
				for _, g := range append([]*ssa.Function{fn}, prog.Closures(fn)...) {
					for _, c := range prog.CallsIn(g) {
						o := prog.CallObj(c)
						if o == nil || o.Name() != "Set" {
							continue
						}
						sig, _ := o.Type().(*types.Signature)
						if sig == nil || sig.Recv() == nil || namedOf(sig.Recv().Type()) == nil || !strings.Contains(namedOf(sig.Recv().Type()).Obj().Name(), "Subscriptions") {
							continue
						}
						n++
						// g is a closure handed to Upsert
						inCallback := false
						if g != fn {
							for _, site := range prog.CallsIn(g.Parent()) {
								if so := prog.CallObj(site); so != nil && so.Name() == "Upsert" {
									for _, cl := range closureArgs(site) {
										if cl == g {
											inCallback = true
										}
									}
								}
							}
						}
						x.check(inCallback, fmt.Sprintf("func=%s insertion#%d inside-the-Upsert-callback", prog.FnName(fn), n), x.pos(c),
							"the subscription is added inside the Upsert callback", "a subscription is added to a set outside the map's Upsert callback: the last Unsubscribe can close and remove that set between the lookup and the insertion")
					}
				}
			}
			if n < 2 {
				x.C.Vacuous(x.id()+" insertions of a subscription", n, 2)
			}
		}})

	register(&Rule{ID: "PS.loop", Min: 1, Text: "the batching publisher stops only when it is closed: every return of BatchPublisher.processLoop lies on the branch of its select that received from the close channel (closeChan). The set of subscriptions a publisher serves stays registered while it is empty — only Unsubscribe removes it — so a loop that also ends 'when nobody is left' leaves a registered set without its publisher: a later subscriber joins it, Publish appends events that are never flushed, and every watcher of that document is silent from then on",
		Run: func(x *Ctx) {
			fn := x.fn(psPkg + ".(*BatchPublisher).processLoop")
			if fn == nil {
				return
			}
			// the select and the index of its closeChan state
			var sel *ssa.Select
			closeIdx := -1
			for _, b := range fn.Blocks {
				for _, ins := range b.Instrs {
					if s, ok := ins.(*ssa.Select); ok {
						sel = s
						for i, st := range s.States {
							if f := prog.LoadedField(st.Chan); f != nil && strings.Contains(strings.ToLower(f.Name()), "close") {
								closeIdx = i
							}
						}
					}
				}
			}
			if sel == nil || closeIdx < 0 {
				x.fail("func="+prog.FnName(fn)+" shape", x.fpos(fn), "processLoop no longer selects on the close channel")
				return
			}
			// the block entered when the close state fired: Extract #0 == closeIdx
			var closeBlock *ssa.BasicBlock
			for _, b := range fn.Blocks {
				iff := prog.IfOf(b)
				if iff == nil {
					continue
				}
				bo, ok := iff.Cond.(*ssa.BinOp)
				if !ok || bo.Op != token.EQL {
					continue
				}
				if ex, isE := bo.X.(*ssa.Extract); isE && ex.Tuple == ssa.Value(sel) && ex.Index == 0 {
					if k, isK := prog.IntConst(bo.Y); isK && int(k) == closeIdx {
						closeBlock = b.Succs[0]
					}
				}
			}
			n := 0
			for i, r := range prog.Returns(fn) {
				if r.Block() == fn.Recover {
					continue
				}
				n++
				ok := closeBlock != nil && (closeBlock == r.Block() || closeBlock.Dominates(r.Block()))
				if closeBlock == nil {
					// the close state is the select's last: its branch is the final else of the dispatch chain
					ok = false
					for _, b := range fn.Blocks {
						iff := prog.IfOf(b)
						if iff == nil {
							continue
						}
						if bo, isBO := iff.Cond.(*ssa.BinOp); isBO {
							if ex, isE := bo.X.(*ssa.Extract); isE && ex.Tuple == ssa.Value(sel) && ex.Index == 0 {
								if k, isK := prog.IntConst(bo.Y); isK && int(k) == closeIdx-1 && (b.Succs[1] == r.Block() || b.Succs[1].Dominates(r.Block())) {
									ok = true
								}
							}
						}
					}
				}
				x.check(ok, fmt.Sprintf("func=%s return#%d on-the-close-branch", prog.FnName(fn), i+1), x.pos(r),
					"the loop ends on the close branch", "the publisher's loop can end on a branch other than the close channel's: a registered set is left without its publisher, and what is published to it afterwards is never delivered")
			}
			if n < 1 {
				x.C.Vacuous(x.id()+" returns of processLoop", n, 1)
			}
		}})

	register(&Rule{ID: "REC.att", Min: 2, Text: "an attachment record names the generation it belongs to: every composite literal of database.ClientDocInfo in the production packages that sets the Status attached also sets Epoch (the provisional \"attaching\" record of TryAttaching is replaced by AttachDocument's, which has it). The push compares the attachment's epoch with the document's; a record built without it (the system client that revisions.Restore and the admin's UpdateDocument push through) carries epoch 0, and once the document has been compacted its push is refused as coming from a stale generation: the revision cannot be restored any more",
		Run: func(x *Ctx) {
			cdT := x.P.Named("server/backend/database.ClientDocInfo")
			epochF := x.P.Field("server/backend/database.ClientDocInfo.Epoch")
			statusF := x.P.Field("server/backend/database.ClientDocInfo.Status")
			if cdT == nil || epochF == nil || statusF == nil {
				x.C.Unresolved(x.id(), "ClientDocInfo.Epoch / Status")
				return
			}
			n := 0
			for _, fn := range x.P.ProdFuncs() {
				if len(fn.Blocks) == 0 {
					continue
				}
				k := 0
				for _, b := range fn.Blocks {
					for _, ins := range b.Instrs {
						al, ok := ins.(*ssa.Alloc)
						if !ok {
							continue
						}
						pt, _ := al.Type().(*types.Pointer)
						if pt == nil || !isNamed(pt.Elem(), cdT) {
							continue
						}
						hasStatus, hasEpoch := false, false
						for _, r := range *al.Referrers() {
							fa, isFA := r.(*ssa.FieldAddr)
							if !isFA {
								continue
							}
							stored := false
							for _, rr := range *fa.Referrers() {
								if st, isSt := rr.(*ssa.Store); isSt && st.Addr == ssa.Value(fa) {
									stored = true
									if prog.FieldVar(fa) == statusF {
										// "attaching" is the provisional record of TryAttaching; AttachDocument replaces it with one that has the epoch
										if s, isS := constString(st.Val); isS && s == "attached" {
											hasStatus = true
										}
									}
								}
							}
							if stored && prog.FieldVar(fa) == epochF {
								hasEpoch = true
							}
						}
						if !hasStatus {
							continue
						}
						k++
						n++
						x.check(hasEpoch, fmt.Sprintf("func=%s attachment-record#%d sets-Epoch", prog.FnName(fn), k), x.pos(al),
							"the record carries the document's epoch", "an attachment record is built with a status of attached and without an Epoch: it counts as epoch 0, and its push is refused as stale once the document has been compacted")
					}
				}
			}
			if n < 2 {
				x.C.Vacuous(x.id()+" attachment records built", n, 2)
			}
		}})

	register(&Rule{ID: "LOOP.apply", Min: 1, Text: "a loop that walks a chain acts on the link it has reached: in the CRDT model, where a loop carries a pointer from iteration to iteration (next = …) and calls a method of that pointer's type that takes arguments (not a plain accessor), at least one such call in the loop has the advancing pointer as its receiver — not every one of them the same loop-invariant node. A propagation loop that applies the effect to the node it started from at every step (a copy-paste of the line above it) never reaches the siblings it walks: remove-style does not reach the halves of a concurrently split element",
		Run: func(x *Ctx) {
			n := 0
			for _, fn := range x.P.FuncsIn(crdtPkg) {
				if len(fn.Blocks) == 0 || (fn.Origin() != nil && fn.Origin() != fn) {
					continue
				}
				k := 0
				for _, l := range prog.Loops(fn) {
					for _, ins := range l.Header.Instrs {
						ph, ok := ins.(*ssa.Phi)
						if !ok {
							break
						}
						if _, isPtr := ph.Type().Underlying().(*types.Pointer); !isPtr {
							continue
						}
						updated := false
						for i, e := range ph.Edges {
							if l.Body[l.Header.Preds[i]] && e != ssa.Value(ph) {
								updated = true
							}
						}
						if !updated {
							continue
						}
						// method calls in the loop whose receiver has the phi's type
						onCarried, onInvariant := 0, ""
						for b := range l.Body {
							for _, bi := range b.Instrs {
								c, isC := bi.(*ssa.Call)
								if !isC || c.Call.IsInvoke() || c.Call.StaticCallee() == nil || c.Call.StaticCallee().Signature.Recv() == nil || len(c.Call.Args) == 0 {
									continue
								}
								rv := c.Call.Args[0]
								if !types.Identical(rv.Type(), ph.Type()) {
									continue
								}
								// accessors (no argument besides the receiver) do not count
								if len(c.Call.Args) < 2 {
									continue
								}
								if prog.Reaches(rv, func(w ssa.Value) bool { return w == ssa.Value(ph) }) || prog.DependsOn(rv, func(w ssa.Value) bool { return w == ssa.Value(ph) }) {
									onCarried++
								} else if !l.Body[blockOf(rv)] {
									onInvariant = x.pos(c)
								}
							}
						}
						if onCarried == 0 && onInvariant == "" {
							continue
						}
						k++
						n++
						x.check(onCarried > 0, fmt.Sprintf("func=%s chain-walk#%d acts-on-the-reached-link", prog.FnName(fn), k), x.P.Pos(ph.Pos()),
							"the loop acts on the pointer it advances", "every effectful call in this chain walk (at "+onInvariant+") has a node from outside the loop as its receiver and none the pointer the loop advances: the effect never reaches the links that are walked")
					}
				}
			}
			if n < 1 {
				x.C.Vacuous(x.id()+" chain walks with an effect", n, 1)
			}
		}})
}

func init() {
	register(&Rule{ID: "ATTR.span", Min: 1, Text: "a re-created element gets the attributes its span recorded: in Tree.recreateFromSpan some node constructor call (NewTreeNode) receives an attribute table that derives from the span's Attributes (their copy). A peer that has already collected the tombstone rebuilds the node from the span while the undoing client merely revives its own node; built bare, the peer shows <p> where the undoer shows <p bold=\"true\">, and nothing re-converges them",
		Run: func(x *Ctx) {
			fn := x.fn(crdtPkg + ".(*Tree).recreateFromSpan")
			spanAttrs := x.P.Field(crdtPkg + ".TreeRestoreSpan.Attributes")
			if fn == nil || spanAttrs == nil {
				if spanAttrs == nil {
					x.C.Unresolved(x.id(), "TreeRestoreSpan.Attributes")
				}
				return
			}
			ok := false
			var at ssa.Instruction
			for _, c := range prog.CallsIn(fn) {
				o := prog.CallObj(c)
				if o == nil || o.Name() != "NewTreeNode" {
					continue
				}
				at = c
				for _, a := range c.Common().Args {
					if prog.DependsOn(a, func(w ssa.Value) bool { return prog.LoadedField(w) == spanAttrs }) || prog.Reaches(a, func(w ssa.Value) bool { return prog.LoadedField(w) == spanAttrs }) {
						ok = true
					}
				}
			}
			pos := x.fpos(fn)
			if at != nil {
				pos = x.pos(at)
			}
			x.check(ok, "func="+prog.FnName(fn)+" recreated-node-carries-the-span's-attributes", pos, "a node constructor receives attributes derived from the span", "no node constructor in recreateFromSpan receives the span's attributes: a re-created element is bare on the replicas that had collected it")
		}})

	register(&Rule{ID: "CACHE.key", Min: 1, Text: "the key of a cached answer covers everything the answer depends on: the authorisation webhook is asked with a request body (the marshalled request: token, method and the attributes with their verbs), and its answer is cached; in the function of server/rpc/auth that looks the answer up in Cache.AuthWebhook, the key derives from that marshalled body (the result of json.Marshal of the request). A key assembled from selected fields that leaves the verb out serves the answer given for a read to a write of the same token on the same document: a read-only token writes, and the webhook is never asked",
		Run: func(x *Ctx) {
			n := 0
			for _, fn := range x.P.FuncsIn("server/rpc/auth") {
				if len(fn.Blocks) == 0 {
					continue
				}
				for _, c := range prog.CallsIn(fn) {
					o := prog.CallObj(c)
					if o == nil || (o.Name() != "Get" && o.Name() != "Add") || len(c.Common().Args) < 2 {
						continue
					}
					if f := prog.LoadedField(c.Common().Args[0]); f == nil || f.Name() != "AuthWebhook" {
						continue
					}
					n++
					key := c.Common().Args[1]
					fromBody := func(w ssa.Value) bool {
						ex, ok := w.(*ssa.Extract)
						if !ok || ex.Index != 0 {
							return false
						}
						cc, ok := ex.Tuple.(*ssa.Call)
						if !ok {
							return false
						}
						mo := prog.CallObj(cc)
						return mo != nil && mo.Name() == "Marshal" && mo.Pkg() != nil && mo.Pkg().Path() == "encoding/json"
					}
					ok := prog.DependsOn(key, fromBody) || prog.Reaches(key, fromBody)
					x.check(ok, fmt.Sprintf("func=%s cache-%s#%d key-derives-from-the-request-body", prog.FnName(fn), strings.ToLower(o.Name()), n), x.pos(c),
						"the key derives from the marshalled request", "the key under which the webhook's answer is cached does not derive from the marshalled request body: a field the answer depends on (the verb) can be missing from it")
				}
			}
			if n < 1 {
				x.C.Vacuous(x.id()+" uses of the webhook cache", n, 1)
			}
		}})
}

func init() {
	register(&Rule{ID: "CS.full", Min: 1, Text: "the whole requested range is asked for only when nothing is recorded as fetched: in ChangeStore.calcMissingRanges a return of the full request ([from, to] built from the two parameters) is reachable only on an edge where len(s.ranges) == 0. The tree of cached changes is empty whenever everything fetched so far was a hole (presence-only changes live elsewhere) while the ranges still say what was fetched; answering 'everything is missing' there asks the fetcher again for ranges already covered, on every pull of such a document",
		Run: func(x *Ctx) {
			fn := x.fn("server/backend/database/mongo.(*ChangeStore).calcMissingRanges")
			rangesF := x.P.Field("server/backend/database/mongo.ChangeStore.ranges")
			if fn == nil || rangesF == nil || len(fn.Params) < 3 {
				if rangesF == nil {
					x.C.Unresolved(x.id(), "ChangeStore.ranges")
				}
				return
			}
			from, to := fn.Params[1], fn.Params[2]
			n := 0
			for _, b := range fn.Blocks {
				hasFrom, hasTo := false, false
				for _, ins := range b.Instrs {
					if st, ok := ins.(*ssa.Store); ok {
						if f := prog.FieldVar(st.Addr); f != nil {
							// a parameter captured by a closure is spilled to a local: look through the load
							isPm := func(v ssa.Value, pm *ssa.Parameter) bool {
								return v == ssa.Value(pm) || prog.Reaches(v, func(w ssa.Value) bool { return w == ssa.Value(pm) })
							}
							if f.Name() == "From" && isPm(st.Val, from) {
								hasFrom = true
							}
							if f.Name() == "To" && isPm(st.Val, to) {
								hasTo = true
							}
						}
					}
				}
				if !hasFrom || !hasTo {
					continue
				}
				// the block builds [from, to]; is it returned from here?
				r, isRet := b.Instrs[len(b.Instrs)-1].(*ssa.Return)
				if !isRet {
					continue
				}
				n++
				lenRanges := VP{"len(s.ranges)", func(v ssa.Value) bool {
					c, ok := prog.Strip(v).(*ssa.Call)
					if !ok {
						return false
					}
					bi, ok := c.Call.Value.(*ssa.Builtin)
					return ok && bi.Name() == "len" && prog.LoadedField(c.Call.Args[0]) == rangesF
				}}
				zero := VP{"0", func(v ssa.Value) bool { k, ok := prog.IntConst(v); return ok && k == 0 }}
				x.guardedSite(fmt.Sprintf("func=%s full-range-return#%d only-when-no-range-is-recorded", prog.FnName(fn), n), r, []Cmp{{L: lenRanges, R: zero, Want: EQ}}, nil)
			}
			if n < 1 {
				x.C.Vacuous(x.id()+" full-range returns", n, 1)
			}
		}})
}

func init() {
	register(&Rule{ID: "YSON.long", Min: 1, Text: "a 64-bit integer is not read through a float: in the YSON parse functions (package yson) no value of type float64 is converted to a 64-bit integer (int64 — Long primitives and Long counters). encoding/json decodes every number into float64 unless told otherwise (Decoder.UseNumber), and a float64 holds integers exactly only up to 2^53: Long(9007199254740993) comes back as 9007199254740992 from a revision or a compaction's text form. Conversions to 32-bit integers are exact for every value the writer emits; a conversion to int64 is accepted only as the fallback of a function that also parses the decimal string (strconv.ParseInt) — the form the reader's own rewriting produces (F51)",
		Run: func(x *Ctx) {
			n := 0
			cnt := map[string]int{}
			for _, fn := range x.P.FuncsIn(ysonPkgRel) {
				if len(fn.Blocks) == 0 {
					continue
				}
				for _, b := range fn.Blocks {
					for _, ins := range b.Instrs {
						cv, ok := ins.(*ssa.Convert)
						if !ok {
							continue
						}
						from, ok1 := cv.X.Type().Underlying().(*types.Basic)
						to, ok2 := cv.Type().Underlying().(*types.Basic)
						if !ok1 || !ok2 || from.Info()&types.IsFloat == 0 || to.Info()&types.IsInteger == 0 {
							continue
						}
						n++
						cnt[prog.FnName(fn)]++
						wide := to.Kind() == types.Int64 || to.Kind() == types.Uint64
						if wide {
							// the legacy branch of a reader that takes the exact path when it can: the function parses the decimal string too
							for _, c := range prog.CallsIn(fn) {
								if o := prog.CallObj(c); o != nil && o.Pkg() != nil && o.Pkg().Path() == "strconv" && (o.Name() == "ParseInt" || o.Name() == "ParseUint") {
									wide = false
								}
							}
						}
						x.check(!wide, fmt.Sprintf("func=%s float-to-integer#%d %s->%s exact", prog.FnName(fn), cnt[prog.FnName(fn)], from.Name(), to.Name()), x.pos(cv),
							"the conversion is exact for every value the writer emits", "a 64-bit integer is obtained from a float64 in the YSON parser: values above 2^53 are rounded on the way through the text form")
					}
				}
			}
			if n < 1 {
				x.C.Vacuous(x.id()+" float-to-integer conversions in the parser", n, 1)
			}
		}})
}

// blockOf returns the block in which v is defined, or nil (parameters, constants, globals).
func blockOf(v ssa.Value) *ssa.BasicBlock {
	if ins, ok := v.(ssa.Instruction); ok {
		return ins.Block()
	}
	return nil
}

// passesThrough2: every path from `from` to `to` executes `via`.
func passesThrough2(from, to, via ssa.Instruction) bool {
	if !prog.MayPrecede(from, to) {
		return true
	}
	return !reachWithout(from, to, via)
}

func sortStrings(s []string) {
	for i := 1; i < len(s); i++ {
		for j := i; j > 0 && s[j] < s[j-1]; j-- {
			s[j], s[j-1] = s[j-1], s[j]
		}
	}
}
