package rules

import (
	"fmt"
	"go/ast"
	"go/token"
	"go/types"
	"strings"

	"yv/internal/prog"

	"golang.org/x/tools/go/ssa"
)

// Round 9: rules written after the last seeded round and a second look at the
// stored changes no rule reported.

// astStack walks body and calls f for every node with the stack of its ancestors
// (outermost first, the node itself last).
func astStack(body ast.Node, f func(stack []ast.Node)) {
	var stack []ast.Node
	ast.Inspect(body, func(n ast.Node) bool {
		if n == nil {
			stack = stack[:len(stack)-1]
			return true
		}
		stack = append(stack, n)
		f(stack)
		return true
	})
}

// conjuncts splits a && b && c (parentheses removed).
func conjuncts(e ast.Expr) []ast.Expr {
	e = ast.Unparen(e)
	if b, ok := e.(*ast.BinaryExpr); ok && b.Op == token.LAND {
		return append(conjuncts(b.X), conjuncts(b.Y)...)
	}
	return []ast.Expr{e}
}

// disjuncts splits a || b || c.
func disjuncts(e ast.Expr) []ast.Expr {
	e = ast.Unparen(e)
	if b, ok := e.(*ast.BinaryExpr); ok && b.Op == token.LOR {
		return append(disjuncts(b.X), disjuncts(b.Y)...)
	}
	return []ast.Expr{e}
}

// leavesBlock: the statement list ends by leaving the enclosing construct.
func leavesBlock(b *ast.BlockStmt) bool {
	if b == nil || len(b.List) == 0 {
		return false
	}
	switch b.List[len(b.List)-1].(type) {
	case *ast.ReturnStmt, *ast.BranchStmt:
		return true
	}
	return false
}

func init() {
	register(&Rule{ID: "FLOOR.exact", Min: 1, Text: "a floor lookup answers \"the piece that starts at or before the key\": in package crdt, where the result of Tree.findFloorNode for a key whose Offset is computed in the function (a key built on the spot, not a stored id) is used as the node in front of which something is inserted (it appears in the arguments of InsertAt — its child index is the slot), the result's own id.Offset was compared for equality with the key's offset (or its id with the key) on the way — as a conjunct of an enclosing if, or by an earlier guard that leaves. Without it the piece that merely precedes the key — the successor was purged, an earlier piece of the same insertion survives — is taken for the successor, and restored text is put in front of text it followed",
		Run: func(x *Ctx) {
			pk, ok := x.P.Syntax(crdtPkg)
			if !ok {
				x.C.Unresolved(x.id(), crdtPkg)
				return
			}
			floor := x.P.FnObj(crdtPkg + ".(*Tree).findFloorNode")
			if floor == nil {
				x.C.Unresolved(x.id(), "Tree.findFloorNode")
				return
			}
			info := pk.TypesInfo
			calleeOf := func(c *ast.CallExpr) *types.Func {
				var id *ast.Ident
				switch f := ast.Unparen(c.Fun).(type) {
				case *ast.SelectorExpr:
					id = f.Sel
				case *ast.Ident:
					id = f
				}
				if id == nil {
					return nil
				}
				fn, _ := info.Uses[id].(*types.Func)
				return fn
			}
			n := 0
			for _, f := range pk.Syntax {
				if strings.HasSuffix(x.P.Fset.Position(f.Pos()).Filename, "_test.go") {
					continue
				}
				for _, d := range f.Decls {
					fd, ok := d.(*ast.FuncDecl)
					if !ok || fd.Body == nil {
						continue
					}
					// v := t.findFloorNode(&TreeNodeID{…, Offset: E}) with E computed
					type lookup struct {
						v   types.Object
						off ast.Expr
						pos token.Pos
					}
					var lookups []lookup
					ast.Inspect(fd.Body, func(nd ast.Node) bool {
						as, ok := nd.(*ast.AssignStmt)
						if !ok || len(as.Lhs) != 1 || len(as.Rhs) != 1 {
							return true
						}
						call, ok := ast.Unparen(as.Rhs[0]).(*ast.CallExpr)
						if !ok || len(call.Args) != 1 {
							return true
						}
						if fn := calleeOf(call); fn == nil || fn.Origin() != floor.Origin() {
							return true
						}
						un, ok := ast.Unparen(call.Args[0]).(*ast.UnaryExpr)
						if !ok || un.Op != token.AND {
							return true
						}
						lit, ok := ast.Unparen(un.X).(*ast.CompositeLit)
						if !ok {
							return true
						}
						for _, el := range lit.Elts {
							kv, ok := el.(*ast.KeyValueExpr)
							if !ok {
								continue
							}
							if k, ok := kv.Key.(*ast.Ident); ok && k.Name == "Offset" {
								lhs, ok := as.Lhs[0].(*ast.Ident)
								if !ok {
									continue
								}
								obj := info.Defs[lhs]
								if obj == nil {
									obj = info.Uses[lhs]
								}
								if obj != nil {
									lookups = append(lookups, lookup{obj, kv.Value, call.Pos()})
								}
							}
						}
						return true
					})
					if len(lookups) == 0 {
						continue
					}
					// isExact: the expression states v.id.Offset == E (either order), v.id.Equal(key) or v.id.Compare(key) == 0
					isOffsetOf := func(e ast.Expr, v types.Object) bool {
						s, ok := ast.Unparen(e).(*ast.SelectorExpr)
						if !ok || s.Sel.Name != "Offset" {
							return false
						}
						found := false
						ast.Inspect(s.X, func(nd ast.Node) bool {
							if id, ok := nd.(*ast.Ident); ok && info.Uses[id] == v {
								found = true
							}
							return true
						})
						return found
					}
					// a local that is defined once and never reassigned stands for its defining expression
					defs := map[types.Object]ast.Expr{}
					reassigned := map[types.Object]bool{}
					ast.Inspect(fd.Body, func(nd ast.Node) bool {
						switch t := nd.(type) {
						case *ast.AssignStmt:
							for i, l := range t.Lhs {
								id, ok := l.(*ast.Ident)
								if !ok {
									continue
								}
								if o := info.Defs[id]; o != nil && t.Tok == token.DEFINE && len(t.Lhs) == len(t.Rhs) {
									defs[o] = t.Rhs[i]
								} else if o := info.Uses[id]; o != nil {
									reassigned[o] = true
								}
							}
						case *ast.IncDecStmt:
							if id, ok := t.X.(*ast.Ident); ok && info.Uses[id] != nil {
								reassigned[info.Uses[id]] = true
							}
						case *ast.UnaryExpr:
							if id, ok := t.X.(*ast.Ident); ok && t.Op == token.AND && info.Uses[id] != nil {
								reassigned[info.Uses[id]] = true
							}
						}
						return true
					})
					var norm func(e ast.Expr, depth int) string
					norm = func(e ast.Expr, depth int) string {
						e = ast.Unparen(e)
						switch t := e.(type) {
						case *ast.Ident:
							if o := info.Uses[t]; o != nil && depth < 4 {
								if d, ok := defs[o]; ok && !reassigned[o] {
									return norm(d, depth+1)
								}
							}
						case *ast.BinaryExpr:
							return "(" + norm(t.X, depth) + t.Op.String() + norm(t.Y, depth) + ")"
						}
						return types.ExprString(e)
					}
					same := func(a, b ast.Expr) bool { return norm(a, 0) == norm(b, 0) }
					states := func(e ast.Expr, lk lookup, op token.Token) bool {
						e = ast.Unparen(e)
						if b, ok := e.(*ast.BinaryExpr); ok && b.Op == op {
							if (isOffsetOf(b.X, lk.v) && same(b.Y, lk.off)) || (isOffsetOf(b.Y, lk.v) && same(b.X, lk.off)) {
								return true
							}
						}
						if op == token.EQL {
							if c, ok := e.(*ast.CallExpr); ok {
								if s, ok := ast.Unparen(c.Fun).(*ast.SelectorExpr); ok && s.Sel.Name == "Equal" {
									mentions := false
									ast.Inspect(s.X, func(nd ast.Node) bool {
										if id, ok := nd.(*ast.Ident); ok && info.Uses[id] == lk.v {
											mentions = true
										}
										return true
									})
									return mentions
								}
							}
						}
						return false
					}
					astStack(fd.Body, func(stack []ast.Node) {
						id, ok := stack[len(stack)-1].(*ast.Ident)
						if !ok {
							return
						}
						for _, lk := range lookups {
							if info.Uses[id] != lk.v || id.Pos() < lk.pos {
								continue
							}
							// inside the arguments of an InsertAt call?
							inInsertAt := false
							for i := len(stack) - 2; i >= 0; i-- {
								if c, ok := stack[i].(*ast.CallExpr); ok {
									if fn := calleeOf(c); fn != nil && fn.Name() == "InsertAt" {
										for _, a := range c.Args {
											if a.Pos() <= id.Pos() && id.End() <= a.End() {
												inInsertAt = true
											}
										}
									}
								}
							}
							if !inInsertAt {
								continue
							}
							n++
							exact := false
							for i := len(stack) - 2; i >= 0 && !exact; i-- {
								switch t := stack[i].(type) {
								case *ast.IfStmt:
									// the use lies in the body (not the else, not the condition)
									if t.Body.Pos() <= id.Pos() && id.End() <= t.Body.End() {
										for _, cj := range conjuncts(t.Cond) {
											if states(cj, lk, token.EQL) {
												exact = true
											}
										}
									}
								case *ast.BlockStmt:
									// an earlier guard of this block that leaves when the offsets differ
									for _, st := range t.List {
										if st.End() > id.Pos() {
											break
										}
										if g, ok := st.(*ast.IfStmt); ok && g.Pos() > lk.pos && leavesBlock(g.Body) && g.Else == nil {
											for _, dj := range disjuncts(g.Cond) {
												if states(dj, lk, token.NEQ) {
													exact = true
												}
											}
										}
									}
								}
							}
							recv := ""
							if fd.Recv != nil && len(fd.Recv.List) > 0 {
								recv = types.ExprString(fd.Recv.List[0].Type) + "."
							}
							x.check(exact, fmt.Sprintf("func=%s%s floor-result=%s key-offset=%s inserted-in-front-of", recv, fd.Name.Name, lk.v.Name(), types.ExprString(lk.off)),
								x.P.Pos(id.Pos()), "the floor result is used as the right neighbour only when it starts exactly at the key's offset",
								"the result of a floor lookup is used as the node in front of which the restored piece is inserted without having been compared with the offset that was asked for: when the successor piece is gone the lookup returns an earlier piece of the same insertion and the restored text lands in front of text it followed")
						}
					})
				}
			}
			if n < 1 {
				x.C.Vacuous(x.id()+" floor results used as a right neighbour", n, 1)
			}
		}})

	register(&Rule{ID: "ENC.cap", Min: 2, Text: "the snapshot decoder accepts whatever the snapshot encoder emits: a function of the production packages that builds a zstd decoder (zstd.NewReader) configures it only with options that do not restrict which frames decode (WithDecoderLowmem, WithDecoderConcurrency, WithDecodeBuffersBelow) — no size or window cap (WithDecoderMaxMemory, WithDecoderMaxWindow, WithDecodeAllCapLimit) and no dictionary — and the function that builds the encoder (zstd.NewWriter) uses no dictionary option; a decoder capped by a constant that looks generous (the compression threshold) refuses every stored snapshot above it: the document can no longer be loaded from its snapshot",
		Run: func(x *Ctx) {
			const zpkg = "github.com/klauspost/compress/zstd"
			decOK := map[string]bool{"WithDecoderLowmem": true, "WithDecoderConcurrency": true, "WithDecodeBuffersBelow": true}
			encBad := map[string]bool{"WithEncoderDict": true, "WithEncoderDictRaw": true}
			n := 0
			for _, fn := range x.P.ProdFuncs() {
				if len(fn.Blocks) == 0 {
					continue
				}
				makesDec, makesEnc := false, false
				var opts []ssa.CallInstruction
				for _, c := range prog.CallsIn(fn) {
					o := prog.CallObj(c)
					if o == nil || o.Pkg() == nil || o.Pkg().Path() != zpkg {
						continue
					}
					switch {
					case o.Name() == "NewReader":
						makesDec = true
					case o.Name() == "NewWriter":
						makesEnc = true
					case strings.HasPrefix(o.Name(), "With"):
						opts = append(opts, c)
					}
				}
				if !makesDec && !makesEnc {
					continue
				}
				n++
				bad := ""
				for _, c := range opts {
					name := prog.CallObj(c).Name()
					if makesDec && strings.HasPrefix(name, "WithDec") && !decOK[name] {
						bad = name + " at " + x.pos(c)
					}
					if makesEnc && encBad[name] {
						bad = name + " at " + x.pos(c)
					}
				}
				what := "decoder"
				if makesEnc {
					what = "encoder"
				}
				x.check(bad == "", fmt.Sprintf("func=%s zstd-%s options-do-not-restrict-what-decodes", prog.FnName(fn), what), x.fpos(fn),
					"the "+what+" is built without a cap or a dictionary", "the zstd "+what+" is configured with "+bad+": frames the encoder emits (a snapshot larger than the cap, a frame without the dictionary) are refused when the stored snapshot is read back")
			}
			if n < 2 {
				x.C.Vacuous(x.id()+" functions that build a zstd encoder or decoder", n, 2)
			}
		}})

	register(&Rule{ID: "E.store", Min: 100, Text: "no error of the storage layer is dropped: every call, anywhere in the production packages, of a method of the database.Database interface (through the interface or on the memory or MongoDB implementation) that returns an error has that error looked at — the error component of the result has a use (a test, a return, a wrap, a log); a call whose error is discarded (`_ =`, `x, _ :=`, a bare call statement, `go`/`defer` of it) reports success for a write that did not happen: the client is told its changes are stored, or a checkpoint, a lock row or an attachment row silently stays as it was",
		Run: func(x *Ctx) {
			dbT := x.P.Named("server/backend/database.Database")
			if dbT == nil {
				x.C.Unresolved(x.id(), "database.Database")
				return
			}
			iface, _ := dbT.Underlying().(*types.Interface)
			if iface == nil {
				x.C.Unresolved(x.id(), "database.Database is not an interface")
				return
			}
			methods := map[string]bool{}
			for i := 0; i < iface.NumMethods(); i++ {
				m := iface.Method(i)
				sig := m.Type().(*types.Signature)
				if sig.Results().Len() > 0 && isErrorType(sig.Results().At(sig.Results().Len()-1).Type()) {
					methods[m.Name()] = true
				}
			}
			implements := func(t types.Type) bool {
				if t == nil {
					return false
				}
				return types.Implements(t, iface) || types.Implements(types.NewPointer(t), iface)
			}
			n := 0
			perFn := map[string]int{}
			for _, fn := range x.P.ProdFuncs() {
				if len(fn.Blocks) == 0 || (fn.Origin() != nil && fn.Origin() != fn) {
					continue
				}
				for _, c := range prog.CallsIn(fn) {
					cc := c.Common()
					name := ""
					var recv types.Type
					if cc.IsInvoke() {
						name, recv = cc.Method.Name(), cc.Value.Type()
					} else if o := prog.CallObj(c); o != nil {
						if sig, ok := o.Type().(*types.Signature); ok && sig.Recv() != nil {
							name, recv = o.Name(), sig.Recv().Type()
						}
					}
					if !methods[name] || recv == nil {
						continue
					}
					if !types.Identical(recv, dbT) && !implements(recv) {
						if p, ok := recv.(*types.Pointer); !ok || !implements(p.Elem()) {
							continue
						}
					}
					n++
					perFn[prog.FnName(fn)+" "+name]++
					k := fmt.Sprintf("func=%s call=%s#%d error-looked-at", prog.FnName(fn), name, perFn[prog.FnName(fn)+" "+name])
					used := false
					why := ""
					switch t := c.(type) {
					case *ssa.Call:
						res := t.Call.Signature().Results()
						if res.Len() == 1 {
							used = len(*t.Referrers()) > 0
						} else {
							for _, r := range *t.Referrers() {
								if ex, ok := r.(*ssa.Extract); ok && ex.Index == res.Len()-1 && len(*ex.Referrers()) > 0 {
									used = true
								}
							}
						}
						if !used {
							why = "its error result has no use"
						}
					default:
						why = "it is started with go/defer, which discards the result"
					}
					x.check(used, k, x.pos(c), "the error is looked at", "the storage call "+name+" is made and "+why+": a failed read or write is taken for a success")
				}
			}
			if n < 100 {
				x.C.Vacuous(x.id()+" storage calls", n, 100)
			}
		}})

	register(&Rule{ID: "OWN.scope", Min: 1, Text: "a counter that restarts with every attachment does not identify a change in a log that outlives attachments: ClientSeq is set back to 0 when a document is attached, detached or removed (ClientInfo.AttachDocument/DetachDocument/RemoveDocument), and the change log keeps the changes of earlier attachments of the same client; so where the pull function drops a logged change as the requester's own (ActorID == requester and ClientSeq ≤ acknowledged) the decision also looks at something that tells this attachment from an earlier one — the change's ServerSeq, or a field of the attachment record other than the ones it has today (Status, ServerSeq, ClientSeq, Epoch — none of them survives a detach or names the attachment). Without it a client that attaches a document again with a fresh replica that already carries k local changes never receives the first k changes of its earlier attachment",
		Run: func(x *Ctx) {
			p := x.pipe()
			if !p.ok {
				return
			}
			fn := p.Puller
			ciT := x.P.Named("server/backend/database.ChangeInfo")
			cseqDoc := x.P.Field("server/backend/database.ClientDocInfo.ClientSeq")
			statusDoc := x.P.Field("server/backend/database.ClientDocInfo.Status")
			sseqChange := x.P.Field("server/backend/database.ChangeInfo.ServerSeq")
			cdT := x.P.Named("server/backend/database.ClientDocInfo")
			if ciT == nil || cseqDoc == nil || sseqChange == nil || cdT == nil {
				x.C.Unresolved(x.id(), "ChangeInfo / ClientDocInfo fields")
				return
			}
			// premise: the counter restarts
			restarts := 0
			for _, g := range x.P.FuncsIn("server/backend/database") {
				for _, st := range storesToField(g, cseqDoc) {
					if k, ok := prog.IntConst(st.Val); ok && k == 0 {
						restarts++
					}
				}
			}
			if restarts == 0 {
				x.hold("premise=ClientSeq-restarts-per-attachment", x.fpos(fn), "ClientSeq is no longer set back to 0 by the attachment methods: the counter identifies a change for the lifetime of the client")
				return
			}
			i := 0
			for _, c := range prog.CallsIn(fn) {
				b, ok := c.Common().Value.(*ssa.Builtin)
				if !ok || b.Name() != "append" {
					continue
				}
				sl, ok := c.Common().Args[0].Type().Underlying().(*types.Slice)
				if !ok || !isNamed(sl.Elem(), ciT) {
					continue
				}
				i++
				scoped := false
				for _, iff := range x.P.ControlDeps(c.Block()) {
					if prog.DependsOn(iff.Cond, func(v ssa.Value) bool {
						f := prog.LoadedField(v)
						if f == nil {
							return false
						}
						if f == sseqChange {
							return true
						}
						// a field of the attachment record other than the restarting counter and the status
						if f != cseqDoc && f != statusDoc && f.Name() != "Epoch" && f.Name() != "ServerSeq" {
							if st, ok := cdT.Underlying().(*types.Struct); ok {
								for j := 0; j < st.NumFields(); j++ {
									if st.Field(j) == f {
										return true
									}
								}
							}
						}
						return false
					}) {
						scoped = true
					}
				}
				x.check(scoped, fmt.Sprintf("func=%s own-change-filter#%d tells-attachments-apart", prog.FnName(fn), i), x.pos(c),
					"the own-change filter is scoped to the current attachment",
					"the pull drops a logged change as the requester's own on ActorID and ClientSeq alone; ClientSeq restarts with every attachment, so the changes of an earlier attachment of the same client whose ClientSeq is not above the acknowledged one are withheld from its fresh replica")
			}
			if i == 0 {
				x.C.Unresolved(x.id(), "append of *ChangeInfo in the pull function")
			}
		}})

	register(&Rule{ID: "PATH.miss", Min: 1, Text: "a path that cannot be walked yields nothing: in package schema, where a loop narrows the walked value with a comma-ok type assertion (getValueByPath: current.(*crdt.Object) per path component), the failing edge leads only to returns whose value is not the partially walked value — a walk that stops at a component which is not an object and returns what it has reached hands the validator the wrong node ($.a.b validated against the primitive at $.a), so a document that breaks the schema is accepted (or a valid one refused) and Update's schema gate no longer means what the schema says",
		Run: func(x *Ctx) {
			n := 0
			for _, fn := range x.P.FuncsIn("pkg/schema") {
				if len(fn.Blocks) == 0 {
					continue
				}
				loops := prog.Loops(fn)
				i := 0
				for _, b := range fn.Blocks {
					for _, ins := range b.Instrs {
						ta, ok := ins.(*ssa.TypeAssert)
						if !ok || !ta.CommaOk {
							continue
						}
						walked, isPhi := prog.Strip(ta.X).(*ssa.Phi)
						if !isPhi {
							continue
						}
						var loop *prog.Loop
						for _, l := range loops {
							if l.Header == walked.Block() && l.Body[b] {
								loop = l
							}
						}
						if loop == nil {
							continue
						}
						var okv ssa.Value
						for _, r := range *ta.Referrers() {
							if ex, isE := r.(*ssa.Extract); isE && ex.Index == 1 {
								okv = ex
							}
						}
						if okv == nil {
							continue
						}
						for _, bb := range fn.Blocks {
							iff := prog.IfOf(bb)
							if iff == nil || iff.Cond != okv {
								continue
							}
							i++
							n++
							// returns reachable from the failing edge without going round the loop again
							seen := map[*ssa.BasicBlock]bool{loop.Header: true}
							work := []*ssa.BasicBlock{bb.Succs[1]}
							bad := ""
							for len(work) > 0 {
								c := work[len(work)-1]
								work = work[:len(work)-1]
								if seen[c] {
									continue
								}
								seen[c] = true
								for _, ci := range c.Instrs {
									if r, isR := ci.(*ssa.Return); isR {
										for _, res := range r.Results {
											if prog.Reaches(res, func(v ssa.Value) bool { return v == ssa.Value(walked) }) {
												bad = x.pos(r)
											}
										}
									}
								}
								work = append(work, c.Succs...)
							}
							x.check(bad == "", fmt.Sprintf("func=%s narrowing-assertion#%d miss-returns-nothing", prog.FnName(fn), i), x.pos(ta),
								"a component that cannot be walked ends the walk with no value", "the failing edge of the narrowing assertion reaches a return of the partially walked value (at "+bad+"): the validator is handed the node at which the path stopped instead of nothing")
						}
					}
				}
			}
			if n < 1 {
				x.C.Vacuous(x.id()+" narrowing assertions in a path walk", n, 1)
			}
		}})
}
