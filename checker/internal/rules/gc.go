package rules

import (
	"fmt"
	"go/token"
	"go/types"
	"strings"

	"yv/internal/prog"

	"golang.org/x/tools/go/ssa"
)

const (
	crdtPkg = "pkg/document/crdt"
	docPkg  = "pkg/document"
)

// flowsFromCallTo: v is (an extract of) the result of calling obj.
func flowsFromCallTo(v ssa.Value, obj *types.Func) bool {
	return prog.Reaches(v, func(w ssa.Value) bool {
		switch t := w.(type) {
		case *ssa.Call:
			return sameFunc(prog.CallObj(t), obj)
		case *ssa.Extract:
			if c, ok := t.Tuple.(*ssa.Call); ok {
				return sameFunc(prog.CallObj(c), obj)
			}
		}
		return false
	})
}

func init() {
	register(&Rule{ID: "O2.purge", Min: 2, Text: "purge is guarded: in Root.GarbageCollect every Purge call sits on the true edge of vector.EqualToOrAfter(X.RemovedAt()) where vector is GarbageCollect's parameter and X is the very node/element being purged; the registry entry is dropped on the same edge",
		Run: func(x *Ctx) {
			fn := x.fn(crdtPkg + ".(*Root).GarbageCollect")
			if fn == nil {
				return
			}
			eq := x.P.FnObj(timePkg + ".VersionVector.EqualToOrAfter")
			if eq == nil {
				x.C.Unresolved(x.id(), "VersionVector.EqualToOrAfter")
				return
			}
			n := 0
			for _, c := range prog.CallsIn(fn) {
				o := prog.CallObj(c)
				if o == nil || o.Name() != "Purge" {
					continue
				}
				n++
				k := fmt.Sprintf("func=%s purge#%d", prog.FnName(fn), n)
				purged := c.Common().Args[len(c.Common().Args)-1]
				guard := VP{"vector.EqualToOrAfter(purged.RemovedAt())", func(v ssa.Value) bool {
					call, ok := v.(*ssa.Call)
					if !ok || !sameFunc(prog.CallObj(call), eq) {
						return false
					}
					if prog.Strip(call.Call.Args[0]) != ssa.Value(fn.Params[1]) {
						return false
					}
					ra, ok := prog.Strip(call.Call.Args[1]).(*ssa.Call)
					if !ok || prog.CallObj(ra) == nil || prog.CallObj(ra).Name() != "RemovedAt" {
						return false
					}
					return sameAccessPath(recvOf(ra), purged)
				}}
				x.guardedSite(k+" guarded-by-EqualToOrAfter(removedAt-of-the-purged)", c, []Cmp{isTrue(guard)}, nil)
			}
			if n < 2 {
				x.fail("func="+prog.FnName(fn)+" purges", x.fpos(fn), fmt.Sprintf("%d Purge call(s); expected one for removed elements and one for removed nodes", n))
			}
		}})

	register(&Rule{ID: "VV.server", Min: 6, Text: "the minimum vector the server uses and hands out: (a) every GarbageCollect on a server-side document in server/packs takes the result of Database.GetMinVersionVector and runs only when SnapshotDisableGC is false; (b) UpdateMinVersionVector receives the *request's* version vector (Pack.VersionVector of the request parameter), and its result is what a change-pull response carries; (c) memdb: the row of a client is deleted on the edge where ClientInfo.IsAttached is false and upserted with the given vector otherwise; UpdateMinVersionVector updates the row before computing the minimum with the same vector; GetMinVersionVector includes the requester's vector and every stored row of the document without a filter",
		Run: func(x *Ctx) {
			p := x.pipe()
			if !p.ok {
				return
			}
			gcM := x.P.FnObj(docPkg + ".(*InternalDocument).GarbageCollect")
			disableGC := x.P.Field("server/backend.Config.SnapshotDisableGC")
			if gcM == nil || disableGC == nil {
				x.C.Unresolved(x.id(), "InternalDocument.GarbageCollect / backend.Config.SnapshotDisableGC")
				return
			}
			n := 0
			for _, c := range callsTo(x.P.FuncsIn("server/packs"), gcM) {
				n++
				k := fmt.Sprintf("func=%s gc#%d", prog.FnName(c.Parent()), n)
				x.check(flowsFromCallTo(c.Common().Args[1], p.GetMinVV), k+" vector=GetMinVersionVector", x.pos(c),
					"server-side GC uses the minimum over all attached clients", "server-side GC runs with a vector that is not the result of GetMinVersionVector")
				x.guardedSite(k+" only-when-gc-enabled", c, []Cmp{isFalse(vpField(disableGC))}, nil)
			}
			if n < 2 {
				x.fail("server/packs gc-sites", "server/packs", fmt.Sprintf("%d server-side GarbageCollect site(s), expected the snapshot pull and the document rebuild", n))
			}
			// (b) request vector
			packVV := x.P.Field(changePkg + ".Pack.VersionVector")
			packT := x.P.Named(changePkg + ".Pack")
			spVV := x.P.Field("server/packs.ServerPack.VersionVector")
			for _, c := range callsTo(x.P.FuncsIn("server/packs"), p.UpdMinVV) {
				fn := c.Parent()
				var req *ssa.Parameter
				for _, pm := range fn.Params {
					if isNamed(pm.Type(), packT) {
						req = pm
					}
				}
				arg := paramArg(c, 3)
				ok := req != nil && prog.LoadedField(arg) == packVV && prog.FieldBase(arg) == ssa.Value(req)
				x.check(ok, "func="+prog.FnName(fn)+" UpdateMinVersionVector(vector=request.VersionVector)", x.pos(c),
					"the stored row is the vector the client sent", "the vector stored for the client is not the request's version vector (the minimum would overstate what the client has seen)")
				// the response vector for a change pull is this call's result
				stored := false
				for _, st := range storesTo(fn, spVV) {
					if flowsFromCallTo(st.Val, p.UpdMinVV) {
						stored = true
					}
				}
				x.check(stored, "func="+prog.FnName(fn)+" response.VersionVector=min", x.pos(c), "the response carries the minimum vector", "the response no longer carries the minimum vector returned by UpdateMinVersionVector")
				// the row is maintained on every successful request unless the request opted out of GC:
				// in particular the detach that Deactivate performs (push-only) must delete the row
				optGC := x.P.Field("server/packs.PushPullOptions.DisableGC")
				if optGC != nil {
					for i, r := range successReturns(fn) {
						x.guardedOrVia(fmt.Sprintf("func=%s ok-return#%d row-maintained-unless-DisableGC", prog.FnName(fn), i+1), r, []Cmp{isTrue(vpField(optGC))}, []ssa.Instruction{c},
							"every successful request updates (or deletes) the client's version-vector row unless it opted out of GC",
							"a request can succeed without UpdateMinVersionVector although GC is not disabled for it: the row of a client detached that way is never deleted and holds back garbage collection for everybody")
					}
				}
			}
			// (c) memdb row maintenance
			if fn := x.fn(memPkg + ".(*DB).updateVersionVector"); fn != nil {
				isAtt := x.P.FnObj(dbPkg + ".(*ClientInfo).IsAttached")
				attached := VP{"IsAttached()", func(v ssa.Value) bool {
					ex, ok := v.(*ssa.Extract)
					if !ok || ex.Index != 0 {
						return false
					}
					c, ok := ex.Tuple.(*ssa.Call)
					return ok && sameFunc(prog.CallObj(c), isAtt)
				}}
				k := "func=" + prog.FnName(fn)
				nDel, nIns := 0, 0
				vvi := x.P.Named(dbPkg + ".VersionVectorInfo")
				vviVV := x.P.Field(dbPkg + ".VersionVectorInfo.VersionVector")
				for _, c := range prog.CallsIn(fn) {
					o := prog.CallObj(c)
					if o == nil || recvOf(c) == nil || !isMemdbTxn(recvOf(c).Type()) {
						continue
					}
					switch o.Name() {
					case "DeleteAll", "Delete":
						nDel++
						x.guardedSite(k+" delete-row-when-not-attached", c, []Cmp{isFalse(attached)}, nil)
						// … and only the detaching client's row: the key of the delete is computed from the client record
						var ciParam *ssa.Parameter
						for _, pm := range fn.Params {
							if pt, isP := pm.Type().(*types.Pointer); isP && isNamed(pt.Elem(), x.P.Named(dbPkg+".ClientInfo")) {
								ciParam = pm
							}
						}
						scoped := false
						if ciParam != nil {
							for _, a := range c.Common().Args {
								if prog.DependsOn(a, func(w ssa.Value) bool { return w == ssa.Value(ciParam) }) {
									scoped = true
								}
							}
						}
						x.check(scoped, k+" delete-only-the-client's-row", x.pos(c), "the delete is keyed by the detaching client", "the version-vector rows deleted on detach are not selected by the detaching client: one client's detach wipes the rows of every client of the document, the minimum vector no longer accounts for attached clients that have not synced since, and tombstones they still need are purged")
					case "Insert":
						nIns++
						x.guardedSite(k+" upsert-row-when-attached", c, []Cmp{isTrue(attached)}, nil)
						obj := prog.Strip(c.Common().Args[len(c.Common().Args)-1])
						okVal := false
						if isNamed(obj.Type(), vvi) {
							for _, st := range storesTo(fn, vviVV) {
								if st.Addr.(*ssa.FieldAddr).X == obj {
									if pm, isP := prog.Strip(st.Val).(*ssa.Parameter); isP && pm.Parent() == fn {
										okVal = true
									}
								}
							}
						}
						x.check(okVal, k+" row.VersionVector=parameter", x.pos(c), "the row stores the given vector", "the stored row does not hold the vector passed in")
					}
				}
				x.check(nDel >= 1, k+" has-delete", x.fpos(fn), "rows of non-attached clients are deleted", "the version-vector row of a detached client is no longer deleted: it holds back garbage collection forever")
				x.check(nIns >= 1, k+" has-upsert", x.fpos(fn), "rows of attached clients are upserted", "the version-vector row of an attached client is no longer stored")
			}
			if fn := x.fn(memPkg + ".(*DB).UpdateMinVersionVector"); fn != nil {
				upd := x.P.FnObj(memPkg + ".(*DB).updateVersionVector")
				get := x.P.FnObj(memPkg + ".(*DB).GetMinVersionVector")
				us, gs := callsToIn(fn, upd), callsToIn(fn, get)
				k := "func=" + prog.FnName(fn)
				if len(us) == 0 || len(gs) == 0 {
					x.fail(k+" update≺min", x.fpos(fn), "UpdateMinVersionVector no longer updates the row and then computes the minimum")
				} else {
					x.check(prog.Dominates(us[0], gs[0]), k+" update≺min", x.pos(gs[0]), "the row is updated before the minimum is computed", "the minimum is computed before the client's row is updated")
					same := prog.Strip(us[0].Common().Args[len(us[0].Common().Args)-1]) == prog.Strip(gs[0].Common().Args[len(gs[0].Common().Args)-1])
					x.check(same, k+" same-vector", x.pos(gs[0]), "row update and minimum use the same vector", "row update and minimum use different vectors")
					if uc, ok := us[0].(*ssa.Call); ok {
						x.guardedSite(k+" update-error-returns", gs[0], []Cmp{errNilCmp(uc)}, nil)
					}
				}
			}
			if fn := x.fn(memPkg + ".(*DB).GetMinVersionVector"); fn != nil {
				k := "func=" + prog.FnName(fn)
				minF := x.P.FnObj(timePkg + ".MinVersionVector")
				vviT := x.P.Named(dbPkg + ".VersionVectorInfo")
				vviVV := x.P.Field(dbPkg + ".VersionVectorInfo.VersionVector")
				calls := callsToIn(fn, minF)
				if len(calls) == 0 {
					x.fail(k+" uses-MinVersionVector", x.fpos(fn), "the minimum is no longer computed by time.MinVersionVector")
				} else {
					arg := calls[0].Common().Args[0]
					var vecParam *ssa.Parameter
					for _, pm := range fn.Params {
						if n, ok := pm.Type().(*types.Named); ok && n.Obj().Name() == "VersionVector" {
							vecParam = pm
						}
					}
					incReq := vecParam != nil && sliceContains(arg, func(v ssa.Value) bool { return prog.Strip(v) == ssa.Value(vecParam) })
					incRows := sliceContains(arg, func(v ssa.Value) bool { return prog.LoadedField(v) == vviVV })
					x.check(incReq, k+" includes-requester", x.pos(calls[0]), "the requester's own vector is part of the minimum", "the requester's vector is no longer part of the minimum")
					x.check(incRows, k+" includes-rows", x.pos(calls[0]), "every stored row is part of the minimum", "the stored rows are no longer part of the minimum")
				}
				// no filter on rows: no condition depends on a field of VersionVectorInfo
				filt := ""
				for _, b := range fn.Blocks {
					if iff := prog.IfOf(b); iff != nil {
						if prog.DependsOn(iff.Cond, func(v ssa.Value) bool {
							f := prog.LoadedField(v)
							if f == nil {
								return false
							}
							base := prog.FieldBase(v)
							return base != nil && isNamed(base.Type(), vviT)
						}) {
							filt = x.P.InstrPos(iff)
						}
					}
				}
				x.check(filt == "", k+" no-row-filter", x.fpos(fn), "no stored row is skipped", "a condition on the row's fields at "+filt+" can skip a stored row: the minimum would overstate that client's knowledge")
				// index by document id
				byDoc := false
				for _, c := range prog.CallsIn(fn) {
					if o := prog.CallObj(c); o != nil && o.Name() == "Get" && recvOf(c) != nil && isMemdbTxn(recvOf(c).Type()) {
						for _, a := range c.Common().Args {
							if prog.DependsOn(a, func(v ssa.Value) bool {
								f := prog.LoadedField(v)
								if f == nil {
									f = prog.FieldVar(v)
								}
								return f != nil && f.Name() == "DocID"
							}) {
								byDoc = true
							}
						}
					}
				}
				x.check(byDoc, k+" rows-of-this-document", x.fpos(fn), "rows are selected by the document id", "the rows are no longer selected by the request's document id")
			}
		}})

	register(&Rule{ID: "O2.cache", Min: 6, Text: "server rebuild (BuildInternalDocForServerSeq): the snapshot-cache entry is used only when it is not newer than the requested serverSeq — whenever requested < cached.Checkpoint().ServerSeq is possible, or there is no entry, the path goes through Database.FindClosestSnapshotInfo; the replayed range starts at base.Checkpoint().ServerSeq+1 and ends at the requested serverSeq; what Cache.Snapshot.Get returns is only DeepCopy'd; what is Added to the cache is not returned (a DeepCopy is)",
		Run: func(x *Ctx) {
			fn := x.rebuildHost()
			if fn == nil {
				x.C.Unresolved(x.id(), "the function of server/packs that reads the snapshot cache (Cache.Snapshot.Get)")
				return
			}
			k := "func=" + prog.FnName(fn)
			closest := x.P.IfaceMethod(dbPkg + ".Database.FindClosestSnapshotInfo")
			between := x.P.IfaceMethod(dbPkg + ".Database.FindChangesBetweenServerSeqs")
			cpM := x.P.FnObj(docPkg + ".(*InternalDocument).Checkpoint")
			cpSS := x.P.Field(changePkg + ".Checkpoint.ServerSeq")
			dcM := x.P.FnObj(docPkg + ".(*InternalDocument).DeepCopy")
			if closest == nil || between == nil || cpM == nil || cpSS == nil || dcM == nil {
				x.C.Unresolved(x.id(), "FindClosestSnapshotInfo/FindChangesBetweenServerSeqs/InternalDocument.Checkpoint/DeepCopy")
				return
			}
			fall := callsToIn(fn, closest)
			rep := callsToIn(fn, between)
			if len(fall) != 1 || len(rep) != 1 {
				x.fail(k+" shape", x.fpos(fn), "expected one snapshot lookup and one change replay in the rebuild")
				return
			}
			var seqParam *ssa.Parameter
			for _, pm := range fn.Params {
				if b, ok := pm.Type().(*types.Basic); ok && b.Kind() == types.Int64 {
					seqParam = pm
				}
			}
			if seqParam == nil {
				x.fail(k+" serverSeq-parameter", x.fpos(fn), "no requested-serverSeq parameter")
				return
			}
			cachedSS := vpFieldOf(cpSS, vpFlow(vpCall(cpM)))
			req := VP{"requested serverSeq", func(v ssa.Value) bool { return prog.Strip(v) == ssa.Value(seqParam) }}
			x.mustPassWhen(k+" stale-cache-entry-not-used", rep[0], fall[0], req, cachedSS, LT,
				"whenever the requested serverSeq may be below the cached document's, the stored snapshot is consulted",
				"a cached document newer than the requested serverSeq can be used as the base of the rebuild (the result contains changes after the requested point)")
			// nil entry ⇒ fallback
			docNil := VP{"base document", func(v ssa.Value) bool { return isNamed(v.Type(), x.P.Named(docPkg+".InternalDocument")) }}
			x.mustPassWhen(k+" no-entry-falls-back", rep[0], fall[0], docNil, VP{"nil", prog.IsNilConst}, EQ,
				"without a cache entry the stored snapshot is consulted", "the rebuild can proceed without a base document")
			// replay range
			from, to := paramArg(rep[0], 2), paramArg(rep[0], 3)
			okFrom := isPlusOne(from, cachedSS)
			x.check(okFrom, k+" replay-from=base.ServerSeq+1", x.pos(rep[0]), "replay starts right after the base", "the replay does not start at base.Checkpoint().ServerSeq + 1 (a change is skipped or applied twice)")
			x.check(prog.Strip(to) == ssa.Value(seqParam), k+" replay-to=requested", x.pos(rep[0]), "replay ends at the requested serverSeq", "the replay does not end at the requested serverSeq")
			// snapshot lookup is for the requested serverSeq
			x.check(prog.Strip(paramArg(fall[0], 2)) == ssa.Value(seqParam), k+" snapshot-lookup-for-requested", x.pos(fall[0]), "closest snapshot at or below the requested serverSeq", "the snapshot lookup is not bounded by the requested serverSeq")
			// A3: cache hand-out
			for _, c := range prog.CallsIn(fn) {
				o := prog.CallObj(c)
				if o == nil {
					continue
				}
				recv := recvOf(c)
				if recv == nil || !strings.Contains(recv.Type().String(), "cache.LRU[") {
					continue
				}
				switch o.Name() {
				case "Get":
					call := c.(*ssa.Call)
					bad := ""
					for _, r := range *call.Referrers() {
						ex, ok := r.(*ssa.Extract)
						if !ok || ex.Index != 0 {
							continue
						}
						for _, u := range *ex.Referrers() {
							uc, isCall := u.(ssa.CallInstruction)
							if isCall && sameFunc(prog.CallObj(uc), dcM) && uc.Common().Args[0] == ssa.Value(ex) {
								continue
							}
							if _, isDbg := u.(*ssa.DebugRef); isDbg {
								continue
							}
							bad = x.pos(u)
						}
					}
					x.check(bad == "", k+" cache-get-only-deepcopied", x.pos(c), "the cached document is only DeepCopy'd", "the cached document is used directly at "+bad+" (shared between requests)")
				case "Add":
					added := c.Common().Args[len(c.Common().Args)-1]
					ret := false
					for _, r := range prog.Returns(fn) {
						// only a return the Add can come before: a path that returns its own object without having cached it shares nothing
						if prog.MayPrecede(c, r) && prog.Reaches(prog.ReturnValue(r, 0), func(v ssa.Value) bool { return v == prog.Strip(added) }) {
							ret = true
						}
					}
					x.check(!ret, k+" cache-add-not-returned", x.pos(c), "the cached object is not handed to the caller", "the object stored in the cache is also returned to the caller (shared, mutated by the caller)")
					// a DeepCopy after Add is what is returned
					okCopy := false
					for _, r := range successReturns(fn) {
						if flowsFromCallTo(prog.ReturnValue(r, 0), dcM) {
							okCopy = true
						}
					}
					x.check(okCopy, k+" returns-deepcopy", x.pos(c), "the caller gets a DeepCopy", "the rebuild no longer returns a DeepCopy")
				}
			}
		}})
}

// sliceContains: does the variadic/slice value v include, through appends and
// element stores, a value satisfying pred?
func sliceContains(v ssa.Value, pred func(ssa.Value) bool) bool {
	seen := map[ssa.Value]bool{}
	var walk func(v ssa.Value, d int) bool
	walk = func(v ssa.Value, d int) bool {
		if v == nil || seen[v] || d > 30 {
			return false
		}
		seen[v] = true
		switch t := v.(type) {
		case *ssa.Phi:
			for _, e := range t.Edges {
				if walk(e, d+1) {
					return true
				}
			}
		case *ssa.Slice:
			return walk(t.X, d+1)
		case *ssa.Alloc:
			for _, r := range *t.Referrers() {
				if ia, ok := r.(*ssa.IndexAddr); ok {
					for _, rr := range *ia.Referrers() {
						if st, ok := rr.(*ssa.Store); ok && pred(st.Val) {
							return true
						}
					}
				}
			}
		case *ssa.Call:
			if b, ok := t.Call.Value.(*ssa.Builtin); ok && b.Name() == "append" {
				for _, a := range t.Call.Args {
					if walk(a, d+1) {
						return true
					}
				}
			}
		case *ssa.UnOp:
			if t.Op == token.MUL {
				if a, ok := t.X.(*ssa.Alloc); ok {
					for _, r := range *a.Referrers() {
						if st, ok := r.(*ssa.Store); ok && st.Addr == ssa.Value(a) && walk(st.Val, d+1) {
							return true
						}
					}
				}
			}
		}
		return false
	}
	return walk(v, 0)
}

func init() {
	register(&Rule{ID: "SNAP.store", Min: 3, Text: "storing a snapshot: the function of server/packs that writes a snapshot row (Database.CreateSnapshotInfo) rebuilds the document from the closest stored snapshot X and replays exactly the changes (X.ServerSeq+1 … DocInfo.ServerSeq]: the lower bound of FindChangesBetweenServerSeqs is the ServerSeq of the very snapshot row the document is built from, plus one; the upper bound and the pack's checkpoint are the document's ServerSeq",
		Run: func(x *Ctx) {
			csi := x.P.IfaceMethod(dbPkg + ".Database.CreateSnapshotInfo")
			between := x.P.IfaceMethod(dbPkg + ".Database.FindChangesBetweenServerSeqs")
			newFromSnap := x.P.FnObj(docPkg + ".NewInternalDocumentFromSnapshot")
			snapSS := x.P.Field(dbPkg + ".SnapshotInfo.ServerSeq")
			docSS := x.P.Field(dbPkg + ".DocInfo.ServerSeq")
			if csi == nil || between == nil || newFromSnap == nil || snapSS == nil || docSS == nil {
				x.C.Unresolved(x.id(), "CreateSnapshotInfo / FindChangesBetweenServerSeqs / NewInternalDocumentFromSnapshot / SnapshotInfo.ServerSeq")
				return
			}
			for _, c := range callsTo(x.P.FuncsIn("server/packs"), csi) {
				fn := c.Parent()
				k := "func=" + prog.FnName(fn)
				rep := callsToIn(fn, between)
				nd := callsToIn(fn, newFromSnap)
				if len(rep) != 1 || len(nd) != 1 {
					x.fail(k+" shape", x.fpos(fn), "expected one change replay and one document construction from a snapshot row")
					continue
				}
				from, to := paramArg(rep[0], 2), paramArg(rep[0], 3)
				x.check(isPlusOne(from, vpField(snapSS)), k+" replay-from=snapshot.ServerSeq+1", x.pos(rep[0]), "the replay starts right after the snapshot row", "the replay does not start at (ServerSeq of the closest snapshot) + 1: the change on the snapshot boundary is applied twice or skipped")
				x.check(prog.LoadedField(to) == docSS, k+" replay-to=DocInfo.ServerSeq", x.pos(rep[0]), "the replay ends at the document head", "the replay does not end at DocInfo.ServerSeq")
				x.check(prog.LoadedField(paramArg(nd[0], 1)) == snapSS, k+" built-from-the-same-snapshot-row", x.pos(nd[0]), "the document is built at the snapshot row's ServerSeq", "the document is not built at the ServerSeq of the snapshot row it is decoded from")
			}
		}})

	register(&Rule{ID: "SNAP.apply", Min: 5, Text: "receiving a snapshot: InternalDocument.applySnapshot replaces the root with crdt.NewRoot of the decoded object, replaces the presences with the decoded ones, and adopts the clocks with SetClocks(vector.MaxLamport(), vector) of the pack's vector; on the server the snapshot pull encodes the rebuilt document (after applying the request's own changes) and ships the document's own version vector with it",
		Run: func(x *Ctx) {
			fn := x.fn(docPkg + ".(*InternalDocument).applySnapshot")
			if fn == nil {
				return
			}
			k := "func=" + prog.FnName(fn)
			b2s := x.P.FnObj(convPkg + ".BytesToSnapshot")
			newRoot := x.P.FnObj(crdtPkg + ".NewRoot")
			setClocks := x.P.FnObj(changePkg + ".ID.SetClocks")
			maxLam := x.P.FnObj(timePkg + ".VersionVector.MaxLamport")
			rootF := x.P.Field(docPkg + ".InternalDocument.root")
			presF := x.P.Field(docPkg + ".InternalDocument.presences")
			idF := x.P.Field(docPkg + ".InternalDocument.changeID")
			okRoot := false
			for _, st := range storesTo(fn, rootF) {
				if c, ok := prog.Strip(st.Val).(*ssa.Call); ok && sameFunc(prog.CallObj(c), newRoot) && flowsFromCallTo(c.Call.Args[0], b2s) {
					okRoot = true
				}
			}
			x.check(okRoot, k+" root=NewRoot(decoded)", x.fpos(fn), "the root is rebuilt from the snapshot", "applySnapshot no longer installs crdt.NewRoot of the decoded snapshot")
			okPres := false
			for _, st := range storesTo(fn, presF) {
				if flowsFromCallTo(st.Val, b2s) {
					okPres = true
				}
			}
			x.check(okPres, k+" presences=decoded", x.fpos(fn), "presences come from the snapshot", "applySnapshot no longer installs the snapshot's presences")
			var vec *ssa.Parameter
			for _, pm := range fn.Params {
				if n, ok := pm.Type().(*types.Named); ok && n.Obj().Name() == "VersionVector" {
					vec = pm
				}
			}
			okClk := false
			for _, st := range storesTo(fn, idF) {
				c, ok := prog.Strip(st.Val).(*ssa.Call)
				if !ok || !sameFunc(prog.CallObj(c), setClocks) || vec == nil {
					continue
				}
				ml, isCall := prog.Strip(c.Call.Args[1]).(*ssa.Call)
				if isCall && sameFunc(prog.CallObj(ml), maxLam) && prog.Strip(ml.Call.Args[0]) == ssa.Value(vec) && prog.Strip(c.Call.Args[2]) == ssa.Value(vec) {
					okClk = true
				}
			}
			x.check(okClk, k+" clocks=SetClocks(vector.MaxLamport(),vector)", x.fpos(fn), "the clocks are adopted from the snapshot's vector", "applySnapshot no longer adopts the snapshot vector and its maximum lamport")
			// a document built from a stored snapshot adopts the stored lamport and vector
			if nf := x.fn(docPkg + ".NewInternalDocumentFromSnapshot"); nf != nil {
				var lam, vecP *ssa.Parameter
				for _, pm := range nf.Params {
					if b, ok := pm.Type().Underlying().(*types.Basic); ok && b.Kind() == types.Int64 && strings.Contains(strings.ToLower(pm.Name()), "lamport") {
						lam = pm
					}
					if n, ok := pm.Type().(*types.Named); ok && n.Obj().Name() == "VersionVector" {
						vecP = pm
					}
				}
				okS := false
				for _, c := range callsToIn(nf, setClocks) {
					a := c.Common().Args
					if lam != nil && vecP != nil && prog.Strip(a[1]) == ssa.Value(lam) && prog.Strip(a[2]) == ssa.Value(vecP) {
						okS = true
					}
				}
				x.check(okS, "func="+prog.FnName(nf)+" clocks=SetClocks(stored lamport, stored vector)", x.fpos(nf), "the rebuilt document adopts the snapshot row's lamport and vector", "a document built from a stored snapshot does not adopt the stored lamport and vector: its next change can carry a clock older than what the snapshot contains")
			}
			// server side: the function in packs that calls SnapshotToBytes on the PushPull path
			p := x.pipe()
			if !p.ok {
				return
			}
			s2b := x.P.FnObj(convPkg + ".SnapshotToBytes")
			build := x.P.FnObj("server/packs.BuildInternalDocForServerSeq")
			vvM := x.P.FnObj(docPkg + ".(*InternalDocument).VersionVector")
			rootObj := x.P.FnObj(docPkg + ".(*InternalDocument).RootObject")
			spVV := x.P.Field("server/packs.ServerPack.VersionVector")
			for _, c := range callsTo(x.P.FuncsIn("server/packs"), s2b) {
				host := c.Parent()
				if !x.reachableFrom(p.PushPull, host) {
					continue
				}
				hk := "func=" + prog.FnName(host)
				arg := c.Common().Args[0]
				okDoc := false
				if rc, ok := prog.Strip(arg).(*ssa.Call); ok && sameFunc(prog.CallObj(rc), rootObj) && flowsFromCallTo(rc.Call.Args[0], build) {
					okDoc = true
				}
				x.check(okDoc, hk+" snapshot-of-rebuilt-document", x.pos(c), "the snapshot encodes the document rebuilt for the pre-push head", "the snapshot does not encode the document built by BuildInternalDocForServerSeq")
				okVV := false
				for _, st := range storesTo(host, spVV) {
					if vc, ok := prog.Strip(st.Val).(*ssa.Call); ok && sameFunc(prog.CallObj(vc), vvM) && flowsFromCallTo(vc.Call.Args[0], build) {
						okVV = true
					}
				}
				x.check(okVV, hk+" pack.VersionVector=document's", x.pos(c), "the snapshot ships the document's own vector", "the snapshot pack does not carry the rebuilt document's version vector")
				// the request's own changes are applied before encoding
				apply := x.P.FnObj(docPkg + ".(*InternalDocument).ApplyChangePack")
				ok := false
				for _, a := range callsToIn(host, apply) {
					if prog.MayPrecede(a, c) && !prog.MayPrecede(c, a) {
						ok = true
					}
				}
				x.check(ok, hk+" own-changes-applied-before-encoding", x.pos(c), "pushed changes are part of the snapshot", "the request's own changes are no longer applied before the snapshot is encoded")
				// … whenever the request carries any change (presence-only ones included)
				hasCh := x.P.FnObj(changePkg + ".(*Pack).HasChanges")
				packChanges := x.P.Field(changePkg + ".Pack.Changes")
				lenCh := VP{"len(request.Changes)", func(v ssa.Value) bool {
					cc, ok := prog.Strip(v).(*ssa.Call)
					if !ok {
						return false
					}
					bi, ok := cc.Call.Value.(*ssa.Builtin)
					if !ok || bi.Name() != "len" {
						return false
					}
					// the request's list itself, or a selection built from it (the changes this request pushed)
					return prog.LoadedField(cc.Call.Args[0]) == packChanges || prog.DependsOn(cc.Call.Args[0], func(w ssa.Value) bool { return prog.LoadedField(w) == packChanges })
				}}
				var vias []ssa.Instruction
				for _, a := range callsToIn(host, apply) {
					vias = append(vias, a)
				}
				x.guardedOrVia(hk+" own-changes-applied-whenever-the-request-has-changes", c, []Cmp{isFalse(vpCall(hasCh)), {L: lenCh, R: vpConst(0), Want: LE}}, vias,
					"the snapshot includes the request's (newly pushed) changes whenever it has any", "a request that carries changes (e.g. presence only) can get a snapshot that does not include them: the sender's own presence differs from what peers see")
			}
		}})
}

func init() {
	register(&Rule{ID: "PURGE.id", Min: 2, Text: "a purge empties a key-addressed slot only if its occupant is the node being purged: in RHT.Purge and ElementRHT.purge every delete from nodeMapByKey (one slot per user key, re-used by successive values) is reached only on the edge where the slot's current occupant equals (pointer or IDString) the node that is purged — GC registrations are keyed by updatedAt:key, which is not unique per owner, so a stale registration can name a key whose slot meanwhile holds a live value",
		Run: func(x *Ctx) {
			n := 0
			for _, spec := range []string{crdtPkg + ".(*RHT).Purge", crdtPkg + ".(*ElementRHT).purge"} {
				fn := x.fn(spec)
				if fn == nil {
					x.C.Unresolved(x.id(), spec)
					continue
				}
				child := fn.Params[1]
				isSlotMap := func(m ssa.Value) bool {
					f := prog.LoadedField(m)
					return f != nil && f.Name() == "nodeMapByKey"
				}
				fromLookup := func(v ssa.Value) bool {
					return prog.DependsOn(v, func(w ssa.Value) bool {
						lk, ok := w.(*ssa.Lookup)
						return ok && isSlotMap(lk.X)
					})
				}
				occupant := VP{"occupant of the slot", fromLookup}
				purged := VP{"the purged node", func(v ssa.Value) bool {
					return !fromLookup(v) && prog.DependsOn(v, func(w ssa.Value) bool { return w == ssa.Value(child) })
				}}
				i := 0
				for _, c := range builtinCalls(fn, "delete") {
					if !isSlotMap(c.Call.Args[0]) {
						continue
					}
					i++
					n++
					x.guardedSite(fmt.Sprintf("func=%s delete#%d only-if-occupant-is-the-purged-node", prog.FnName(fn), i), c, []Cmp{{L: occupant, R: purged, Want: EQ}}, nil)
				}
				if i == 0 {
					x.fail("func="+prog.FnName(fn)+" empties-slot", x.fpos(fn), "the purge no longer deletes from nodeMapByKey")
				}
			}
			if n < 2 {
				x.C.Vacuous(x.id()+" deletes", n, 2)
			}
		}})

	register(&Rule{ID: "GC.server", Min: 4, Text: "the server collects a rebuilt document only with the stored minimum and only after replay: (1) every change.NewPack built in package server/packs (the packs that replay logged or pushed changes onto a rebuilt document) passes nil as its version vector — InternalDocument.ApplyChangePack collects with the pack's vector when it has one, and the requester's own vector is not the minimum over the attached clients; (2) in every function of server/packs that both replays changes (InternalDocument.ApplyChangePack) and collects (InternalDocument.GarbageCollect), no collect can run before a replay: a logged change may be anchored on a tombstone the current minimum already allows to purge",
		Run: func(x *Ctx) {
			newPack := x.P.FnObj(changePkg + ".NewPack")
			apply := x.P.FnObj(docPkg + ".(*InternalDocument).ApplyChangePack")
			gc := x.P.FnObj(docPkg + ".(*InternalDocument).GarbageCollect")
			if newPack == nil || apply == nil || gc == nil {
				x.C.Unresolved(x.id(), "change.NewPack / InternalDocument.ApplyChangePack / GarbageCollect")
				return
			}
			vvT := x.P.Named(timePkg + ".VersionVector")
			n := 0
			for _, fn := range x.P.FuncsIn("server/packs") {
				for i, c := range callsToIn(fn, newPack) {
					for _, a := range c.Common().Args {
						if !isNamed(a.Type(), vvT) {
							continue
						}
						n++
						x.check(prog.IsNilConst(a), fmt.Sprintf("func=%s replay-pack#%d carries-no-vector", prog.FnName(fn), i+1), x.pos(c), "the replay pack has no version vector", "a pack replayed onto a server-side document carries a version vector: ApplyChangePack garbage-collects with it, i.e. with something other than the stored minimum over all attached clients")
					}
				}
				as, gs := callsToIn(fn, apply), callsToIn(fn, gc)
				if len(as) == 0 || len(gs) == 0 {
					continue
				}
				for i, g := range gs {
					ok := true
					for _, a := range as {
						if prog.MayPrecede(g, a) {
							ok = false
						}
					}
					n++
					x.check(ok, fmt.Sprintf("func=%s collect#%d after-replay", prog.FnName(fn), i+1), x.pos(g), "no replay can follow the collect", "the rebuilt document is garbage-collected before the logged changes are replayed onto it: a change anchored on a purged tombstone makes every later rebuild of the document fail")
				}
			}
			if n < 4 {
				x.C.Vacuous(x.id()+" sites", n, 4)
			}
		}})
}

// rebuildHost: the function of package packs that rebuilds a document from the snapshot cache and the
// log — found by role (it calls Get on the backend's snapshot cache), whatever it is called and
// however many exported entry points wrap it.
func (x *Ctx) rebuildHost() *ssa.Function {
	for _, fn := range x.P.FuncsIn("server/packs") {
		for _, c := range prog.CallsIn(fn) {
			o := prog.CallObj(c)
			if o == nil || o.Name() != "Get" {
				continue
			}
			if r := recvOf(c); r != nil {
				if f := prog.LoadedField(r); f != nil && f.Name() == "Snapshot" {
					return fn
				}
			}
		}
	}
	return nil
}

// rebuildEntries: the host itself and the functions of its package that only wrap it.
func (x *Ctx) rebuildEntries() []*types.Func {
	host := x.rebuildHost()
	if host == nil {
		return nil
	}
	var out []*types.Func
	if o, _ := host.Object().(*types.Func); o != nil {
		out = append(out, o)
		for _, c := range x.directCallers(o) {
			w := c.Parent()
			if prog.PkgOf(w) != prog.PkgOf(host) || w.Parent() != nil {
				continue
			}
			// a thin wrapper: one block, returns the call
			if len(w.Blocks) == 1 {
				if wo, _ := w.Object().(*types.Func); wo != nil {
					out = append(out, wo)
				}
			}
		}
	}
	return out
}
