package rules

import (
	"fmt"
	"go/token"
	"go/types"
	"sort"
	"strings"

	"yv/internal/prog"

	"golang.org/x/tools/go/ssa"
)

// ticketParams lists the *time.Ticket parameters of fn (not the receiver).
func ticketParams(fn *ssa.Function) []*ssa.Parameter {
	var out []*ssa.Parameter
	for i, pm := range fn.Params {
		if i == 0 && fn.Signature.Recv() != nil {
			continue
		}
		if p, ok := pm.Type().(*types.Pointer); ok {
			if n, ok := p.Elem().(*types.Named); ok && n.Obj().Name() == "Ticket" {
				out = append(out, pm)
			}
		}
	}
	return out
}

func vpIsParam(pm *ssa.Parameter) VP {
	return VP{"param " + pm.Name(), func(v ssa.Value) bool {
		return prog.Reaches(v, func(w ssa.Value) bool { return w == ssa.Value(pm) })
	}}
}

// vpStamp matches a stored timestamp read either as a field named one of names
// or through an accessor method named one of accessors.
func vpStamp(desc string, fields []string, accessors []string) VP {
	return VP{desc, func(v ssa.Value) bool {
		if f := prog.LoadedField(v); f != nil {
			for _, n := range fields {
				if f.Name() == n {
					return true
				}
			}
		}
		if c, ok := prog.Strip(v).(*ssa.Call); ok {
			name := ""
			if c.Call.IsInvoke() {
				name = c.Call.Method.Name()
			} else if o := prog.CallObj(c); o != nil {
				name = o.Name()
			}
			for _, a := range accessors {
				if name == a {
					return true
				}
			}
		}
		return false
	}}
}

var vpNil = VP{"nil", prog.IsNilConst}

// boolSite is a place where a boolean function yields true: the block from which
// the true flows, plus the condition value when the result is a condition itself.
type boolSite struct {
	Ins  ssa.Instruction // an instruction in the block that must be guarded
	Cond ssa.Value       // non-nil: the function returns Cond's value on this path
	Edge *prog.Edge      // the phi edge carrying the value, if any
}

// trueSites lists the ways fn (returning bool as result idx) can return true.
func trueSites(fn *ssa.Function, idx int) []boolSite {
	var out []boolSite
	for _, r := range prog.Returns(fn) {
		v := prog.ReturnValue(r, idx)
		var expand func(v ssa.Value, at ssa.Instruction, edge *prog.Edge, depth int)
		expand = func(v ssa.Value, at ssa.Instruction, edge *prog.Edge, depth int) {
			if c, ok := v.(*ssa.Const); ok {
				if vpTrue.match(c) {
					out = append(out, boolSite{Ins: at, Edge: edge})
				}
				return
			}
			if ph, ok := v.(*ssa.Phi); ok && depth < 4 {
				for i, e := range ph.Edges {
					pred := ph.Block().Preds[i]
					ed := prog.Edge{From: pred, To: ph.Block()}
					expand(e, pred.Instrs[len(pred.Instrs)-1], &ed, depth+1)
				}
				return
			}
			out = append(out, boolSite{Ins: at, Cond: v, Edge: edge})
		}
		expand(v, r, nil, 0)
	}
	return out
}

// guardedBool decides one conjunct for one true-site of a boolean function.
func (x *Ctx) guardedBool(key string, s boolSite, cmps []Cmp) bool {
	fn := s.Ins.Parent()
	// the returned condition itself implies the conjunct
	if s.Cond != nil {
		for _, c := range cmps {
			if r, ok := relOnTrue(s.Cond, c.L, c.R, nil); ok && implies(r, c.Want) {
				x.hold(key, x.pos(s.Ins), "the returned condition is ("+c.String()+")")
				return true
			}
		}
	}
	guards, wrong := GuardEdges(fn, cmps, nil)
	cut := map[prog.Edge]bool{}
	var descs []string
	for e, d := range guards {
		cut[e] = true
		descs = append(descs, d)
	}
	ok := false
	if len(cut) > 0 {
		if s.Edge != nil && cut[*s.Edge] {
			ok = true
		} else {
			ok = prog.CutDisconnects(fn, s.Ins.Block(), cut)
		}
	}
	var want []string
	for _, c := range cmps {
		want = append(want, c.String())
	}
	if ok {
		x.hold(key, x.pos(s.Ins), "true is returned only past: "+strings.Join(uniq(descs), "; "))
	} else {
		d := "true can be returned without [" + strings.Join(want, " or ") + "]"
		if len(wrong) > 0 {
			d += "; found with other polarity: " + strings.Join(uniq(wrong), "; ")
		}
		x.fail(key, x.pos(s.Ins), d)
	}
	return ok
}

func init() {
	register(&Rule{ID: "O2.lww", Min: 30, Text: "last-writer-wins registers: every write of a register (removedAt of the six element types, of text nodes and tree nodes; the key slot of ElementRHT and RHT; the position register of RGATreeList) is reachable only through an edge on which the incoming ticket parameter is After the register's current stamp, or the slot is empty; element removal additionally requires incoming After createdAt; text/tree node removal additionally requires the creation to be known to the operation; an overwrite of an existing tombstone requires that tombstone to be unknown to the operation",
		Run: func(x *Ctx) {
			elemIface := x.P.Named(crdtPkg + ".Element")
			if elemIface == nil {
				x.C.Unresolved(x.id(), crdtPkg+".Element")
				return
			}
			created := vpStamp("createdAt", []string{"createdAt"}, []string{"CreatedAt"})
			removedAt := vpStamp("removedAt", []string{"removedAt"}, []string{"RemovedAt"})
			// (a) element Remove siblings
			impls := x.P.Implementers(elemIface)
			if len(impls) < 6 {
				x.C.Vacuous(x.id()+" element types", len(impls), 6)
			}
			doneFn := map[*ssa.Function]bool{}
			for _, n := range impls {
				fn := x.P.MethodOf(n, "Remove")
				if fn == nil || fn.Blocks == nil || doneFn[fn] {
					continue
				}
				doneFn[fn] = true
				// the declaring type (the method may be promoted from an embedded type)
				if rt := fn.Signature.Recv().Type(); rt != nil {
					if p, ok := rt.(*types.Pointer); ok {
						rt = p.Elem()
					}
					if rn, ok := rt.(*types.Named); ok {
						n = rn
					}
				}
				tps := ticketParams(fn)
				if len(tps) != 1 {
					continue
				}
				in := vpIsParam(tps[0])
				var f *types.Var
				if st, ok := n.Underlying().(*types.Struct); ok {
					for i := 0; i < st.NumFields(); i++ {
						if st.Field(i).Name() == "removedAt" {
							f = st.Field(i)
						}
					}
				}
				if f == nil {
					x.fail("type="+n.Obj().Name()+" Remove", x.fpos(fn), "no removedAt register")
					continue
				}
				sts := storesTo(fn, f)
				if len(sts) == 0 {
					x.fail("func="+prog.FnName(fn)+" writes-removedAt", x.fpos(fn), "Remove no longer records the removal")
				}
				for i, st := range sts {
					k := fmt.Sprintf("func=%s write#%d", prog.FnName(fn), i+1)
					x.guardedSite(k+" incoming>createdAt", st, []Cmp{{L: in, R: created, Want: GE}}, nil)
					x.guardedSite(k+" empty-or-incoming>removedAt", st, []Cmp{{L: removedAt, R: vpNil, Want: EQ}, {L: in, R: removedAt, Want: GE}}, nil)
					x.check(prog.Strip(st.Val) == ssa.Value(tps[0]), k+" stores-incoming", x.pos(st), "the incoming ticket is stored", "the register is not set to the incoming ticket")
				}
			}
			// (b) ElementRHTNode.Remove
			if fn := x.fn(crdtPkg + ".(*ElementRHTNode).Remove"); fn != nil {
				in := vpIsParam(ticketParams(fn)[0])
				n := 0
				for _, c := range prog.CallsIn(fn) {
					if c.Common().IsInvoke() && c.Common().Method.Name() == "Remove" {
						n++
						k := fmt.Sprintf("func=%s delegate#%d", prog.FnName(fn), n)
						x.guardedSite(k+" incoming>createdAt", c, []Cmp{{L: in, R: created, Want: GE}}, nil)
						x.guardedSite(k+" empty-or-incoming>removedAt", c, []Cmp{{L: removedAt, R: vpNil, Want: EQ}, {L: in, R: removedAt, Want: GE}}, nil)
					}
				}
				if n == 0 {
					x.fail("func="+prog.FnName(fn)+" delegates", x.fpos(fn), "ElementRHTNode.Remove no longer removes the element")
				}
			}
			// (c) ElementRHT.SetWithExecutedAt
			okSlot := VP{"key present", func(v ssa.Value) bool {
				ex, ok := v.(*ssa.Extract)
				if !ok || ex.Index != 1 {
					return false
				}
				l, ok := ex.Tuple.(*ssa.Lookup)
				return ok && l.CommaOk
			}}
			if fn := x.fn(crdtPkg + ".(*ElementRHT).SetWithExecutedAt"); fn != nil {
				f := x.P.Field(crdtPkg + ".ElementRHT.nodeMapByKey")
				in := vpIsParam(ticketParams(fn)[0])
				accessor := func(v ssa.Value, name string) bool {
					c, ok := prog.Strip(v).(*ssa.Call)
					if !ok {
						return false
					}
					if c.Call.IsInvoke() {
						return c.Call.Method.Name() == name
					}
					o := prog.CallObj(c)
					return o != nil && o.Name() == name
				}
				occupant := VP{"occupant's position stamp (movedAt, else createdAt)", func(v ssa.Value) bool {
					if accessor(v, "PositionedAt") {
						return true
					}
					// the inlined form: movedAt if set, else createdAt
					if ph, ok := prog.Strip(v).(*ssa.Phi); ok {
						m, c := false, false
						for _, e := range ph.Edges {
							m = m || accessor(e, "MovedAt")
							c = c || accessor(e, "CreatedAt")
						}
						return m && c
					}
					return false
				}}
				mus := mapUpdatesOf(fn, f)
				if len(mus) == 0 {
					x.fail("func="+prog.FnName(fn)+" writes-slot", x.fpos(fn), "the key slot is never written")
				}
				for i, mu := range mus {
					x.guardedSite(fmt.Sprintf("func=%s slot-write#%d empty-or-incoming>occupant", prog.FnName(fn), i+1), mu,
						[]Cmp{isFalse(okSlot), {L: in, R: occupant, Want: GE}}, nil)
				}
				// the loser is tombstoned, not left as a live duplicate
				setMoved := 0
				for _, c := range prog.CallsIn(fn) {
					if c.Common().IsInvoke() && c.Common().Method.Name() == "SetMovedAt" {
						setMoved++
						x.guardedSite(fmt.Sprintf("func=%s stamp-winner#%d", prog.FnName(fn), setMoved), c, []Cmp{isFalse(okSlot), {L: in, R: occupant, Want: GE}}, nil)
						x.check(prog.Strip(c.Common().Args[0]) == ssa.Value(ticketParams(fn)[0]), fmt.Sprintf("func=%s stamp-winner#%d value", prog.FnName(fn), setMoved), x.pos(c), "the winner is stamped with the executing ticket", "the winner is not stamped with the executing ticket")
					}
				}
				x.check(setMoved >= 1, "func="+prog.FnName(fn)+" stamps-winner", x.fpos(fn), "the winner's position stamp is recorded", "the winning element's position stamp (movedAt) is no longer recorded: later writes compare against a stale stamp")
			}
			// (d,e) RHT
			if f := x.P.Field(crdtPkg + ".RHT.nodeMapByKey"); f != nil {
				upd := vpStamp("updatedAt", []string{"updatedAt"}, []string{"UpdatedAt"})
				nodeNil := VP{"existing node", func(v ssa.Value) bool { return isNamed(v.Type(), x.P.Named(crdtPkg+".RHTNode")) }}
				for _, name := range []string{"Set", "Remove"} {
					fn := x.fn(crdtPkg + ".(*RHT)." + name)
					if fn == nil {
						continue
					}
					in := vpIsParam(ticketParams(fn)[0])
					mus := mapUpdatesOf(fn, f)
					if len(mus) == 0 {
						x.fail("func="+prog.FnName(fn)+" writes-slot", x.fpos(fn), "the attribute slot is never written")
					}
					for i, mu := range mus {
						x.guardedSite(fmt.Sprintf("func=%s slot-write#%d empty-or-incoming>updatedAt", prog.FnName(fn), i+1), mu,
							[]Cmp{isFalse(okSlot), {L: nodeNil, R: vpNil, Want: EQ}, {L: in, R: upd, Want: GE}}, nil)
					}
				}
			} else {
				x.C.Unresolved(x.id(), crdtPkg+".RHT.nodeMapByKey")
			}
			// (f) RGATreeList.MoveAfter position register
			if fn := x.fn(crdtPkg + ".(*RGATreeList).MoveAfter"); fn != nil {
				tps := ticketParams(fn)
				in := vpIsParam(tps[len(tps)-1])
				pm := vpStamp("posMovedAt", []string{"posMovedAt"}, nil)
				n := 0
				for _, fname := range []string{"posMovedAt", "positionNode"} {
					f := x.P.Field(crdtPkg + ".ElementEntry." + fname)
					if f == nil {
						x.C.Unresolved(x.id(), crdtPkg+".ElementEntry."+fname)
						continue
					}
					for i, st := range storesTo(fn, f) {
						n++
						x.guardedSite(fmt.Sprintf("func=%s write=%s#%d never-moved-or-incoming>posMovedAt", prog.FnName(fn), fname, i+1), st,
							[]Cmp{{L: pm, R: vpNil, Want: EQ}, {L: in, R: pm, Want: GE}}, nil)
					}
				}
				if n < 2 {
					x.fail("func="+prog.FnName(fn)+" writes-position-register", x.fpos(fn), "MoveAfter no longer updates the element's position register")
				}
			}
			// (g) text node removal
			if fn := x.fn(crdtPkg + ".(*RGATreeSplitNode).Remove"); fn != nil {
				f := x.P.Field(crdtPkg + ".RGATreeSplitNode.removedAt")
				in := vpIsParam(ticketParams(fn)[0])
				var bools []*ssa.Parameter
				for _, pm := range fn.Params {
					if b, ok := pm.Type().(*types.Basic); ok && b.Kind() == types.Bool {
						bools = append(bools, pm)
					}
				}
				sts := storesTo(fn, f)
				if len(sts) == 0 || len(bools) != 2 {
					x.fail("func="+prog.FnName(fn)+" shape", x.fpos(fn), "expected removedAt writes and (creationKnown, tombstoneKnown) parameters")
				}
				for i, st := range sts {
					k := fmt.Sprintf("func=%s write#%d", prog.FnName(fn), i+1)
					x.guardedSite(k+" empty-or-incoming>removedAt", st, []Cmp{{L: removedAt, R: vpNil, Want: EQ}, {L: in, R: removedAt, Want: GE}}, nil)
					if len(bools) == 2 {
						x.guardedSite(k+" creation-known", st, []Cmp{isTrue(vpIsParam(bools[0]))}, nil)
						x.guardedSite(k+" empty-or-tombstone-unknown", st, []Cmp{{L: removedAt, R: vpNil, Want: EQ}, isFalse(vpIsParam(bools[1]))}, nil)
					}
				}
			}
			// (h) tree node removal
			if fn := x.fn(crdtPkg + ".(*TreeNode).remove"); fn != nil {
				f := x.P.Field(crdtPkg + ".TreeNode.removedAt")
				in := vpIsParam(ticketParams(fn)[0])
				for i, st := range storesTo(fn, f) {
					x.guardedSite(fmt.Sprintf("func=%s write#%d empty-or-incoming>removedAt", prog.FnName(fn), i+1), st,
						[]Cmp{{L: removedAt, R: vpNil, Want: EQ}, {L: in, R: removedAt, Want: GE}}, nil)
				}
				if len(storesTo(fn, f)) == 0 {
					x.fail("func="+prog.FnName(fn)+" writes-removedAt", x.fpos(fn), "TreeNode.remove no longer records the removal")
				}
			}
			if fn := x.fn(crdtPkg + ".(*TreeNode).canDelete"); fn != nil {
				in := vpIsParam(ticketParams(fn)[0])
				var bools []*ssa.Parameter
				for _, pm := range fn.Params {
					if b, ok := pm.Type().(*types.Basic); ok && b.Kind() == types.Bool {
						bools = append(bools, pm)
					}
				}
				ts := trueSites(fn, 0)
				if len(ts) == 0 || len(bools) != 2 {
					x.fail("func="+prog.FnName(fn)+" shape", x.fpos(fn), "expected (creationKnown, tombstoneKnown) parameters and a true result")
				}
				for i, s := range ts {
					k := fmt.Sprintf("func=%s true#%d", prog.FnName(fn), i+1)
					if len(bools) == 2 {
						x.guardedBool(k+" creation-known", s, []Cmp{isTrue(vpIsParam(bools[0]))})
						x.guardedBool(k+" empty-or-tombstone-unknown", s, []Cmp{{L: removedAt, R: vpNil, Want: EQ}, isFalse(vpIsParam(bools[1]))})
					}
					x.guardedBool(k+" empty-or-incoming>removedAt", s, []Cmp{{L: removedAt, R: vpNil, Want: EQ}, {L: in, R: removedAt, Want: GE}})
				}
			}
			// (i) style visibility
			maxLam := VP{"node creation lamport", func(v ssa.Value) bool {
				c, ok := prog.Strip(v).(*ssa.Call)
				return ok && prog.CallObj(c) != nil && prog.CallObj(c).Name() == "Lamport"
			}}
			for _, spec := range []string{crdtPkg + ".(*RGATreeSplitNode).canStyle", crdtPkg + ".(*TreeNode).canStyle"} {
				fn := x.fn(spec)
				if fn == nil {
					continue
				}
				in := vpIsParam(ticketParams(fn)[0])
				var lamParam *ssa.Parameter
				for _, pm := range fn.Params {
					if b, ok := pm.Type().(*types.Basic); ok && b.Kind() == types.Int64 {
						lamParam = pm
					}
				}
				ts := trueSites(fn, 0)
				if len(ts) == 0 || lamParam == nil {
					x.fail("func="+prog.FnName(fn)+" shape", x.fpos(fn), "expected a client-lamport parameter and a true result")
					continue
				}
				for i, s := range ts {
					k := fmt.Sprintf("func=%s true#%d", prog.FnName(fn), i+1)
					x.guardedBool(k+" node-existed-for-the-editor", s, []Cmp{{L: maxLam, R: vpIsParam(lamParam), Want: LE}})
					x.guardedBool(k+" alive-or-incoming>removedAt", s, []Cmp{{L: removedAt, R: vpNil, Want: EQ}, {L: in, R: removedAt, Want: GE}})
				}
			}
		}})

	register(&Rule{ID: "O2.rga", Min: 2, Text: "RGA insertion rule: the skip loops of RGATreeList.findNextBeforeExecutedAt, RGATreeSplit.findNodeWithSplit and Tree.FindTreeNodesWithSplitText (step 04, over the tombstone-inclusive sibling list) continue exactly on the edge where the right neighbour's position/creation ticket is After the inserting ticket parameter and leave on the other edge",
		Run: func(x *Ctx) {
			for _, spec := range []string{crdtPkg + ".(*RGATreeList).findNextBeforeExecutedAt", crdtPkg + ".(*RGATreeSplit).findNodeWithSplit", crdtPkg + ".(*Tree).FindTreeNodesWithSplitText"} {
				fn := x.fn(spec)
				if fn == nil {
					continue
				}
				tps := ticketParams(fn)
				if len(tps) == 0 {
					x.fail("func="+prog.FnName(fn)+" ticket-parameter", x.fpos(fn), "no inserting-ticket parameter")
					continue
				}
				in := vpIsParam(tps[len(tps)-1])
				isList := strings.Contains(spec, "RGATreeList")
				isTree := strings.Contains(spec, "(*Tree)")
				inclusive := func(c ssa.CallInstruction) bool {
					args := c.Common().Args
					sl, ok := args[len(args)-1].(*ssa.Slice)
					if !ok {
						return false
					}
					al, isA := sl.X.(*ssa.Alloc)
					if !isA {
						return false
					}
					for _, r := range *al.Referrers() {
						if ia, isIA := r.(*ssa.IndexAddr); isIA {
							for _, rr := range *ia.Referrers() {
								if st, isSt := rr.(*ssa.Store); isSt && vpTrue.match(st.Val) {
									return true
								}
							}
						}
					}
					return false
				}
				var scanned []ssa.CallInstruction
				neighbour := VP{"right neighbour's ticket", func(v ssa.Value) bool {
					fromNext := prog.DependsOn(v, func(w ssa.Value) bool {
						if isTree {
							c, ok := prog.Strip(w).(*ssa.Call)
							if ok && prog.CallObj(c) != nil && prog.CallObj(c).Name() == "Children" {
								scanned = append(scanned, c)
								return true
							}
							return false
						}
						f := prog.LoadedField(w)
						return f != nil && f.Name() == "next"
					})
					if !fromNext {
						return false
					}
					if !isList {
						return true
					}
					// array slots move: the ticket that orders a slot is its position stamp
					// (PositionedAt: movedAt if set, else createdAt), not the element's creation ticket
					c, ok := prog.Strip(v).(*ssa.Call)
					if ok {
						name := ""
						if c.Call.IsInvoke() {
							name = c.Call.Method.Name()
						} else if o := prog.CallObj(c); o != nil {
							name = o.Name()
						}
						return name == "PositionedAt"
					}
					if ph, ok := prog.Strip(v).(*ssa.Phi); ok {
						return len(ph.Edges) >= 2
					}
					return false
				}}
				found, ok := false, false
				where := x.fpos(fn)
				for _, b := range fn.Blocks {
					iff := prog.IfOf(b)
					if iff == nil {
						continue
					}
					r, isCmp := relOnTrue(iff.Cond, neighbour, in, nil)
					if !isCmp {
						continue
					}
					found = true
					where = x.P.InstrPos(iff)
					var cont, exit *ssa.BasicBlock
					switch r {
					case GT, GE: // tickets of distinct operations are never equal
						cont, exit = b.Succs[0], b.Succs[1]
					case LE, LT:
						cont, exit = b.Succs[1], b.Succs[0]
					default:
						continue
					}
					loops := cont == b || prog.ReachableFrom(cont, nil)[b] || cont == b
					// the exit edge must not come back to the test
					leaves := !(exit == b) && !reachesAvoiding(exit, b, cont)
					if loops && leaves {
						ok = true
						// nothing else decides the skip: every other test that can leave this loop is the end of the chain
						// (the neighbour pointer is nil, the index reached the length) — not a property of the neighbour
						for _, l := range prog.Loops(fn) {
							if !l.Body[b] {
								continue
							}
							for lb := range l.Body {
								liff := prog.IfOf(lb)
								if liff == nil || lb == b || (l.Body[lb.Succs[0]] && l.Body[lb.Succs[1]]) {
									continue
								}
								endOfChain := false
								if bo, isBO := liff.Cond.(*ssa.BinOp); isBO {
									switch bo.Op {
									case token.EQL, token.NEQ:
										// nil test of a value of the node type the loop walks (not of a ticket or flag of the neighbour)
										for _, pair := range [][2]ssa.Value{{bo.X, bo.Y}, {bo.Y, bo.X}} {
											if prog.IsNilConst(pair[1]) {
												if f := prog.LoadedField(pair[0]); f != nil && f.Name() == "next" {
													endOfChain = true
												}
											}
										}
									case token.LSS, token.GEQ, token.GTR, token.LEQ:
										// index against len(...)
										for _, side := range []ssa.Value{bo.X, bo.Y} {
											if c, isC := prog.Strip(side).(*ssa.Call); isC {
												if bi, isB := c.Call.Value.(*ssa.Builtin); isB && bi.Name() == "len" {
													endOfChain = true
												}
											}
										}
									}
								}
								x.check(endOfChain, fmt.Sprintf("func=%s other-loop-exit@%s only-the-end-of-the-chain", prog.FnName(fn), condText(liff.Cond)), x.P.InstrPos(liff),
									"the only other way out of the skip loop is the end of the chain", "the skip loop is also left on a test of something else than the neighbour's ticket (its tombstone, a flag): whether a concurrent sibling is skipped then depends on what this replica has already applied or purged, and replicas order concurrent inserts differently")
							}
						}
					}
				}
				_ = found
				if isTree {
					incl := len(scanned) > 0
					for _, c := range scanned {
						if !inclusive(c) {
							incl = false
						}
					}
					x.check(incl, "func="+prog.FnName(fn)+" scans-siblings-including-removed", x.fpos(fn), "the sibling list includes tombstones", "the scan over concurrent siblings no longer includes removed ones: a replica that still holds a tombstone and one that purged it order a concurrent insert differently")
				}
				x.check(ok, "func="+prog.FnName(fn)+" skip-while-neighbour-After-incoming", where,
					"the loop skips exactly the neighbours whose ticket is After the inserting one",
					"the skip loop does not continue exactly while neighbour.After(incoming): concurrent inserts at one position are ordered differently on different replicas")
			}
		}})
}

// condText names a condition for an obligation key without positions: the operator and the field names involved.
func condText(v ssa.Value) string {
	var parts []string
	seen := map[ssa.Value]bool{}
	var walk func(w ssa.Value, d int)
	walk = func(w ssa.Value, d int) {
		if w == nil || seen[w] || d > 6 {
			return
		}
		seen[w] = true
		if f := prog.LoadedField(w); f != nil {
			parts = append(parts, f.Name())
		}
		switch t := w.(type) {
		case *ssa.BinOp:
			parts = append(parts, t.Op.String())
			walk(t.X, d+1)
			walk(t.Y, d+1)
		case *ssa.UnOp:
			walk(t.X, d+1)
		case *ssa.FieldAddr:
			walk(t.X, d+1)
		case *ssa.Call:
			if o := prog.CallObj(t); o != nil {
				parts = append(parts, o.Name()+"()")
			} else if bi, ok := t.Call.Value.(*ssa.Builtin); ok {
				parts = append(parts, bi.Name()+"()")
			}
			for _, a := range t.Call.Args {
				walk(a, d+1)
			}
		case *ssa.Const:
			if t.IsNil() {
				parts = append(parts, "nil")
			}
		}
	}
	walk(v, 0)
	return strings.Join(parts, ".")
}

// reachesAvoiding: from `from`, is `target` reachable without passing `avoid`?
func reachesAvoiding(from, target, avoid *ssa.BasicBlock) bool {
	seen := map[*ssa.BasicBlock]bool{avoid: true}
	q := []*ssa.BasicBlock{from}
	for len(q) > 0 {
		b := q[len(q)-1]
		q = q[:len(q)-1]
		if seen[b] {
			continue
		}
		seen[b] = true
		if b == target {
			return true
		}
		q = append(q, b.Succs...)
	}
	return false
}

// phiConstEdges walks the (nested) phi edges of v and calls f for every incoming
// edge that carries a non-phi value.
func phiEdges(v ssa.Value, f func(val ssa.Value, edge prog.Edge), seen map[*ssa.Phi]bool) {
	ph, ok := v.(*ssa.Phi)
	if !ok || seen[ph] {
		return
	}
	seen[ph] = true
	for i, e := range ph.Edges {
		if q, isPhi := e.(*ssa.Phi); isPhi {
			phiEdges(q, f, seen)
			continue
		}
		f(e, prog.Edge{From: ph.Block().Preds[i], To: ph.Block()})
	}
}

// edgeGuarded: is the CFG edge reachable from the function entry only through a
// guard edge of cmps?
func edgeGuarded(fn *ssa.Function, e prog.Edge, cmps []Cmp) bool {
	guards, _ := GuardEdges(fn, cmps, nil)
	cut := map[prog.Edge]bool{}
	for g := range guards {
		cut[g] = true
	}
	if len(cut) == 0 {
		return false
	}
	if cut[e] {
		return true
	}
	if e.From == fn.Blocks[0] {
		return false
	}
	return !prog.ReachableFrom(fn.Blocks[0], cut)[e.From]
}

func init() {
	register(&Rule{ID: "VIS", Min: 10, Text: "visibility is decided from the operation's own version vector: the 'client lamport at change' handed to canStyle (Text.Style/RemoveStyle, Tree.Style/RemoveStyle) is MaxLamport only on the edge where the vector is empty (a local edit), the vector's entry for the node's creator only on the found edge, and 0 when the creator is absent; the creationKnown/tombstoneKnown flags handed to the text-node Remove are true only on the edge where the vector is empty or the vector's entry for the ticket's actor is >= the ticket's lamport; tree's ticketKnown is true only on those edges too",
		Run: func(x *Ctx) {
			maxLam, okM := x.constInt(timePkg + ".MaxLamport")
			if !okM {
				return
			}
			vvT := x.P.Named(timePkg + ".VersionVector")
			getM := x.P.FnObj(timePkg + ".VersionVector.Get")
			emptyVV := func(fn *ssa.Function) []Cmp {
				lenVV := VP{"len(versionVector)", func(v ssa.Value) bool {
					c, ok := prog.Strip(v).(*ssa.Call)
					if !ok {
						return false
					}
					b, ok := c.Call.Value.(*ssa.Builtin)
					return ok && b.Name() == "len" && isNamed(c.Call.Args[0].Type(), vvT)
				}}
				// or a boolean variable (possibly captured by a closure) holding len(vector) == 0
				flag := VP{"vector-is-empty flag", func(v ssa.Value) bool {
					if _, isCmp := v.(*ssa.BinOp); isCmp {
						return false // handled by the direct form
					}
					return prog.Reaches(v, func(w ssa.Value) bool {
						b, ok := w.(*ssa.BinOp)
						if !ok || b.Op != token.EQL {
							return false
						}
						z, isZ := prog.IntConst(b.Y)
						return isZ && z == 0 && lenVV.match(b.X)
					})
				}}
				return []Cmp{{L: lenVV, R: vpConst(0), Want: EQ}, isTrue(flag)}
			}
			found := VP{"vector.Get ok", func(v ssa.Value) bool {
				ex, ok := v.(*ssa.Extract)
				if !ok || ex.Index != 1 {
					return false
				}
				c, ok := ex.Tuple.(*ssa.Call)
				return ok && sameFunc(prog.CallObj(c), getM)
			}}
			entry := VP{"vector[actor]", func(v ssa.Value) bool {
				ex, ok := v.(*ssa.Extract)
				if !ok || ex.Index != 0 {
					return false
				}
				c, ok := ex.Tuple.(*ssa.Call)
				return ok && sameFunc(prog.CallObj(c), getM)
			}}
			lamportOf := VP{"ticket.Lamport()", func(v ssa.Value) bool {
				c, ok := prog.Strip(v).(*ssa.Call)
				return ok && prog.CallObj(c) != nil && prog.CallObj(c).Name() == "Lamport"
			}}
			// leaves of a value: what it can be and where it comes from. A leaf is a value with the phi edge
			// that carries it (nil edge: the value is used as it is, at instruction `at`). A call of a function
			// of the model that takes the vector is looked through: its returned values are the leaves,
			// located inside the callee (helpers like "lamport at change" or "ticket known").
			type leaf struct {
				fn   *ssa.Function
				val  ssa.Value
				edge *prog.Edge
				at   ssa.Instruction
			}
			takesVV := func(f *ssa.Function) bool {
				for _, pm := range f.Params {
					if isNamed(pm.Type(), vvT) {
						return true
					}
				}
				return false
			}
			var leavesOf func(fn *ssa.Function, v ssa.Value, at ssa.Instruction, edge *prog.Edge, depth int, out *[]leaf)
			leavesOf = func(fn *ssa.Function, v ssa.Value, at ssa.Instruction, edge *prog.Edge, depth int, out *[]leaf) {
				if depth > 6 {
					*out = append(*out, leaf{fn, v, edge, at})
					return
				}
				switch t := v.(type) {
				case *ssa.Phi:
					for i, e := range t.Edges {
						pred := t.Block().Preds[i]
						ed := prog.Edge{From: pred, To: t.Block()}
						leavesOf(fn, e, pred.Instrs[len(pred.Instrs)-1], &ed, depth+1, out)
					}
					return
				case *ssa.Call:
					if callee := t.Call.StaticCallee(); callee != nil && len(callee.Blocks) > 0 && strings.HasSuffix(prog.PkgOf(callee), "/"+crdtPkg) && takesVV(callee) && callee.Signature.Results().Len() == 1 {
						for _, r := range prog.Returns(callee) {
							leavesOf(callee, prog.ReturnValue(r, 0), r, nil, depth+1, out)
						}
						return
					}
				case *ssa.UnOp:
					// a local variable assigned on several paths
					if a, ok := t.X.(*ssa.Alloc); ok && t.Op == token.MUL {
						for _, r := range *a.Referrers() {
							if st, isSt := r.(*ssa.Store); isSt && st.Addr == ssa.Value(a) {
								leavesOf(fn, st.Val, st, nil, depth+1, out)
							}
						}
						return
					}
				}
				*out = append(*out, leaf{fn, v, edge, at})
			}
			leafGuarded := func(l leaf, cmps []Cmp) bool {
				if l.edge != nil {
					return edgeGuarded(l.fn, *l.edge, cmps)
				}
				return x.quietGuarded(l.at, cmps)
			}
			coveredCmp := Cmp{L: entry, R: lamportOf, Want: GE}
			n := 0
			for _, fn := range x.P.FuncsIn(crdtPkg) {
				if o := fn.Origin(); o != nil && o != fn {
					continue
				}
				for _, c := range prog.CallsIn(fn) {
					o := prog.CallObj(c)
					if o == nil {
						continue
					}
					switch o.Name() {
					case "canStyle":
						arg := c.Common().Args[len(c.Common().Args)-1]
						n++
						k := fmt.Sprintf("func=%s canStyle#%d", prog.FnName(fn), n)
						okMax, okEntry, okZero, other := true, true, false, ""
						sawMax, sawEntry := false, false
						var ls []leaf
						leavesOf(fn, arg, c, nil, 0, &ls)
						for _, l := range ls {
							if kv, isK := prog.IntConst(l.val); isK {
								switch kv {
								case maxLam:
									sawMax = true
									if !leafGuarded(l, emptyVV(l.fn)) {
										okMax = false
									}
								case 0:
									okZero = true
								default:
									other = fmt.Sprint(kv)
								}
								continue
							}
							if entry.match(l.val) {
								sawEntry = true
								if !leafGuarded(l, []Cmp{isTrue(found)}) {
									okEntry = false
								}
								continue
							}
							other = l.val.String()
						}
						x.check(sawMax && okMax, k+" MaxLamport-only-for-empty-vector", x.pos(c), "everything is visible only to a local edit", "MaxLamport (everything visible) is used on an edge where the operation's version vector is not empty: a remote style is applied to nodes its author never saw")
						x.check(sawEntry && okEntry, k+" entry-only-when-found", x.pos(c), "the creator's entry is used when present", "the creator's entry is not taken from the vector on the found edge")
						x.check(okZero && other == "", k+" absent-creator-is-0", x.pos(c), "an absent creator means nothing of it was seen", "a creator absent from the version vector does not map to 0 (found: "+other+"): nodes its author never saw count as seen")
					case "Remove":
						// text-node Remove(editedAt, creationKnown, tombstoneKnown)
						if len(c.Common().Args) != 4 {
							continue
						}
						if !isBoolType(c.Common().Args[2].Type()) || !isBoolType(c.Common().Args[3].Type()) {
							continue
						}
						for idx, what := range map[int]string{2: "creationKnown", 3: "tombstoneKnown"} {
							n++
							k := fmt.Sprintf("func=%s Remove-arg=%s", prog.FnName(fn), what)
							okTrue, saw := true, false
							var ls []leaf
							leavesOf(fn, c.Common().Args[idx], c, nil, 0, &ls)
							for _, l := range ls {
								if kc, isK := l.val.(*ssa.Const); isK {
									if vpTrue.match(kc) {
										saw = true
										if !leafGuarded(l, append(emptyVV(l.fn), coveredCmp)) {
											okTrue = false
										}
									}
									continue
								}
								// a condition used as the value: it must itself say "local" or "covered"
								// (or be reached only where that is already established)
								saw = true
								implied := false
								for _, cm := range append(emptyVV(l.fn), coveredCmp) {
									if r, ok := relOnTrue(l.val, cm.L, cm.R, nil); ok && implies(r, cm.Want) {
										implied = true
									}
								}
								if !implied && !leafGuarded(l, append(emptyVV(l.fn), coveredCmp)) {
									okTrue = false
								}
							}
							x.check(saw && okTrue, k+" true-only-if-local-or-covered", x.pos(c), "the flag is true only for a local edit or when the vector covers the ticket",
								"the "+what+" flag can be true although the operation's version vector does not cover the ticket: a delete removes text its author never saw (or overwrites a tombstone it knew)")
						}
					}
				}
			}
			if fn := x.fn(crdtPkg + ".ticketKnown"); fn != nil {
				for i, s := range trueSites(fn, 0) {
					n++
					x.guardedBool(fmt.Sprintf("func=%s true#%d local-or-covered", prog.FnName(fn), i+1), s, append(emptyVV(fn), Cmp{L: entry, R: lamportOf, Want: GE}))
				}
			}
		}})
}

func init() {
	register(&Rule{ID: "VV.pass", Min: 25, Text: "the operation's version vector is threaded unchanged: in pkg/document (change, operations, crdt, document) a function that receives a time.VersionVector (as a parameter or, for a closure, from its enclosing function) and calls something that takes one passes its own — never nil, an empty vector or another vector; a callee that silently runs 'as if local' treats every node as known and drops the concurrency guards on one replica only. Functions that have no vector of their own are the origins and are listed",
		Run: func(x *Ctx) {
			vvT := x.P.Named(timePkg + ".VersionVector")
			if vvT == nil {
				x.C.Unresolved(x.id(), timePkg+".VersionVector")
				return
			}
			isVV := func(t types.Type) bool { return isNamed(t, vvT) }
			n := 0
			origins := map[string]int{}
			for _, fn := range x.P.FuncsIn(crdtPkg, opsPkg, docPkg, "pkg/document/change") {
				if o := fn.Origin(); o != nil && o != fn {
					continue
				}
				if strings.Contains(prog.FnName(fn), "change.ID)") {
					continue // clock arithmetic of the change ID itself (K.vv), not the hand-off of an operation's vector
				}
				// the function's own vectors: parameters and free variables (transitively: a closure's free var is the parent's parameter)
				own := func(v ssa.Value) bool {
					return prog.Reaches(v, func(w ssa.Value) bool {
						switch t := w.(type) {
						case *ssa.Parameter:
							return isVV(t.Type())
						case *ssa.FreeVar:
							if isVV(t.Type()) {
								return true
							}
							if pt, ok := t.Type().(*types.Pointer); ok && isVV(pt.Elem()) {
								return true
							}
						}
						return false
					})
				}
				has := false
				for _, pm := range fn.Params {
					if isVV(pm.Type()) {
						has = true
					}
				}
				for _, fv := range fn.FreeVars {
					if isVV(fv.Type()) {
						has = true
					} else if pt, ok := fv.Type().(*types.Pointer); ok && isVV(pt.Elem()) {
						has = true
					}
				}
				cnt := map[string]int{}
				for _, c := range prog.CallsIn(fn) {
					cc := c.Common()
					if _, isB := cc.Value.(*ssa.Builtin); isB {
						continue
					}
					name := "dynamic"
					if cc.IsInvoke() {
						name = cc.Method.Name()
					} else if o := prog.CallObj(c); o != nil {
						name = o.Name()
					}
					args := cc.Args
					for j, a := range args {
						if !isVV(a.Type()) {
							continue
						}
						if !cc.IsInvoke() && j == 0 && cc.Signature().Recv() != nil {
							continue // a method of the vector itself
						}
						if !has {
							origins[prog.FnName(fn)+" → "+name]++
							continue
						}
						n++
						cnt[name]++
						x.check(own(a), fmt.Sprintf("func=%s call=%s#%d passes-own-vector", prog.FnName(fn), name, cnt[name]), x.pos(c),
							"the callee receives the caller's own version vector", "the callee is handed "+a.String()+" instead of the version vector this function received: on the replica that applies the operation remotely the callee runs as if the edit were local")
					}
				}
			}
			x.C.Count("version-vector hand-offs", n)
			// the origin of a remote operation's vector: Change.Execute hands every operation the vector of the change's own ID
			if ce := x.fn("pkg/document/change.(*Change).Execute"); ce != nil {
				idVV := x.P.Field("pkg/document/change.ID.versionVector")
				i := 0
				for _, c := range prog.CallsIn(ce) {
					cc := c.Common()
					if !cc.IsInvoke() || cc.Method.Name() != "Execute" {
						continue
					}
					for _, a := range cc.Args {
						if !isVV(a.Type()) {
							continue
						}
						i++
						ok := idVV != nil && (prog.LoadedField(a) == idVV || isFieldVal(a, idVV)) && prog.DependsOn(a, func(w ssa.Value) bool { return w == ssa.Value(ce.Params[0]) })
						x.check(ok, fmt.Sprintf("func=%s operation#%d gets-the-change's-own-vector", prog.FnName(ce), i), x.pos(c),
							"each operation is executed with the version vector of the change that carries it", "an operation is executed with a vector other than its change's ID.versionVector")
					}
				}
				if i == 0 {
					x.fail("func="+prog.FnName(ce)+" executes-operations", x.fpos(ce), "Change.Execute no longer hands a version vector to Operation.Execute")
				}
			}
			keys := make([]string, 0, len(origins))
			for k := range origins {
				keys = append(keys, k)
			}
			sort.Strings(keys)
			for _, k := range keys {
				x.C.Add(obTrivial(x.id(), "origin="+k, "", "the function has no vector of its own: it originates one (local edit: nil; remote change: the change's vector)"))
			}
		}})
}

func init() {
	register(&Rule{ID: "VIS.collect", Min: 5, Text: "what a tree edit collects is decided from the editor's knowledge: in Tree.collectBetween (and its traversal callback) every append to a collection that the function returns (nodes to remove, children to move, nodes to merge) is control-dependent on a decision computed from the operation's version vector (ticketKnown / canDelete's creationKnown, tombstoneKnown): a node the editor had never seen is not merged, moved or removed just because it lies in the range on this replica",
		Run: func(x *Ctx) {
			fn := x.fn(crdtPkg + ".(*Tree).collectBetween")
			vvT := x.P.Named(timePkg + ".VersionVector")
			if fn == nil || vvT == nil {
				x.C.Unresolved(x.id(), "Tree.collectBetween")
				return
			}
			consults := func(v ssa.Value) bool {
				return prog.DependsOn(v, func(w ssa.Value) bool {
					c, ok := prog.Strip(w).(*ssa.Call)
					if !ok {
						return false
					}
					for _, a := range c.Call.Args {
						if isNamed(a.Type(), vvT) {
							return true
						}
					}
					return false
				})
			}
			n := 0
			var fns []*ssa.Function
			made := map[*ssa.Function]*ssa.MakeClosure{}
			var addFn func(f *ssa.Function)
			addFn = func(f *ssa.Function) {
				for _, g := range fns {
					if g == f {
						return
					}
				}
				fns = append(fns, f)
				for _, b := range f.Blocks {
					for _, ins := range b.Instrs {
						if mc, ok := ins.(*ssa.MakeClosure); ok {
							if g, isF := mc.Fn.(*ssa.Function); isF {
								made[g] = mc
								addFn(g)
							}
						}
					}
				}
			}
			addFn(fn)
			cnt := map[string]int{}
			for _, f := range fns {
				for _, c := range builtinCalls(f, "append") {
					// destination: the variable the result is stored to
					dst := ""
					for _, r := range *c.Value().Referrers() {
						if st, ok := r.(*ssa.Store); ok {
							switch a := st.Addr.(type) {
							case *ssa.FreeVar:
								dst = a.Name()
							case *ssa.Alloc:
								dst = a.Comment
							}
						}
					}
					if dst == "" {
						continue
					}
					n++
					cnt[dst]++
					ok := false
					// the site's own control dependences, then those of the place where its closure is made
					for at := c.Block(); at != nil; {
						for _, ifi := range x.P.ControlDeps(at) {
							if consults(ifi.Cond) {
								ok = true
							}
						}
						mc := made[at.Parent()]
						if mc == nil {
							break
						}
						at = mc.Block()
					}
					x.check(ok, fmt.Sprintf("func=%s collect=%s#%d decided-from-version-vector", prog.FnName(fn), dst, cnt[dst]), x.pos(c),
						"the node is collected under a decision that consults the operation's version vector", "a node is added to "+dst+" without any decision that consults the operation's version vector: nodes the editor never saw (concurrent splits/inserts) are merged, moved or removed on this replica only")
				}
			}
			if n < 5 {
				x.C.Vacuous(x.id()+" collection sites", n, 5)
			}
		}})
}

func init() {
	register(&Rule{ID: "CNT.add", Min: 2, Text: "counters commute: in Counter.Increase every numeric branch stores exactly (current value + operand) — the two's-complement addition of the loaded value and the converted operand, with no clamping, saturation or other adjustment chosen by a comparison; replicas apply the same increments in different orders, and any non-associative correction (pinning at MaxInt64) makes the result depend on that order",
		Run: func(x *Ctx) {
			fn := x.fn(crdtPkg + ".(*Counter).Increase")
			valF := x.P.Field(crdtPkg + ".Counter.value")
			if fn == nil || valF == nil {
				x.C.Unresolved(x.id(), "Counter.Increase / Counter.value")
				return
			}
			n := 0
			for _, st := range storesTo(fn, valF) {
				n++
				v := st.Val
				if mi, ok := v.(*ssa.MakeInterface); ok {
					v = mi.X
				}
				v = prog.Strip(v)
				bo, ok := v.(*ssa.BinOp)
				pure := ok && bo.Op == token.ADD
				if pure {
					// one operand is the current value
					cur := func(w ssa.Value) bool {
						return prog.DependsOn(w, func(u ssa.Value) bool { return prog.LoadedField(u) == valF })
					}
					pure = cur(bo.X) != cur(bo.Y)
				}
				x.check(pure, fmt.Sprintf("func=%s store#%d value=current+operand", prog.FnName(fn), n), x.pos(st), "the new value is the plain sum", "the counter's new value is not the plain sum of the current value and the operand (a selected, clamped or otherwise adjusted value is stored): increments no longer commute")
			}
			if n < 2 {
				x.C.Vacuous(x.id()+" stores", n, 2)
			}
		}})
}
