// Package rules holds the repository-specific rules and the property mapping.
package rules

import (
	"fmt"
	"sort"

	"yv/internal/prog"
	"yv/internal/report"

	"golang.org/x/tools/go/ssa"
)

// Ctx is what a rule runs against.
type Ctx struct {
	P    *prog.Program
	C    *report.Collector
	Tier string
	rule *Rule
}

// Rule is one named rule with its vacuity guard.
type Rule struct {
	ID   string
	Text string // the rule, in words (goes into the evidence)
	Min  int    // instances confirmed by hand on the pinned tree
	Run  func(*Ctx)
}

// Property maps a property to its rules.
type Property struct {
	ID          string
	Rules       []string
	Explanation string
	Assumptions []string
}

var registry = map[string]*Rule{}
var properties = map[string]*Property{}

func register(r *Rule) {
	if _, dup := registry[r.ID]; dup {
		panic("duplicate rule " + r.ID)
	}
	registry[r.ID] = r
}

func property(p *Property) { properties[p.ID] = p }

// Properties lists the claimed property ids.
func Properties() []string {
	var out []string
	for id := range properties {
		out = append(out, id)
	}
	sort.Strings(out)
	return out
}

// Get returns a property definition.
func Get(id string) *Property { return properties[id] }

// RuleText returns id -> text for the rules of a property.
func RuleText(p *Property) map[string]string {
	m := map[string]string{}
	for _, id := range p.Rules {
		if r := registry[id]; r != nil {
			m[id] = r.Text
		}
	}
	return m
}

// Run executes the rules of a property.
func Run(p *prog.Program, prop *Property, tier string) *report.Collector {
	c := report.New()
	for _, id := range prop.Rules {
		r := registry[id]
		if r == nil {
			c.Errors = append(c.Errors, "INTERNAL unknown rule "+id)
			continue
		}
		before := len(c.Obs)
		func() {
			defer func() {
				if e := recover(); e != nil {
					c.Errors = append(c.Errors, fmt.Sprintf("PANIC rule=%s: %v", id, e))
				}
			}()
			r.Run(&Ctx{P: p, C: c, Tier: tier, rule: r})
		}()
		// obligations are prefixed by rule id
		n := 0
		for _, o := range c.Obs[before:] {
			if o.Status != report.Undecided {
				n++
			}
		}
		if n < r.Min {
			c.Vacuous(id, n, r.Min)
		}
	}
	c.Count("root_packages", p.Roots)
	c.Count("packages_total", p.Total)
	c.Count("production_functions", len(p.ProdFuncs()))
	return c
}

// ---------------------------------------------------------------------------
// helpers used by the rules
// ---------------------------------------------------------------------------

func (x *Ctx) id() string { return x.rule.ID }

// fn resolves a function anchor or records it as unresolved.
func (x *Ctx) fn(spec string) *ssa.Function {
	f := x.P.Fn(spec)
	if f == nil || f.Blocks == nil {
		x.C.Unresolved(x.id(), spec)
		return nil
	}
	return f
}

func (x *Ctx) hold(key, pos, detail string)  { x.C.Hold(x.id(), key, pos, detail) }
func (x *Ctx) fail(key, pos, detail string)  { x.C.Fail(x.id(), key, pos, detail) }
func (x *Ctx) undec(key, pos, detail string) { x.C.Undecided(x.id(), key, pos, detail) }
func (x *Ctx) check(ok bool, key, pos, held, violated string) {
	x.C.Check(ok, x.id(), key, pos, held, violated)
}
func (x *Ctx) pos(ins ssa.Instruction) string { return x.P.InstrPos(ins) }
func (x *Ctx) fpos(fn *ssa.Function) string   { return x.P.Pos(fn.Pos()) }

type reportOb = report.Obligation
