package rules

import (
	"fmt"
	"go/token"
	"go/types"

	"yv/internal/prog"

	"golang.org/x/tools/go/ssa"
)

const (
	timePkg   = "pkg/document/time"
	changePkg = "pkg/document/change"
)

// builtinCalls lists calls of the named builtin in fn.
func builtinCalls(fn *ssa.Function, name string) []*ssa.Call {
	var out []*ssa.Call
	for _, c := range prog.CallsIn(fn) {
		if call, ok := c.(*ssa.Call); ok {
			if b, ok := call.Call.Value.(*ssa.Builtin); ok && b.Name() == name {
				out = append(out, call)
			}
		}
	}
	return out
}

// fieldOfBase: a load of field f from exactly the base value (parameter).
func vpFieldOfParam(f *types.Var, pm *ssa.Parameter) VP {
	return vpFieldOf(f, VP{"param " + pm.Name(), func(v ssa.Value) bool {
		return prog.Reaches(v, func(w ssa.Value) bool { return w == ssa.Value(pm) })
	}})
}

// isPlusOne: v == base + 1 with base matching p.
func isPlusOne(v ssa.Value, p VP) bool {
	b, ok := prog.Strip(v).(*ssa.BinOp)
	if !ok || b.Op != token.ADD {
		return false
	}
	if k, isK := prog.IntConst(b.Y); isK && k == 1 && p.match(b.X) {
		return true
	}
	if k, isK := prog.IntConst(b.X); isK && k == 1 && p.match(b.Y) {
		return true
	}
	return false
}

// isMaxOf: v is the builtin max(a, b) with {a,b} matching {p, q} in any order.
func isMaxOf(v ssa.Value, p, q VP) bool {
	c, ok := prog.Strip(v).(*ssa.Call)
	if !ok {
		return false
	}
	b, ok := c.Call.Value.(*ssa.Builtin)
	if !ok || b.Name() != "max" || len(c.Call.Args) != 2 {
		return false
	}
	a0, a1 := c.Call.Args[0], c.Call.Args[1]
	return (p.match(a0) && q.match(a1)) || (p.match(a1) && q.match(a0))
}

func init() {
	register(&Rule{ID: "K.compare", Min: 10, Text: "total order of identities: Ticket.Compare decides on all three identity components of both operands (lamport, actorID, delimiter); it returns a positive constant only on an edge where receiver.lamport > other.lamport or receiver.delimiter > other.delimiter and a negative one only on the mirrored edges; the actor tie-break compares receiver first; Ticket.After is Compare(receiver, other) > 0; ActorID.Compare compares receiver bytes first; the map keys of tickets (Ticket.Key) depend on all three components",
		Run: func(x *Ctx) {
			fn := x.fn(timePkg + ".(*Ticket).Compare")
			if fn == nil {
				return
			}
			recv, other := fn.Params[0], fn.Params[1]
			lam := x.P.Field(timePkg + ".Ticket.lamport")
			act := x.P.Field(timePkg + ".Ticket.actorID")
			del := x.P.Field(timePkg + ".Ticket.delimiter")
			actorGetter := x.P.FnObj(timePkg + ".(*Ticket).ActorID")
			if lam == nil || act == nil || del == nil {
				x.C.Unresolved(x.id(), "Ticket.lamport/actorID/delimiter")
				return
			}
			k := "func=" + prog.FnName(fn)
			// component dependence: each (operand, field) reaches an If condition or a returned value
			var sinks []ssa.Value
			for _, b := range fn.Blocks {
				if iff := prog.IfOf(b); iff != nil {
					sinks = append(sinks, iff.Cond)
				}
			}
			for _, r := range prog.Returns(fn) {
				sinks = append(sinks, r.Results...)
			}
			for _, op := range []*ssa.Parameter{recv, other} {
				for _, f := range []*types.Var{lam, act, del} {
					pat := vpFieldOfParam(f, op)
					viaGetter := VP{"getter", func(v ssa.Value) bool {
						c, ok := v.(*ssa.Call)
						return ok && f == act && actorGetter != nil && sameFunc(prog.CallObj(c), actorGetter) && len(c.Call.Args) > 0 && c.Call.Args[0] == ssa.Value(op)
					}}
					ok := false
					for _, s := range sinks {
						if prog.DependsOn(s, func(v ssa.Value) bool { return pat.match(v) || viaGetter.match(v) }) {
							ok = true
						}
					}
					x.check(ok, fmt.Sprintf("%s uses %s.%s", k, op.Name(), f.Name()), x.fpos(fn), "the component takes part in the decision",
						"the comparison ignores "+f.Name()+" of "+op.Name()+": distinct tickets tie and last-writer-wins registers resolve by arrival order")
				}
			}
			// polarity of the constant returns
			gtCmps := []Cmp{{L: vpFieldOfParam(lam, recv), R: vpFieldOfParam(lam, other), Want: GT}, {L: vpFieldOfParam(del, recv), R: vpFieldOfParam(del, other), Want: GT}}
			ltCmps := []Cmp{{L: vpFieldOfParam(lam, recv), R: vpFieldOfParam(lam, other), Want: LT}, {L: vpFieldOfParam(del, recv), R: vpFieldOfParam(del, other), Want: LT}}
			npos, nneg := 0, 0
			for _, r := range prog.Returns(fn) {
				c, isC := prog.IntConst(r.Results[0])
				switch {
				case isC && c > 0:
					npos++
					x.guardedSite(fmt.Sprintf("%s return-positive#%d", k, npos), r, gtCmps, nil)
				case isC && c < 0:
					nneg++
					x.guardedSite(fmt.Sprintf("%s return-negative#%d", k, nneg), r, ltCmps, nil)
				case isC && c == 0:
					// equal only when no component differs: not reachable from any strict edge of lamport/delimiter
					x.rejectOn(k+" return-zero-not-on-lamport-greater", r, gtCmps[0])
					x.rejectOn(k+" return-zero-not-on-lamport-less", r, ltCmps[0])
				default:
					// the actor tie-break: ActorID.Compare(receiver.actorID, other.actorID)
					call, ok := prog.Strip(r.Results[0]).(*ssa.Call)
					okOrient := false
					if ok && isCompareFn(call) {
						a, b, _ := twoOperands(call)
						fromRecv := func(v ssa.Value) bool {
							return prog.DependsOn(v, func(w ssa.Value) bool { return vpFieldOfParam(act, recv).match(w) })
						}
						fromOther := func(v ssa.Value) bool {
							return prog.DependsOn(v, func(w ssa.Value) bool {
								if vpFieldOfParam(act, other).match(w) {
									return true
								}
								c, ok := w.(*ssa.Call)
								return ok && actorGetter != nil && sameFunc(prog.CallObj(c), actorGetter) && c.Call.Args[0] == ssa.Value(other)
							})
						}
						okOrient = a != nil && fromRecv(a) && fromOther(b)
					}
					x.check(okOrient, k+" actor-tie-break-orientation", x.pos(r), "receiver's actor is the left operand of the tie-break", "the actor tie-break does not compare (receiver, other) in that order")
					// reached only when lamports are equal
					x.rejectOn(k+" tie-break-not-on-lamport-greater", r, gtCmps[0])
					x.rejectOn(k+" tie-break-not-on-lamport-less", r, ltCmps[0])
				}
			}
			x.check(npos >= 1 && nneg >= 1, k+" has-both-signs", x.fpos(fn), "returns both signs", "Compare no longer returns both a positive and a negative constant")

			if after := x.fn(timePkg + ".(*Ticket).After"); after != nil {
				cmpObj := fn.Object().(*types.Func)
				ok := false
				for _, r := range prog.Returns(after) {
					if b, isB := prog.Strip(r.Results[0]).(*ssa.BinOp); isB {
						if call, isC := prog.Strip(b.X).(*ssa.Call); isC && sameFunc(prog.CallObj(call), cmpObj) {
							if z, isZ := prog.IntConst(b.Y); isZ && z == 0 && b.Op == token.GTR &&
								call.Call.Args[0] == ssa.Value(after.Params[0]) && call.Call.Args[1] == ssa.Value(after.Params[1]) {
								ok = true
							}
						}
					}
				}
				x.check(ok, "func="+prog.FnName(after)+" is Compare(recv,other)>0", x.fpos(after), "After is strict greater-than", "Ticket.After is no longer Compare(receiver, other) > 0")
			}
			if ac := x.fn(timePkg + ".ActorID.Compare"); ac != nil {
				ok := false
				for _, r := range prog.Returns(ac) {
					if call, isC := prog.Strip(r.Results[0]).(*ssa.Call); isC && isCompareFn(call) {
						a, b, _ := twoOperands(call)
						dep := func(v ssa.Value, pm *ssa.Parameter) bool {
							return prog.DependsOn(v, func(w ssa.Value) bool { return w == ssa.Value(pm) })
						}
						if a != nil && dep(a, ac.Params[0]) && dep(b, ac.Params[1]) && !dep(a, ac.Params[1]) {
							ok = true
						}
					}
				}
				x.check(ok, "func="+prog.FnName(ac)+" orientation", x.fpos(ac), "receiver bytes first", "ActorID.Compare no longer compares (receiver, other) bytes in that order")
			}
			if key := x.fn(timePkg + ".(*Ticket).Key"); key != nil {
				ck := x.P.Field(timePkg + ".Ticket.cachedKey")
				for _, f := range []*types.Var{lam, act, del} {
					ok := false
					for _, st := range storesTo(key, ck) {
						if prog.DependsOn(st.Val, func(v ssa.Value) bool { return prog.LoadedField(v) == f }) {
							ok = true
						}
					}
					x.check(ok, "func="+prog.FnName(key)+" uses "+f.Name(), x.fpos(key), "the map key contains the component", "Ticket.Key no longer contains "+f.Name()+": distinct tickets share a map slot")
				}
			}
		}})

	register(&Rule{ID: "K.vv", Min: 8, Text: "version-vector kernels: MinVersionVector writes the constant 0 for a key some vector lacks (on the not-found edge of the lookup) and otherwise the builtin min over the found values, over the union of all keys; EqualToOrAfter is false for an absent actor and otherwise (vector[actor] >= ticket.lamport); VersionVector.Max stores max(own, other) and copies entries only the other has; MaxLamport folds with max; DeepCopy copies into a fresh map",
		Run: func(x *Ctx) {
			if fn := x.fn(timePkg + ".MinVersionVector"); fn != nil {
				k := "func=" + prog.FnName(fn)
				// the map update of the result
				var upd *ssa.MapUpdate
				for _, b := range fn.Blocks {
					for _, ins := range b.Instrs {
						if mu, ok := ins.(*ssa.MapUpdate); ok {
							if _, isInt := mu.Value.Type().Underlying().(*types.Basic); isInt {
								upd = mu
							}
						}
					}
				}
				if upd == nil {
					x.fail(k+" result-write", x.fpos(fn), "no write of a minimum into the result vector")
				} else {
					hasMin, zeroOnAbsent := false, false
					prog.Reaches(upd.Value, func(v ssa.Value) bool {
						if c, ok := v.(*ssa.Call); ok {
							if b, ok := c.Call.Value.(*ssa.Builtin); ok && b.Name() == "min" {
								// one operand is the looked-up value
								for _, a := range c.Call.Args {
									if ex, ok := a.(*ssa.Extract); ok {
										if l, ok := ex.Tuple.(*ssa.Lookup); ok && l.CommaOk && ex.Index == 0 {
											hasMin = true
										}
									}
								}
							}
						}
						if ph, ok := v.(*ssa.Phi); ok {
							for i, e := range ph.Edges {
								if z, isZ := prog.IntConst(e); isZ && z == 0 {
									// the predecessor is reachable only through the !ok edge of a comma-ok lookup
									pred := ph.Block().Preds[i]
									okv := VP{"lookup ok", func(w ssa.Value) bool {
										ex, ok := w.(*ssa.Extract)
										if !ok || ex.Index != 1 {
											return false
										}
										l, ok := ex.Tuple.(*ssa.Lookup)
										return ok && l.CommaOk
									}}
									guards, _ := GuardEdges(fn, []Cmp{isFalse(okv)}, nil)
									cut := map[prog.Edge]bool{}
									for e := range guards {
										cut[e] = true
									}
									if len(cut) > 0 && (cut[prog.Edge{From: pred, To: ph.Block()}] || !prog.ReachableFrom(fn.Blocks[0], cut)[pred]) {
										zeroOnAbsent = true
									}
								}
							}
						}
						return false
					})
					x.check(hasMin, k+" folds-with-min", x.pos(upd), "the stored value folds the found entries with min", "the stored value is no longer the min over the vectors that have the key")
					x.check(zeroOnAbsent, k+" absent-key-is-zero", x.pos(upd), "a key that some vector lacks gets 0", "a key that some vector lacks no longer gets 0 (the minimum overstates what that client has seen; its unseen tombstones get purged)")
				}
				// key union: the key set is filled from every vector (range over the variadic parameter, no filter)
				nIf := 0
				for _, b := range fn.Blocks {
					if iff := prog.IfOf(b); iff != nil {
						if _, isExtract := iff.Cond.(*ssa.Extract); isExtract {
							continue // range iteration / comma-ok
						}
						if bo, ok := iff.Cond.(*ssa.BinOp); ok {
							// loop bound i < len, and len(vectors) == 0
							if _, isLen := prog.Strip(bo.Y).(*ssa.Call); isLen {
								continue
							}
							if z, isZ := prog.IntConst(bo.Y); isZ && z == 0 {
								continue
							}
							if _, isPhiCmp := bo.X.(*ssa.BinOp); isPhiCmp {
								continue
							}
						}
						nIf++
					}
				}
				x.check(nIf == 0, k+" no-filter", x.fpos(fn), "no vector or key is filtered out", fmt.Sprintf("%d additional condition(s) filter vectors or keys out of the minimum", nIf))
			}
			if fn := x.fn(timePkg + ".VersionVector.EqualToOrAfter"); fn != nil {
				k := "func=" + prog.FnName(fn)
				lam := x.P.Field(timePkg + ".Ticket.lamport")
				act := x.P.Field(timePkg + ".Ticket.actorID")
				lookupVal := VP{"vector[ticket.actorID]", func(v ssa.Value) bool {
					ex, ok := v.(*ssa.Extract)
					if !ok || ex.Index != 0 {
						if l, ok := v.(*ssa.Lookup); ok && !l.CommaOk {
							return prog.LoadedField(l.Index) == act
						}
						return false
					}
					l, ok := ex.Tuple.(*ssa.Lookup)
					return ok && prog.LoadedField(l.Index) == act
				}}
				okRel, okAbsent := false, false
				for _, r := range prog.Returns(fn) {
					v := r.Results[0]
					if rel, found := relOnTrue(v, lookupVal, vpField(lam), nil); found && implies(rel, GE) {
						okRel = true
						continue
					}
					if c, ok := v.(*ssa.Const); ok && !vpTrue.match(c) {
						// false on the not-found edge
						okv := VP{"lookup ok", func(w ssa.Value) bool { ex, ok := w.(*ssa.Extract); return ok && ex.Index == 1 }}
						if x.quietGuarded(r, []Cmp{isFalse(okv)}) {
							okAbsent = true
						}
					}
				}
				x.check(okRel, k+" result=(vector[actor]>=lamport)", x.fpos(fn), "true only when the vector has reached the ticket", "EqualToOrAfter is no longer vector[actor] >= ticket.lamport: tombstones can be purged before every client has seen the removal")
				x.check(okAbsent, k+" absent-actor-is-false", x.fpos(fn), "an absent actor is never 'after'", "EqualToOrAfter no longer returns false for an actor the vector does not contain")
			}
			if fn := x.fn(timePkg + ".VersionVector.Max"); fn != nil {
				k := "func=" + prog.FnName(fn)
				hasMax, copies := false, false
				for _, b := range fn.Blocks {
					for _, ins := range b.Instrs {
						mu, ok := ins.(*ssa.MapUpdate)
						if !ok {
							continue
						}
						if c, ok := mu.Value.(*ssa.Call); ok {
							if bi, ok := c.Call.Value.(*ssa.Builtin); ok && bi.Name() == "max" {
								hasMax = true
							}
						}
						if ex, ok := mu.Value.(*ssa.Extract); ok {
							if _, isNext := ex.Tuple.(*ssa.Next); isNext {
								copies = true
							}
						}
					}
				}
				x.check(hasMax, k+" stores-max", x.fpos(fn), "common entries take the maximum", "VersionVector.Max no longer stores max(own, other)")
				x.check(copies, k+" copies-missing", x.fpos(fn), "entries only the other has are copied", "VersionVector.Max no longer adopts entries only the other vector has")
			}
			if fn := x.fn(timePkg + ".VersionVector.MaxLamport"); fn != nil {
				x.check(len(builtinCalls(fn, "max")) > 0, "func="+prog.FnName(fn)+" folds-with-max", x.fpos(fn), "max fold", "MaxLamport no longer folds with max")
			}
			if fn := x.fn(timePkg + ".VersionVector.DeepCopy"); fn != nil {
				ok := false
				for _, r := range prog.Returns(fn) {
					if prog.Reaches(r.Results[0], func(v ssa.Value) bool {
						if _, isMake := v.(*ssa.MakeMap); isMake {
							return true
						}
						c, isC := v.(*ssa.Call)
						return isC && c.Call.StaticCallee() != nil && c.Call.StaticCallee().Name() == "NewVersionVector"
					}) && !prog.Reaches(r.Results[0], func(v ssa.Value) bool { return v == ssa.Value(fn.Params[0]) }) {
						ok = true
					}
				}
				x.check(ok, "func="+prog.FnName(fn)+" fresh-map", x.fpos(fn), "returns a fresh map", "VersionVector.DeepCopy returns the receiver's own map")
			}
		}})

	register(&Rule{ID: "K.id", Min: 14, Text: "clock producers of change.ID (Next, SyncClocks, SyncLamport, SetClocks): the lamport of the result is (own lamport)+1 for Next and max(own, other)+1 for the Sync*/SetClocks forms; the value stored at versionVector[own actor] is that same SSA value; the vector handed to the result is the DeepCopy that was updated; SyncClocks/SetClocks merge the other vector with Max; Next increments clientSeq by one and the others preserve it; Sync* return the receiver unchanged only when the other ID has no clocks",
		Run: func(x *Ctx) {
			idT := x.P.Named(changePkg + ".ID")
			lam := x.P.Field(changePkg + ".ID.lamport")
			act := x.P.Field(changePkg + ".ID.actorID")
			vvF := x.P.Field(changePkg + ".ID.versionVector")
			cseq := x.P.Field(changePkg + ".ID.clientSeq")
			setM := x.P.FnObj(timePkg + ".VersionVector.Set")
			maxM := x.P.FnObj(timePkg + ".VersionVector.Max")
			dcM := x.P.FnObj(timePkg + ".VersionVector.DeepCopy")
			newID := x.P.FnObj(changePkg + ".NewID")
			if idT == nil || lam == nil || act == nil || vvF == nil || setM == nil || maxM == nil || dcM == nil {
				x.C.Unresolved(x.id(), "change.ID fields / VersionVector.Set/Max/DeepCopy")
				return
			}
			for _, spec := range []struct {
				name    string
				sync    bool // max(own, other)+1
				mergeVV bool
				other   string // how the other lamport is obtained
			}{
				{"Next", false, false, ""},
				{"SyncClocks", true, true, "field"},
				{"SyncLamport", true, false, "field"},
				{"SetClocks", true, true, "param"},
			} {
				fn := x.fn(changePkg + ".ID." + spec.name)
				if fn == nil {
					continue
				}
				k := "func=" + prog.FnName(fn)
				recv := fn.Params[0]
				ownLam := vpFieldOfParam(lam, recv)
				// result lamport values: NewID(…, lamport, …) arg 2 or composite literal store to .lamport of the result
				var resLam []ssa.Value
				var resVV []ssa.Value
				var resCS []ssa.Value
				for _, c := range callsToIn(fn, newID) {
					resCS = append(resCS, c.Common().Args[0])
					// the clock-less form (Next(excludeClocks): lamport 0, no vector), spelled through the constructor
					if z, isZ := prog.IntConst(c.Common().Args[2]); isZ && z == 0 && prog.IsNilConst(c.Common().Args[4]) {
						continue
					}
					resLam = append(resLam, c.Common().Args[2])
					resVV = append(resVV, c.Common().Args[4])
				}
				for _, st := range storesTo(fn, lam) {
					resLam = append(resLam, st.Val)
				}
				for _, st := range storesTo(fn, vvF) {
					resVV = append(resVV, st.Val)
				}
				for _, st := range storesTo(fn, cseq) {
					resCS = append(resCS, st.Val)
				}
				if len(resLam) == 0 {
					x.fail(k+" lamport", x.fpos(fn), "the producer no longer sets a lamport")
					continue
				}
				var otherLam VP
				if spec.other == "param" {
					otherLam = VP{"other lamport parameter", func(v ssa.Value) bool {
						pm, ok := prog.Strip(v).(*ssa.Parameter)
						return ok && pm.Parent() == fn && pm != recv && types.Identical(pm.Type().Underlying(), types.Typ[types.Int64])
					}}
				} else if len(fn.Params) > 1 {
					otherLam = vpFieldOfParam(lam, fn.Params[1])
				}
				okLam := true
				for _, v := range resLam {
					good := false
					if spec.sync {
						b, isB := prog.Strip(v).(*ssa.BinOp)
						if isB && b.Op == token.ADD {
							if one, is1 := prog.IntConst(b.Y); is1 && one == 1 && isMaxOf(b.X, ownLam, otherLam) {
								good = true
							}
						}
					} else {
						good = isPlusOne(v, ownLam)
					}
					if !good {
						okLam = false
					}
				}
				want := "own lamport + 1"
				if spec.sync {
					want = "max(own lamport, other lamport) + 1"
				}
				x.check(okLam, k+" lamport="+want, x.fpos(fn), "the new lamport is "+want, "the new lamport is not "+want+": a change could carry a clock that is not newer than everything its author has seen")
				// own entry: Set(copy, own actor, same lamport value)
				sets := callsToIn(fn, setM)
				okSet := false
				var setRecv ssa.Value
				for _, s := range sets {
					args := s.Common().Args
					if len(args) == 3 && vpFieldOfParam(act, recv).match(args[1]) {
						for _, v := range resLam {
							if prog.Strip(args[2]) == prog.Strip(v) || (isPlusOne(args[2], ownLam) && isPlusOne(v, ownLam)) {
								okSet = true
								setRecv = args[0]
							}
						}
					}
				}
				x.check(okSet, k+" own-entry=lamport", x.fpos(fn), "versionVector[own actor] is set to the new lamport", "versionVector[own actor] is not set to the change's own lamport")
				// the vector: a DeepCopy of the receiver's, the one that is updated, and the one returned
				if setRecv != nil {
					isCopy := prog.Reaches(setRecv, func(v ssa.Value) bool {
						c, ok := v.(*ssa.Call)
						return ok && sameFunc(prog.CallObj(c), dcM) && vpFieldOfParam(vvF, recv).match(c.Call.Args[0])
					})
					x.check(isCopy, k+" updates-a-copy", x.fpos(fn), "the updated vector is a DeepCopy of the receiver's", "the receiver's own vector map is updated in place: changes already created share it")
					okRes := len(resVV) > 0
					for _, v := range resVV {
						if prog.Strip(v) != prog.Strip(setRecv) {
							okRes = false
						}
					}
					x.check(okRes, k+" returns-the-updated-vector", x.fpos(fn), "the result carries the updated copy", "the result does not carry the vector that was updated")
					if spec.mergeVV {
						okMax := false
						for _, m := range callsToIn(fn, maxM) {
							if prog.Strip(m.Common().Args[0]) == prog.Strip(setRecv) {
								okMax = true
							}
						}
						x.check(okMax, k+" merges-other-vector", x.fpos(fn), "the other vector is merged with Max", "the other vector is no longer merged (pointwise max) into the new clock")
					} else {
						x.check(len(callsToIn(fn, maxM)) == 0, k+" does-not-merge", x.fpos(fn), "no merge in this form", "this producer must not merge the other vector")
					}
				}
				// clientSeq
				okCS := len(resCS) > 0
				for _, v := range resCS {
					if spec.name == "Next" {
						if !isPlusOne(v, vpFieldOfParam(cseq, recv)) {
							okCS = false
						}
					} else if !vpFieldOfParam(cseq, recv).match(v) {
						okCS = false
					}
				}
				x.check(okCS, k+" clientSeq", x.fpos(fn), "clientSeq handled as documented", "clientSeq is not own+1 (Next) / preserved (others)")
				// early return of the receiver only when the other has no clocks
				if spec.sync && spec.other == "field" {
					hasClocks := x.P.FnObj(changePkg + ".ID.HasClocks")
					for i, r := range prog.Returns(fn) {
						if prog.Reaches(r.Results[0], func(v ssa.Value) bool { return v == ssa.Value(recv) }) {
							x.guardedSite(fmt.Sprintf("%s unchanged-return#%d only-if-other-has-no-clocks", k, i+1), r, []Cmp{isFalse(vpCall(hasClocks))}, nil)
						}
					}
				}
			}
		}})

	register(&Rule{ID: "A1", Min: 7, Text: "version vectors are not mutated in place unless fresh: every call of an in-place mutator of time.VersionVector (Set, Unset, Max, Min) and every map assignment to a VersionVector outside package time has a receiver that originates, in the same function, from DeepCopy, NewVersionVector or make — never from a field, a parameter or a getter (a change.ID is passed by value but its vector is a shared map)",
		Run: func(x *Ctx) {
			vvT := x.P.Named(timePkg + ".VersionVector")
			if vvT == nil {
				x.C.Unresolved(x.id(), timePkg+".VersionVector")
				return
			}
			muts := map[string]bool{"Set": true, "Unset": true, "Max": true, "Min": true}
			fresh := func(v ssa.Value) bool {
				okFresh, bad := false, false
				prog.Reaches(v, func(w ssa.Value) bool {
					switch t := w.(type) {
					case *ssa.MakeMap:
						okFresh = true
					case *ssa.Call:
						if o := prog.CallObj(t); o != nil && (o.Name() == "DeepCopy" || o.Name() == "NewVersionVector") {
							okFresh = true
						} else if _, isB := t.Call.Value.(*ssa.Builtin); !isB {
							bad = true
						}
					case *ssa.Parameter, *ssa.FreeVar, *ssa.Global:
						bad = true
					case *ssa.UnOp:
						if t.Op == token.MUL {
							if _, isAlloc := t.X.(*ssa.Alloc); !isAlloc {
								bad = true // load from a field / element
							}
						}
					case *ssa.Field, *ssa.Lookup, *ssa.Index:
						bad = true
					}
					return false
				})
				return okFresh && !bad
			}
			n := map[string]int{}
			for _, fn := range x.P.ProdFuncs() {
				inTime := prog.PkgOf(fn) == prog.Mod+"/"+timePkg
				for _, b := range fn.Blocks {
					for _, ins := range b.Instrs {
						switch t := ins.(type) {
						case ssa.CallInstruction:
							o := prog.CallObj(t)
							if o == nil || !muts[o.Name()] {
								continue
							}
							sig := o.Type().(*types.Signature)
							if sig.Recv() == nil || !isNamed(sig.Recv().Type(), vvT) {
								continue
							}
							n[prog.FnName(fn)]++
							k := fmt.Sprintf("func=%s mutator=%s#%d", prog.FnName(fn), o.Name(), n[prog.FnName(fn)])
							x.check(fresh(t.Common().Args[0]), k, x.pos(ins), "the mutated vector is fresh in this function", "an in-place VersionVector mutator is applied to a vector that is not a fresh copy (shared with earlier changes)")
						case *ssa.MapUpdate:
							if inTime || !isNamed(t.Map.Type(), vvT) {
								continue
							}
							n[prog.FnName(fn)]++
							k := fmt.Sprintf("func=%s map-assign#%d", prog.FnName(fn), n[prog.FnName(fn)])
							x.check(fresh(t.Map), k, x.pos(ins), "the assigned vector is fresh in this function", "a VersionVector that is not a fresh copy is assigned to in place")
						}
					}
				}
			}
		}})
}

func init() {
	register(&Rule{ID: "K.ctx", Min: 2, Text: "the document never loses its clocks through a presence-only change: Context.NextID returns either the ID prepared with full clocks (the nextID field, built by prevID.Next()) or, on the no-operations path, an ID built without clocks (Next(true)) into which both the lamport and the version vector of prevID have been stored before it is returned — an ID without the vector becomes the document's changeID, and the next local delete/style of another actor's content runs with 'nothing seen' on the document and 'everything seen' on the editing copy",
		Run: func(x *Ctx) {
			fn := x.fn(changePkg + ".(*Context).NextID")
			prevF := x.P.Field(changePkg + ".Context.prevID")
			nextF := x.P.Field(changePkg + ".Context.nextID")
			vvF := x.P.Field(changePkg + ".ID.versionVector")
			lamF := x.P.Field(changePkg + ".ID.lamport")
			if fn == nil || prevF == nil || nextF == nil || vvF == nil || lamF == nil {
				x.C.Unresolved(x.id(), "change.Context.NextID / ID fields")
				return
			}
			fromPrev := func(v ssa.Value, f *types.Var) bool {
				if prog.LoadedField(v) != f {
					return false
				}
				u, ok := prog.Strip(v).(*ssa.UnOp)
				if !ok {
					return false
				}
				fa, ok := u.X.(*ssa.FieldAddr)
				if !ok {
					return false
				}
				// the base is prevID: &c.prevID, or a load of it
				switch b := fa.X.(type) {
				case *ssa.FieldAddr:
					return prog.FieldVar(b) == prevF
				case *ssa.UnOp:
					if bf, isF := b.X.(*ssa.FieldAddr); isF {
						return prog.FieldVar(bf) == prevF
					}
				}
				return prog.LoadedField(fa.X) == prevF
			}
			for i, r := range prog.Returns(fn) {
				v := prog.ReturnValue(r, 0)
				k := fmt.Sprintf("func=%s return#%d carries-clocks", prog.FnName(fn), i+1)
				if prog.Reaches(v, func(w ssa.Value) bool { return prog.LoadedField(w) == nextF }) {
					x.hold(k, x.pos(r), "returns the ID prepared with full clocks")
					continue
				}
				// a local ID: both clock fields stored from prevID before the return
				var al *ssa.Alloc
				if u, ok := prog.Strip(r.Results[0]).(*ssa.UnOp); ok {
					al, _ = u.X.(*ssa.Alloc)
				}
				okVV, okLam := false, false
				if al != nil {
					for _, ref := range *al.Referrers() {
						fa, isFA := ref.(*ssa.FieldAddr)
						if !isFA {
							continue
						}
						for _, rr := range *fa.Referrers() {
							st, isSt := rr.(*ssa.Store)
							if !isSt || st.Addr != ssa.Value(fa) || !prog.Dominates(st, r) {
								continue
							}
							switch prog.FieldVar(fa) {
							case vvF:
								okVV = fromPrev(st.Val, vvF)
							case lamF:
								okLam = fromPrev(st.Val, lamF)
							}
						}
					}
				}
				x.check(okVV && okLam, k, x.pos(r), "the lamport and the version vector of prevID are stored into the returned ID", "the ID returned for a presence-only change does not carry prevID's "+map[bool]string{true: "lamport", false: "version vector"}[okVV]+": the document's clocks are reset by a presence update")
			}
		}})
}
