package rules

import (
	"fmt"
	"go/token"
	"strings"

	"yv/internal/prog"

	"golang.org/x/tools/go/ssa"
)

func init() {
	register(&Rule{ID: "W.live", Min: 10, Text: "deleted content weighs nothing and every change of liveness refreshes the index: a text node's Len is its content length only on the edge where it is not removed and 0 otherwise; an array slot counts as removed when it holds no element or its element is removed; every store that changes the liveness of an indexed node (removedAt / elementEntry of an array slot, removedAt of a text node through SetRemovedAt, removedAt of a tree node) is followed in the same function by the matching refresh of the order-statistic structure (UpdateWeight, DeleteRange, Splay, UpdateAncestorsLength) — post-dominating the store for unconditional changes, reachable from it for conditional ones",
		Run: func(x *Ctx) {
			// (1) weight kernels
			if fn := x.fn(crdtPkg + ".(*RGATreeSplitNode).Len"); fn != nil {
				k := "func=" + prog.FnName(fn)
				removedAt := vpStamp("removedAt", []string{"removedAt"}, nil)
				zero, content := false, false
				for _, r := range prog.Returns(fn) {
					v := r.Results[0]
					if kv, isK := prog.IntConst(v); isK && kv == 0 {
						if x.quietGuarded(r, []Cmp{{L: removedAt, R: vpNil, Want: NE}}) {
							zero = true
						}
						continue
					}
					if x.quietGuarded(r, []Cmp{{L: removedAt, R: vpNil, Want: EQ}}) {
						content = true
					} else {
						x.fail(k+" content-length-only-if-alive", x.pos(r), "a removed text node can report a non-zero length: deleted content shifts visible indices")
					}
				}
				x.check(zero, k+" removed-is-0", x.fpos(fn), "a removed node has length 0", "a removed text node no longer has length 0")
				x.check(content, k+" alive-is-content-length", x.fpos(fn), "a live node has its content length", "a live text node no longer reports its content length")
			}
			if fn := x.fn(crdtPkg + ".(*RGATreeListNode).IsRemoved"); fn != nil {
				k := "func=" + prog.FnName(fn)
				entry := vpStamp("elementEntry", []string{"elementEntry"}, nil)
				rm := vpStamp("element removedAt", []string{"removedAt"}, []string{"RemovedAt"})
				okEmpty, okElem := false, false
				for _, s := range trueSites(fn, 0) {
					if s.Cond == nil {
						if s.Edge != nil && edgeGuarded(fn, *s.Edge, []Cmp{{L: entry, R: vpNil, Want: EQ}}) || x.quietGuarded(s.Ins, []Cmp{{L: entry, R: vpNil, Want: EQ}}) {
							okEmpty = true
						}
					} else if r, ok := relOnTrue(s.Cond, rm, vpNil, nil); ok && r == NE {
						okElem = true
					}
				}
				x.check(okEmpty, k+" empty-slot-is-removed", x.fpos(fn), "a slot without an element is dead", "a slot that holds no element no longer counts as removed")
				x.check(okElem, k+" removed-element-is-removed", x.fpos(fn), "a slot whose element is removed is dead", "a slot whose element is removed no longer counts as removed: a deleted element keeps its visible index")
			}
			// (2) liveness change ⇒ refresh
			type site struct {
				at     ssa.Instruction
				node   ssa.Value // the node whose liveness changed (nil: any)
				strict bool      // the refresh must post-dominate
				what   string
			}
			refreshNames := map[string]bool{"UpdateWeight": true, "DeleteRange": true, "Splay": true, "UpdateAncestorsLength": true, "UpdateDescendantsLength": true, "deleteIndexNodes": true, "Delete": true}
			check := func(fn *ssa.Function, sites []site) {
				var refreshes []ssa.CallInstruction
				for _, c := range prog.CallsIn(fn) {
					if _, isDefer := c.(*ssa.Defer); isDefer {
						continue
					}
					name := ""
					if c.Common().IsInvoke() {
						name = c.Common().Method.Name()
					} else if o := prog.CallObj(c); o != nil {
						name = o.Name()
					}
					if refreshNames[name] {
						refreshes = append(refreshes, c)
					}
				}
				for i, s := range sites {
					ok := false
					for _, r := range refreshes {
						if s.node != nil {
							// the refreshed index node belongs to the same node
							same := false
							for _, a := range r.Common().Args {
								if f := prog.LoadedField(a); f != nil && (f.Name() == "indexNode" || f.Name() == "Index") && sameAccessPath(prog.FieldBase(a), s.node) {
									same = true
								}
							}
							if rv := recvOf(r); rv != nil {
								if f := prog.LoadedField(rv); f != nil && f.Name() == "Index" && sameAccessPath(prog.FieldBase(rv), s.node) {
									same = true
								}
							}
							if !same {
								continue
							}
						}
						if s.strict {
							if x.P.PostDominates(r, s.at) {
								ok = true
							}
						} else if prog.MayPrecede(s.at, r) {
							ok = true
						}
					}
					x.check(ok, fmt.Sprintf("func=%s liveness-change#%d(%s) refreshes-index", prog.FnName(fn), i+1, s.what), x.pos(s.at),
						"the index is refreshed after the liveness change", "the liveness of an indexed node changes without the order-statistic structure being refreshed: Len/Get/index lookups keep counting (or skipping) it")
				}
			}
			// array slots
			for _, fn := range x.P.FuncsIn(crdtPkg) {
				if fn.Signature.Recv() == nil || !isNamed(fn.Signature.Recv().Type(), x.P.Named(crdtPkg+".RGATreeList")) {
					continue
				}
				var sites []site
				for _, b := range fn.Blocks {
					for _, ins := range b.Instrs {
						switch t := ins.(type) {
						case *ssa.Store:
							f := prog.FieldVar(t.Addr)
							if f == nil || !(f.Name() == "removedAt" || f.Name() == "elementEntry") {
								continue
							}
							base := t.Addr.(*ssa.FieldAddr).X
							if !isNamed(base.Type(), x.P.Named(crdtPkg+".RGATreeListNode")) || freshObject(base) {
								continue
							}
							// a slot created in this function by a constructor and inserted fresh is weighed on insertion
							if c, isCall := prog.Strip(base).(*ssa.Call); isCall && prog.CallObj(c) != nil && strings.HasPrefix(prog.CallObj(c).Name(), "new") {
								// … provided its liveness is settled before the insertion weighs it
								for _, ic := range prog.CallsIn(fn) {
									o := prog.CallObj(ic)
									if o == nil || !strings.HasPrefix(o.Name(), "Insert") {
										continue
									}
									for _, a := range ic.Common().Args {
										if lf := prog.LoadedField(a); lf != nil && lf.Name() == "indexNode" && sameAccessPath(prog.FieldBase(a), base) && prog.MayPrecede(ic, t) {
											sites = append(sites, site{t, base, true, f.Name() + " of a slot already inserted"})
										}
									}
								}
								continue
							}
							sites = append(sites, site{t, base, true, f.Name()})
						case ssa.CallInstruction:
							if t.Common().IsInvoke() && t.Common().Method.Name() == "Remove" {
								if f := prog.LoadedField(t.Common().Value); f != nil && f.Name() == "elem" {
									sites = append(sites, site{ins, nil, false, "element.Remove"})
								}
							}
						}
					}
				}
				if len(sites) > 0 {
					check(fn, sites)
				}
			}
			// text nodes: SetRemovedAt / Remove inside RGATreeSplit methods
			for _, fn := range x.P.FuncsIn(crdtPkg) {
				if o := fn.Origin(); o != nil && o != fn {
					continue
				}
				if fn.Signature.Recv() == nil {
					continue
				}
				rn := namedOf(fn.Signature.Recv().Type())
				if rn == nil || rn.Obj().Name() != "RGATreeSplit" {
					continue
				}
				var sites []site
				for _, c := range prog.CallsIn(fn) {
					o := prog.CallObj(c)
					if o == nil {
						continue
					}
					recv := recvOf(c)
					if recv == nil || namedOf(recv.Type()) == nil || namedOf(recv.Type()).Obj().Name() != "RGATreeSplitNode" {
						continue
					}
					if o.Name() == "SetRemovedAt" || o.Name() == "Remove" {
						sites = append(sites, site{c, nil, false, o.Name()})
					}
				}
				if len(sites) > 0 {
					check(fn, sites)
				}
			}
			// tree nodes
			for _, name := range []string{"remove", "unremove"} {
				fn := x.fn(crdtPkg + ".(*TreeNode)." + name)
				if fn == nil {
					continue
				}
				var sites []site
				f := x.P.Field(crdtPkg + ".TreeNode.removedAt")
				for _, st := range storesTo(fn, f) {
					// the first write of a tombstone / its clearing changes liveness; an overwrite of an existing tombstone does not
					if name == "remove" && !x.quietGuarded(st, []Cmp{{L: vpField(f), R: vpNil, Want: EQ}}) {
						continue
					}
					sites = append(sites, site{st, nil, true, "removedAt"})
				}
				if len(sites) == 0 {
					x.fail("func="+prog.FnName(fn)+" liveness-change", x.fpos(fn), "no liveness change found")
				}
				check(fn, sites)
			}
		}})
}

func init() {
	register(&Rule{ID: "W.splay", Min: 6, Text: "order-statistic bookkeeping of the splay tree: every function of pkg/splay that re-links a node (stores into a left/right child pointer of an existing node) recomputes weights afterwards — a call of UpdateWeight/updateTreeWeight/InitWeight/Splay/cutOffRight post-dominates (or, for conditional re-links, is reachable from) the store; in the two rotations the former root's weight is recomputed before the pivot's (child before parent), for both of them",
		Run: func(x *Ctx) {
			refresh := map[string]bool{"UpdateWeight": true, "updateTreeWeight": true, "InitWeight": true, "Splay": true, "cutOffRight": true, "increaseWeight": true, "Delete": true}
			n := 0
			for _, fn := range x.P.FuncsIn("pkg/splay") {
				if o := fn.Origin(); o != nil && o != fn {
					continue
				}
				var stores []*ssa.Store
				for _, b := range fn.Blocks {
					for _, ins := range b.Instrs {
						st, ok := ins.(*ssa.Store)
						if !ok {
							continue
						}
						f := prog.FieldVar(st.Addr)
						if f == nil || !(f.Name() == "left" || f.Name() == "right") {
							continue
						}
						if freshObject(st.Addr.(*ssa.FieldAddr).X) {
							continue
						}
						stores = append(stores, st)
					}
				}
				if len(stores) == 0 || fn.Name() == "unlink" {
					continue // unlink detaches a node that has just been cut out of the tree by Delete, which recomputes the weights
				}
				var refs []ssa.CallInstruction
				for _, c := range prog.CallsIn(fn) {
					name := ""
					if o := prog.CallObj(c); o != nil {
						name = o.Name()
					}
					if refresh[name] {
						refs = append(refs, c)
					}
				}
				for i, st := range stores {
					n++
					ok := false
					for _, r := range refs {
						if x.P.PostDominates(r, st) || prog.MayPrecede(st, r) {
							ok = true
						}
					}
					x.check(ok, fmt.Sprintf("func=%s relink#%d weights-recomputed", prog.FnName(fn), i+1), x.pos(st), "weights are recomputed after the re-link",
						"a child pointer is re-linked without recomputing subtree weights afterwards: every index lookup through this node is off by the moved subtree's weight")
				}
			}
			for _, name := range []string{"rotateLeft", "rotateRight"} {
				fn := x.fn("pkg/splay.(*Tree)." + name)
				if fn == nil {
					continue
				}
				k := "func=" + prog.FnName(fn)
				pivot := fn.Params[1]
				var ups []ssa.CallInstruction
				for _, c := range prog.CallsIn(fn) {
					if o := prog.CallObj(c); o != nil && o.Name() == "UpdateWeight" {
						ups = append(ups, c)
					}
				}
				okOrder := false
				if len(ups) == 2 {
					first, second := ups[0], ups[1]
					if prog.Dominates(second, first) {
						first, second = second, first
					}
					a0, a1 := first.Common().Args[len(first.Common().Args)-1], second.Common().Args[len(second.Common().Args)-1]
					parentOfPivot := func(v ssa.Value) bool {
						return prog.Reaches(v, func(w ssa.Value) bool {
							f := prog.LoadedField(w)
							return f != nil && f.Name() == "parent" && prog.FieldBase(w) != nil && prog.Strip(prog.FieldBase(w)) == ssa.Value(pivot)
						})
					}
					okOrder = parentOfPivot(a0) && prog.Strip(a1) == ssa.Value(pivot)
				}
				x.check(okOrder, k+" recompute-old-root-then-pivot", x.fpos(fn), "the demoted node's weight is recomputed before the promoted one's", "after the rotation the weights are not recomputed for the old root first and the pivot second: the pivot's weight is computed from a stale child weight")
			}
			if n < 6 {
				x.C.Vacuous(x.id()+" re-links", n, 6)
			}
		}})
}

// affine resolves v to base + k through integer additions/subtractions of constants.
func affine(v ssa.Value) (ssa.Value, int64) {
	v = prog.Strip(v)
	if b, ok := v.(*ssa.BinOp); ok && (b.Op == token.ADD || b.Op == token.SUB) {
		if c, isC := prog.IntConst(b.Y); isC {
			base, k := affine(b.X)
			if b.Op == token.SUB {
				c = -c
			}
			return base, k + c
		}
		if c, isC := prog.IntConst(b.X); isC && b.Op == token.ADD {
			base, k := affine(b.Y)
			return base, k + c
		}
	}
	return v, 0
}

func init() {
	register(&Rule{ID: "IDX.pos", Min: 4, Text: "sibling insertion positions in the index tree: every method of index.Node that splices a child through insertAtInternal hands it the position its name promises — Insert…Before: exactly OffsetOfChild(reference); Insert…After: OffsetOfChild(reference)+1; InsertAt: exactly its offset parameter — and InsertAfterInternal writes the new child at children[OffsetOfChild(prev)+1]; the crdt tree's InsertAt-after-left-sibling computes OffsetOfChild(left)+1. An off-by-one here is invisible until two replicas reach the same structure through different orders of the same splits",
		Run: func(x *Ctx) {
			ins := x.P.FnObj("pkg/index.(*Node).insertAtInternal")
			off := x.P.FnObj("pkg/index.(*Node).OffsetOfChild")
			if ins == nil || off == nil {
				x.C.Unresolved(x.id(), "index.Node.insertAtInternal / OffsetOfChild")
				return
			}
			isOffCall := func(v ssa.Value) bool {
				c, ok := prog.Strip(v).(*ssa.Call)
				return ok && sameFunc(prog.CallObj(c), off)
			}
			n := 0
			for _, fn := range x.P.FuncsIn("pkg/index") {
				if o := fn.Origin(); o != nil && o != fn {
					continue
				}
				for _, c := range callsToIn(fn, ins) {
					n++
					arg := paramArg(c, 1)
					base, k := affine(arg)
					name := fn.Name()
					key := fmt.Sprintf("func=%s insert-position", prog.FnName(fn))
					switch {
					case strings.Contains(name, "Before"):
						x.check(isOffCall(base) && k == 0, key+"=offset(reference)", x.pos(c), "inserts at the reference's own offset", fmt.Sprintf("%s inserts at offset(reference)%+d instead of offset(reference): the node lands on the wrong side of its reference", name, k))
					case strings.Contains(name, "After"):
						x.check(isOffCall(base) && k == 1, key+"=offset(reference)+1", x.pos(c), "inserts right after the reference", fmt.Sprintf("%s inserts at offset(reference)%+d instead of offset(reference)+1", name, k))
					default:
						pm, isP := base.(*ssa.Parameter)
						x.check(isP && pm.Parent() == fn && k == 0, key+"=offset-parameter", x.pos(c), "inserts at the offset it was given", fmt.Sprintf("%s does not insert at the offset it was given (%+d)", name, k))
					}
				}
			}
			// InsertAfterInternal: n.children[offset+1] = newNode
			if fn := x.fn("pkg/index.(*Node).InsertAfterInternal"); fn != nil {
				ok := false
				for _, b := range fn.Blocks {
					for _, insn := range b.Instrs {
						st, isSt := insn.(*ssa.Store)
						if !isSt {
							continue
						}
						ia, isIA := st.Addr.(*ssa.IndexAddr)
						if !isIA || prog.Strip(st.Val) != ssa.Value(fn.Params[1]) {
							continue
						}
						n++
						base, k := affine(ia.Index)
						ok = isOffCall(base) && k == 1
					}
				}
				x.check(ok, "func="+prog.FnName(fn)+" writes-children[offset(prev)+1]", x.fpos(fn), "the new child is written right after prev", "InsertAfterInternal no longer writes the new child at children[OffsetOfChild(prev)+1]")
			}
			// crdt: index computed from the left sibling
			nn := 0
			for _, fn := range x.P.FuncsIn(crdtPkg) {
				for _, c := range callsToIn(fn, off) {
					for _, r := range *c.Value().Referrers() {
						b, isB := r.(*ssa.BinOp)
						if !isB || (b.Op != token.ADD && b.Op != token.SUB) {
							continue
						}
						nn++
						n++
						_, k := affine(b)
						x.check(k == 1, fmt.Sprintf("func=%s after-left-sibling#%d=offset(left)+1", prog.FnName(fn), nn), x.pos(c), "the position after the left sibling is its offset + 1", fmt.Sprintf("the position after the left sibling is computed as offset%+d", k))
					}
				}
			}
			if n < 4 {
				x.C.Vacuous(x.id()+" sites", n, 4)
			}
		}})
}

func init() {
	register(&Rule{ID: "W.treelist", Min: 12, Text: "order-statistic bookkeeping of the array index (pkg/treelist, a left-leaning red-black tree with two aggregates — weight: live elements, count: all slots): (1) every function that re-links a child of an existing node ends, on every path after the re-link, in updateNode or fixUp (which calls it) or returns the result of one; both rotations recompute the demoted node before the promoted one; (2) updateNode recomputes both aggregates from both children (weight = left + own size + right, count = left + 1 + right); (3) UpdateWeight walks parent links up to the root; (4) the two index spaces never mix: a function that descends by count (insertByCount, deleteByCount, structuralIndexOf) reads no weight, and Find (the live index lookup) reads no count",
		Run: func(x *Ctx) {
			const pkg = "pkg/treelist"
			n := 0
			calleeName := func(c ssa.CallInstruction) string {
				if o := prog.CallObj(c); o != nil {
					return o.Name()
				}
				if f := c.Common().StaticCallee(); f != nil {
					if o := f.Origin(); o != nil {
						return o.Name()
					}
					return f.Name()
				}
				return ""
			}
			recompute := map[string]bool{"updateNode": true, "fixUp": true, "rotateLeft": true, "rotateRight": true}
			for _, fn := range x.P.FuncsIn(pkg) {
				if o := fn.Origin(); o != nil && o != fn {
					continue
				}
				var refs []ssa.CallInstruction
				for _, c := range prog.CallsIn(fn) {
					if recompute[calleeName(c)] {
						refs = append(refs, c)
					}
				}
				i := 0
				for _, b := range fn.Blocks {
					for _, ins := range b.Instrs {
						st, ok := ins.(*ssa.Store)
						if !ok {
							continue
						}
						f := prog.FieldVar(st.Addr)
						if f == nil || !(f.Name() == "left" || f.Name() == "right") {
							continue
						}
						if prog.IsNilConst(st.Val) {
							// detaching a node that leaves the tree (its own links are cleared)
							if pm, isP := prog.Strip(st.Addr.(*ssa.FieldAddr).X).(*ssa.Parameter); isP && fn.Name() == "InsertAfter" && pm == fn.Params[2] {
								continue
							}
						}
						i++
						n++
						ok2 := false
						for _, r := range refs {
							if x.P.PostDominates(r, st) {
								ok2 = true
							}
						}
						// InsertAfter resets the links of the node being inserted before insertion weighs it
						if !ok2 && fn.Name() == "InsertAfter" {
							for _, c := range prog.CallsIn(fn) {
								if calleeName(c) == "insertByCount" && x.P.PostDominates(c, st) {
									ok2 = true
								}
							}
						}
						x.check(ok2, fmt.Sprintf("func=%s relink#%d aggregates-recomputed", prog.FnName(fn), i), x.pos(st), "weight and count are recomputed after the re-link on every path", "a child pointer is re-linked and some path to the return does not recompute the node's aggregates: Len/Get/index lookups through this node are off")
					}
				}
			}
			// rotations: demoted first
			for _, name := range []string{"rotateLeft", "rotateRight"} {
				fn := x.fn(pkg + "." + name)
				if fn == nil {
					x.C.Unresolved(x.id(), pkg+"."+name)
					continue
				}
				var ups []ssa.CallInstruction
				for _, c := range prog.CallsIn(fn) {
					if calleeName(c) == "updateNode" {
						ups = append(ups, c)
					}
				}
				n++
				ok := false
				if len(ups) == 2 {
					first, second := ups[0], ups[1]
					if prog.Dominates(second, first) {
						first, second = second, first
					}
					ok = prog.Strip(first.Common().Args[0]) == ssa.Value(fn.Params[0]) && prog.Strip(second.Common().Args[0]) != ssa.Value(fn.Params[0])
				}
				x.check(ok, "func="+prog.FnName(fn)+" recompute-demoted-then-promoted", x.fpos(fn), "the demoted node is recomputed before the promoted one", "after the rotation the aggregates are not recomputed for the demoted node first and the promoted one second")
			}
			// updateNode kernel
			if fn := x.fn(pkg + ".updateNode"); fn != nil {
				for _, agg := range []struct {
					field string
					parts []string
				}{{"weight", []string{"leftWeight", "Size", "rightWeight"}}, {"count", []string{"leftCount", "rightCount"}}} {
					n++
					ok := false
					for _, b := range fn.Blocks {
						for _, ins := range b.Instrs {
							st, isSt := ins.(*ssa.Store)
							if !isSt {
								continue
							}
							f := prog.FieldVar(st.Addr)
							if f == nil || f.Name() != agg.field {
								continue
							}
							all := true
							for _, p := range agg.parts {
								if !prog.DependsOn(st.Val, func(w ssa.Value) bool {
									c, isC := prog.Strip(w).(*ssa.Call)
									return isC && calleeName(c) == p
								}) {
									all = false
								}
							}
							if agg.field == "count" {
								// + 1 for the node itself
								one := prog.DependsOn(st.Val, func(w ssa.Value) bool { k, isK := prog.IntConst(w); return isK && k == 1 })
								all = all && one
							}
							ok = all
						}
					}
					x.check(ok, "func="+prog.FnName(fn)+" "+agg.field+"=left+own+right", x.fpos(fn), "the aggregate is recomputed from both children and the node itself", "updateNode no longer recomputes "+agg.field+" from both children and the node itself")
				}
			}
			// UpdateWeight walks to the root
			if fn := x.fn(pkg + ".(*Tree).UpdateWeight"); fn != nil {
				n++
				walks := false
				for _, b := range fn.Blocks {
					for _, ins := range b.Instrs {
						if ph, ok := ins.(*ssa.Phi); ok {
							for _, e := range ph.Edges {
								if f := prog.LoadedField(e); f != nil && f.Name() == "parent" {
									if prog.Reaches(prog.FieldBase(e), func(w ssa.Value) bool { return w == ssa.Value(ph) }) {
										walks = true
									}
								}
							}
						}
					}
				}
				x.check(walks, "func="+prog.FnName(fn)+" walks-parents-to-root", x.fpos(fn), "the loop follows parent links", "UpdateWeight no longer propagates along the parent links up to the root")
			}
			// index spaces
			weightSide := map[string]bool{"leftWeight": true, "rightWeight": true, "Size": true}
			countSide := map[string]bool{"leftCount": true, "rightCount": true}
			reads := func(fn *ssa.Function, names map[string]bool, field string) string {
				for _, c := range prog.CallsIn(fn) {
					if names[calleeName(c)] {
						return calleeName(c) + "()"
					}
				}
				for _, b := range fn.Blocks {
					for _, ins := range b.Instrs {
						if v, ok := ins.(ssa.Value); ok {
							if f := prog.LoadedField(v); f != nil && f.Name() == field {
								return "." + field
							}
						}
					}
				}
				return ""
			}
			for _, name := range []string{".(*Tree).insertByCount", ".(*Tree).deleteByCount", ".(*Tree).structuralIndexOf"} {
				if fn := x.fn(pkg + name); fn != nil {
					n++
					bad := reads(fn, weightSide, "weight")
					x.check(bad == "", "func="+prog.FnName(fn)+" structural-index-reads-no-weight", x.fpos(fn), "descends by count only", "a structural (count-based) descent reads the live weight "+bad+": slots holding removed elements are skipped, so the node is inserted/deleted at the wrong physical position")
				}
			}
			if fn := x.fn(pkg + ".(*Tree).Find"); fn != nil {
				n++
				bad := reads(fn, countSide, "count")
				x.check(bad == "", "func="+prog.FnName(fn)+" live-index-reads-no-count", x.fpos(fn), "descends by live weight only", "the live index lookup reads the structural count "+bad+": removed elements are counted, Get(i) returns the wrong element")
			}
			if n < 12 {
				x.C.Vacuous(x.id()+" sites", n, 12)
			}
		}})
}

func init() {
	register(&Rule{ID: "W.keep", Min: 3, Text: "a node that refuses a removal stays in the index: in RGATreeSplit.deleteNodes the boundary list handed to deleteIndexNodes (everything between two consecutive boundaries is cut out of the order-statistic tree) receives the left edge, the right edge, and — on the false edge of node.Remove(…) — every candidate that was not removed (a concurrent insert the deleting change had not seen); the removed ones are recorded on the true edge. A live node left between two boundaries drops out of the index weights while the text still shows it",
		Run: func(x *Ctx) {
			fn := x.fn(crdtPkg + ".(*RGATreeSplit).deleteNodes")
			if fn == nil {
				x.C.Unresolved(x.id(), crdtPkg+".RGATreeSplit.deleteNodes")
				return
			}
			k := "func=" + prog.FnName(fn)
			calleeName := func(c ssa.CallInstruction) string {
				if o := prog.CallObj(c); o != nil {
					return o.Name()
				}
				if f := c.Common().StaticCallee(); f != nil && f.Origin() != nil {
					return f.Origin().Name()
				}
				return ""
			}
			var rem, cut, edges ssa.CallInstruction
			for _, c := range prog.CallsIn(fn) {
				switch calleeName(c) {
				case "Remove":
					rem = c
				case "deleteIndexNodes":
					cut = c
				case "findEdgesOfCandidates":
					edges = c
				}
			}
			if rem == nil || cut == nil || edges == nil {
				x.fail(k+" shape", x.fpos(fn), "deleteNodes no longer removes candidates, finds the edges and cuts the index")
				return
			}
			boundary := cut.Common().Args[len(cut.Common().Args)-1]
			// appends that feed the boundary list
			var apps []*ssa.Call
			for _, ap := range builtinCalls(fn, "append") {
				if prog.DependsOn(boundary, func(w ssa.Value) bool { return w == ssa.Value(ap) }) {
					apps = append(apps, ap)
				}
			}
			node := recvOf(rem)
			kept := false
			for _, ap := range apps {
				if len(ap.Call.Args) < 2 || !prog.DependsOn(ap.Call.Args[1], func(w ssa.Value) bool { return prog.Strip(w) == prog.Strip(node) }) {
					continue
				}
				// on the false edge of Remove
				if x.quietGuarded(ap, []Cmp{isFalse(vpValue(rem.Value()))}) {
					kept = true
				}
			}
			x.check(kept, k+" refused-candidate-is-a-boundary", x.pos(rem), "on the false edge of Remove the node is appended to the boundary list", "a candidate that refuses the removal is not appended to the boundary list: it is cut out of the index together with the removed nodes around it, although it stays live")
			nEdges := 0
			for _, ap := range apps {
				if len(ap.Call.Args) >= 2 && prog.DependsOn(ap.Call.Args[1], func(w ssa.Value) bool {
					ex, ok := w.(*ssa.Extract)
					return ok && ex.Tuple == edges.Value()
				}) {
					nEdges++
				}
			}
			x.check(nEdges >= 2, k+" both-edges-are-boundaries", x.pos(edges), "the left and the right edge are boundaries", "the edges outside the candidate range are no longer both in the boundary list: the cut extends over a live neighbour (or misses the range)")
			// removed ones recorded on the true edge
			rec := false
			for _, b := range fn.Blocks {
				for _, ins := range b.Instrs {
					if mu, ok := ins.(*ssa.MapUpdate); ok && prog.Strip(mu.Value) == prog.Strip(node) && x.quietGuarded(mu, []Cmp{isTrue(vpValue(rem.Value()))}) {
						rec = true
					}
				}
			}
			x.check(rec, k+" removed-candidate-is-recorded", x.pos(rem), "on the true edge of Remove the node is recorded as removed", "a removed candidate is no longer recorded in the result: no GC pair is registered for it and the reverse operation misses it")
		}})
}

func init() {
	register(&Rule{ID: "IDX.unit", Min: 3, Text: "one length unit per traversal of the index tree: in a function of pkg/index that takes an include-removed flag, a node's length is the flag's choice between VisibleLength and TotalLength (length := n.VisibleLength; if include { length = n.TotalLength }, or PaddedLength(include…)) — the VisibleLength field is never read on its own there; a tombstone-including traversal that compares a position with a live-only length treats a partly entered element as fully contained on the replica that already holds the other side's tombstones",
		Run: func(x *Ctx) {
			n := 0
			for _, fn := range x.P.FuncsIn("pkg/index") {
				if o := fn.Origin(); o != nil && o != fn {
					continue
				}
				if fn.Parent() != nil {
					continue
				}
				flagged := false
				for _, pm := range fn.Params {
					if strings.HasPrefix(strings.ToLower(pm.Name()), "include") {
						flagged = true
					}
				}
				if !flagged {
					continue
				}
				fns := append([]*ssa.Function{fn}, prog.Closures(fn)...)
				i := 0
				for _, g := range fns {
					for _, b := range g.Blocks {
						for _, ins := range b.Instrs {
							u, ok := ins.(*ssa.UnOp)
							if !ok {
								continue
							}
							f := prog.LoadedField(u)
							if f == nil || f.Name() != "VisibleLength" {
								continue
							}
							// a store into the field (+=) loads it first: that is bookkeeping, not measuring
							isUpdate := false
							paired := true
							for _, r := range *u.Referrers() {
								switch t := r.(type) {
								case *ssa.DebugRef:
								case *ssa.Phi:
								case *ssa.BinOp:
									for _, rr := range *t.Referrers() {
										if st, isSt := rr.(*ssa.Store); isSt && prog.FieldVar(st.Addr) == f {
											isUpdate = true
										}
									}
									if !isUpdate {
										paired = false
									}
								case *ssa.Store:
									// spilled local that is also assigned TotalLength
									if al, isA := t.Addr.(*ssa.Alloc); isA {
										other := false
										for _, ar := range *al.Referrers() {
											if st2, isSt := ar.(*ssa.Store); isSt && st2 != t {
												if f2 := prog.LoadedField(st2.Val); f2 != nil && f2.Name() == "TotalLength" {
													other = true
												}
											}
										}
										if !other {
											paired = false
										}
									} else {
										paired = false
									}
								default:
									paired = false
								}
							}
							if isUpdate {
								continue
							}
							i++
							n++
							x.check(paired, fmt.Sprintf("func=%s VisibleLength-read#%d chosen-by-the-flag", prog.FnName(fn), i), x.pos(u), "the live length is one arm of the flag's choice", "a function that takes an include-removed flag reads VisibleLength on its own: in the tombstone-including traversal the comparison is made against a live-only length")
						}
					}
				}
			}
			if n < 3 {
				x.C.Vacuous(x.id()+" reads", n, 3)
			}
		}})

	register(&Rule{ID: "TREE.boundary", Min: 3, Text: "both ends of a tree range are resolved alike: a function of crdt.Tree that resolves two positions through FindTreeNodesWithSplitText passes the same boundary mode for both (Style and RemoveStyle: BoundaryRange for from and to; Edit: the default insert mode for both), and the sibling pair Style/RemoveStyle agree — a range whose one end is redirected into the merge target and whose other end is not skips the end token of the merged-away element on the replica that applied the merge first",
		Run: func(x *Ctx) {
			find := x.P.FnObj(crdtPkg + ".(*Tree).FindTreeNodesWithSplitText")
			if find == nil {
				x.C.Unresolved(x.id(), "Tree.FindTreeNodesWithSplitText")
				return
			}
			modeOf := func(c ssa.CallInstruction) string {
				last := c.Common().Args[len(c.Common().Args)-1]
				if k, ok := last.(*ssa.Const); ok && k.IsNil() {
					return "default"
				}
				if sl, ok := last.(*ssa.Slice); ok {
					if al, isA := sl.X.(*ssa.Alloc); isA {
						for _, r := range *al.Referrers() {
							if ia, isIA := r.(*ssa.IndexAddr); isIA {
								for _, rr := range *ia.Referrers() {
									if st, isSt := rr.(*ssa.Store); isSt {
										if k, isK := st.Val.(*ssa.Const); isK && k.Value != nil {
											return k.Value.ExactString()
										}
										return "dynamic"
									}
								}
							}
						}
					}
				}
				return "dynamic"
			}
			per := map[string]map[string]bool{}
			n := 0
			for _, fn := range x.P.FuncsIn(crdtPkg) {
				cs := callsToIn(fn, find)
				if len(cs) < 2 {
					continue
				}
				n++
				modes := map[string]bool{}
				for _, c := range cs {
					modes[modeOf(c)] = true
				}
				per[fn.Name()] = modes
				x.check(len(modes) == 1, "func="+prog.FnName(fn)+" both-ends-same-boundary-mode", x.fpos(fn), fmt.Sprintf("all %d positions are resolved with mode %v", len(cs), keysOf(modes)), fmt.Sprintf("the positions of one range are resolved with different boundary modes %v", keysOf(modes)))
			}
			if a, b := per["Style"], per["RemoveStyle"]; a != nil && b != nil {
				same := len(a) == len(b)
				for k := range a {
					if !b[k] {
						same = false
					}
				}
				x.check(same, "siblings=Style~RemoveStyle same-boundary-mode", x.fpos(x.fn(crdtPkg+".(*Tree).Style")), "Style and RemoveStyle resolve their ranges alike", fmt.Sprintf("Style resolves its range with %v, RemoveStyle with %v", keysOf(a), keysOf(b)))
			}
			if n < 3 {
				x.C.Vacuous(x.id()+" range functions", n, 3)
			}
		}})
}
