package rules

import (
	"fmt"
	"go/types"

	"yv/internal/prog"

	"golang.org/x/tools/go/ssa"
)

// guardedOrVia: every path to site passes a guard edge of cmps or one of the via
// instructions.
func (x *Ctx) guardedOrVia(key string, site ssa.Instruction, cmps []Cmp, via []ssa.Instruction, held, violated string) bool {
	fn := site.Parent()
	guards, _ := GuardEdges(fn, cmps, nil)
	cut := map[prog.Edge]bool{}
	for e := range guards {
		cut[e] = true
	}
	ok := false
	for _, v := range via {
		if v.Block() == site.Block() && prog.InstrIndex(v) < prog.InstrIndex(site) {
			ok = true
		}
		for _, s := range v.Block().Succs {
			cut[prog.Edge{From: v.Block(), To: s}] = true
		}
	}
	if !ok {
		ok = len(cut) > 0 && prog.CutDisconnects(fn, site.Block(), cut)
	}
	x.check(ok, key, x.pos(site), held, violated)
	return ok
}

func init() {
	register(&Rule{ID: "P.strip", Min: 9, Text: "a presenceless document never stores, returns or snapshots presence: (in) whenever PushPullOptions.DisablePresence may be true every path to the log append passes the strip, whose result replaces the request's changes; the strip drops presence-only changes and clears presence on the rest; (out) a pulled change is added to the response only if the document allows presence, or it carries none, or its presence was cleared on a DeepCopy (never on the cached object); (snapshot pull) the presences handed to SnapshotToBytes are nil whenever DisablePresence is true; (stored snapshot) presences are reset before CreateSnapshotInfo whenever the document's flag is set",
		Run: func(x *Ctx) {
			p := x.pipe()
			if !p.ok {
				return
			}
			optDP := x.P.Field("server/packs.PushPullOptions.DisablePresence")
			docDP := x.P.Field(dbPkg + ".DocInfo.DisablePresence")
			setPC := x.P.FnObj(changePkg + ".(*Change).SetPresenceChange")
			getPC := x.P.FnObj(changePkg + ".(*Change).PresenceChange")
			hasOps := x.P.FnObj(changePkg + ".(*Change).HasOperations")
			packChanges := x.P.Field(changePkg + ".Pack.Changes")
			if optDP == nil || docDP == nil || setPC == nil || getPC == nil || hasOps == nil || packChanges == nil {
				x.C.Unresolved(x.id(), "PushPullOptions.DisablePresence / DocInfo.DisablePresence / Change.SetPresenceChange")
				return
			}
			pp := p.PushPull
			k := "func=" + prog.FnName(pp)
			// the strip function: a callee of PushPull in package packs that calls SetPresenceChange
			var strip *ssa.Call
			for _, c := range prog.CallsIn(pp) {
				cc, ok := c.(*ssa.Call)
				if !ok || cc.Call.StaticCallee() == nil || prog.PkgOf(cc.Call.StaticCallee()) != prog.PkgOf(pp) {
					continue
				}
				if len(callsToIn(cc.Call.StaticCallee(), setPC)) > 0 {
					strip = cc
				}
			}
			var push ssa.CallInstruction
			for _, c := range x.callsReaching(pp, p.CreateCI) {
				if _, isGo := c.(*ssa.Go); !isGo {
					push = c
				}
			}
			if strip == nil || push == nil {
				x.fail(k+" strip-in", x.fpos(pp), "PushPull no longer strips presence before the push")
			} else {
				x.mustPassWhen(k+" strip≺push when DisablePresence", push, strip, vpField(optDP), vpTrue, EQ,
					"whenever the document opted out, presence is stripped before anything is stored", "with DisablePresence set a path reaches the log append without stripping presence")
				replaced := false
				for _, st := range storesTo(pp, packChanges) {
					if prog.Strip(st.Val) == ssa.Value(strip) && prog.MayPrecede(st, push) && !prog.MayPrecede(push, st) {
						replaced = true
					}
				}
				x.check(replaced, k+" request.Changes=strip-result", x.pos(strip), "the stripped list replaces the request's changes", "the stripped list is not what is pushed")
				// the strip kernel
				sf := strip.Call.StaticCallee()
				sk := "func=" + prog.FnName(sf)
				var app ssa.Instruction
				for _, c := range builtinCalls(sf, "append") {
					app = c
				}
				clears := callsToIn(sf, setPC)
				if app == nil || len(clears) == 0 {
					x.fail(sk+" shape", x.fpos(sf), "the strip no longer filters and clears")
				} else {
					okNil := true
					for _, c := range clears {
						if !prog.IsNilConst(c.Common().Args[1]) {
							okNil = false
						}
					}
					x.check(okNil, sk+" clears-with-nil", x.pos(clears[0]), "presence is cleared", "the strip sets a non-nil presence")
					var via []ssa.Instruction
					for _, c := range clears {
						via = append(via, c)
					}
					x.guardedOrVia(sk+" kept-change-has-no-presence", app, []Cmp{{L: vpCall(getPC), R: vpNil, Want: EQ}}, via,
						"a change is kept only without presence or after clearing it", "a change that still carries presence can be kept by the strip")
					x.rejectOn(sk+" presence-only-change-dropped", app, isFalse(vpCall(hasOps)))
				}
			}
			// (out) pull side
			ciPC := x.P.Field(dbPkg + ".ChangeInfo.PresenceChange")
			ciT := x.P.Named(dbPkg + ".ChangeInfo")
			dcM := x.P.FnObj(dbPkg + ".(*ChangeInfo).DeepCopy")
			fn := p.Puller
			fk := "func=" + prog.FnName(fn)
			var apps []ssa.Instruction
			for _, c := range builtinCalls(fn, "append") {
				if sl, ok := c.Call.Args[0].Type().Underlying().(*types.Slice); ok && isNamed(sl.Elem(), ciT) {
					apps = append(apps, c)
				}
			}
			var via []ssa.Instruction
			for _, st := range storesTo(fn, ciPC) {
				if prog.IsNilConst(st.Val) {
					via = append(via, st)
					base := st.Addr.(*ssa.FieldAddr).X
					x.check(flowsFromCallTo(base, dcM), fk+" presence-cleared-on-a-copy", x.pos(st), "the presence is cleared on a DeepCopy", "the presence is cleared on the shared (cached) ChangeInfo itself")
				}
			}
			if len(apps) == 0 {
				x.fail(fk+" out", x.fpos(fn), "no response list in the pull function")
			}
			for i, a := range apps {
				x.guardedOrVia(fmt.Sprintf("%s response-append#%d no-presence-on-presenceless-doc", fk, i+1), a,
					[]Cmp{isFalse(vpField(docDP)), {L: vpField(ciPC), R: vpNil, Want: EQ}}, via,
					"a change goes out with presence only if the document allows it", "a change carrying presence can be returned for a presenceless document")
			}
			// (snapshot pull)
			s2b := x.P.FnObj(convPkg + ".SnapshotToBytes")
			for _, c := range callsTo(x.P.FuncsIn("server/packs"), s2b) {
				host := c.Parent()
				if !x.reachableFrom(pp, host) {
					continue
				}
				hk := "func=" + prog.FnName(host)
				arg := c.Common().Args[1]
				ph, isPhi := arg.(*ssa.Phi)
				ok := prog.IsNilConst(arg)
				if isPhi {
					guards, _ := GuardEdges(host, []Cmp{isFalse(vpField(optDP))}, nil)
					cut := map[prog.Edge]bool{}
					for e := range guards {
						cut[e] = true
					}
					open := prog.ReachableFrom(host.Blocks[0], cut)
					open[host.Blocks[0]] = true
					ok = true
					for i, e := range ph.Edges {
						if prog.IsNilConst(e) {
							continue
						}
						pred := ph.Block().Preds[i]
						if !cut[prog.Edge{From: pred, To: ph.Block()}] && open[pred] {
							ok = false
						}
					}
				}
				x.check(ok, hk+" snapshot-presences-nil-when-disabled", x.pos(c), "the snapshot carries presences only if the document allows it", "a snapshot for a presenceless document can carry presences")
			}
			// (stored snapshot)
			csi := x.P.IfaceMethod(dbPkg + ".Database.CreateSnapshotInfo")
			reset := x.P.FnObj(docPkg + ".(*InternalDocument).ResetPresences")
			for _, c := range callsTo(x.P.FuncsIn("server/packs"), csi) {
				host := c.Parent()
				hk := "func=" + prog.FnName(host)
				rs := callsToIn(host, reset)
				if len(rs) == 0 {
					x.fail(hk+" reset≺store when DisablePresence", x.pos(c), "presences are not reset before the snapshot row is stored")
					continue
				}
				x.mustPassWhen(hk+" reset≺store when DisablePresence", c, rs[0], vpField(docDP), vpTrue, EQ,
					"whenever the document opted out, presences are reset before the snapshot is stored", "with DisablePresence set a snapshot row can be stored with presences")
			}
		}})

	register(&Rule{ID: "P.flag", Min: 9, Text: "the presence flag always comes from the persisted document: every PushPullOptions value built in production code sets DisablePresence from DocInfo.DisablePresence; presence changes are applied with the change's own actor (Change.Execute), deleted on Clear and stored otherwise, keyed by the actor; the server-side detach builds a change that clears the presence before it pushes",
		Run: func(x *Ctx) {
			optT := x.P.Named("server/packs.PushPullOptions")
			optDP := x.P.Field("server/packs.PushPullOptions.DisablePresence")
			docDP := x.P.Field(dbPkg + ".DocInfo.DisablePresence")
			if optT == nil || optDP == nil || docDP == nil {
				x.C.Unresolved(x.id(), "PushPullOptions / DocInfo.DisablePresence")
				return
			}
			n := 0
			for _, fn := range x.P.ProdFuncs() {
				for _, b := range fn.Blocks {
					for _, ins := range b.Instrs {
						a, ok := ins.(*ssa.Alloc)
						if !ok || !isNamed(a.Type(), optT) {
							continue
						}
						if _, isParamSpill := paramSpill(a); isParamSpill {
							continue
						}
						n++
						set := false
						for _, r := range *a.Referrers() {
							if fa, ok := r.(*ssa.FieldAddr); ok && prog.FieldVar(fa) == optDP {
								for _, rr := range *fa.Referrers() {
									if st, ok := rr.(*ssa.Store); ok && prog.LoadedField(st.Val) == docDP {
										set = true
									}
								}
							}
						}
						x.check(set, fmt.Sprintf("func=%s options#%d DisablePresence=DocInfo.DisablePresence", prog.FnName(fn), n), x.pos(a),
							"the flag is taken from the persisted document", "a PushPullOptions value does not take DisablePresence from the document's persisted flag (presence leaks into, or is dropped from, the document)")
					}
				}
			}
			if n < 7 {
				x.C.Vacuous(x.id()+" PushPullOptions literals", n, 7)
			}
			// Change.Execute → presenceChange.Execute(own actor)
			if fn := x.fn(changePkg + ".(*Change).Execute"); fn != nil {
				pcExec := x.P.FnObj("pkg/document/presence/inner.(*Change).Execute")
				actF := x.P.Field(changePkg + ".ID.actorID")
				pcF := x.P.Field(changePkg + ".Change.presenceChange")
				cs := callsToIn(fn, pcExec)
				k := "func=" + prog.FnName(fn)
				if len(cs) != 1 {
					x.fail(k+" applies-presence", x.fpos(fn), "the presence change is not applied with the change")
				} else {
					a := cs[0].Common().Args[1]
					own := prog.LoadedField(a) == actF
					if !own {
						if f, ok := prog.Strip(a).(*ssa.Field); ok && prog.FieldVar(f) == actF {
							own = true
						}
					}
					if !own {
						own = prog.DependsOn(a, func(v ssa.Value) bool {
							f := prog.LoadedField(v)
							if f == nil {
								if fv, ok := v.(*ssa.Field); ok {
									f = prog.FieldVar(fv)
								}
							}
							return f == actF
						})
					}
					x.check(own, k+" presence-with-own-actor", x.pos(cs[0]), "the presence is applied for the change's own actor", "the presence change is applied for an actor other than the change's author")
					x.guardedSite(k+" presence-only-if-present", cs[0], []Cmp{{L: vpField(pcF), R: vpNil, Want: NE}}, nil)
				}
			}
			if fn := x.fn("pkg/document/presence/inner.(*Change).Execute"); fn != nil {
				clear, ok := x.constStr("pkg/document/presence/inner.Clear")
				ctF := x.P.Field("pkg/document/presence/inner.Change.ChangeType")
				if ok && ctF != nil {
					k := "func=" + prog.FnName(fn)
					del := x.P.FnObj("pkg/document/presence/inner.(*Map).Delete")
					sto := x.P.FnObj("pkg/document/presence/inner.(*Map).Store")
					ds, ss := callsToIn(fn, del), callsToIn(fn, sto)
					if len(ds) != 1 || len(ss) != 1 {
						x.fail(k+" shape", x.fpos(fn), "expected one Delete and one Store")
					} else {
						x.guardedSite(k+" delete-on-clear", ds[0], []Cmp{{L: vpField(ctF), R: vpStr(clear), Want: EQ}}, nil)
						x.guardedSite(k+" store-otherwise", ss[0], []Cmp{{L: vpField(ctF), R: vpStr(clear), Want: NE}}, nil)
					}
				}
			}
			// the presence map really forgets a participant: in Map.Delete every copy into the replacement map is on the
			// edge key != clientID, and the in-place path deletes the key
			if fn := x.fn("pkg/document/presence/inner.(*Map).Delete"); fn != nil {
				k := "func=" + prog.FnName(fn)
				idP := vpIsParam(fn.Params[1])
				rangeKey := VP{"copied key", func(v ssa.Value) bool {
					ex, ok := v.(*ssa.Extract)
					if !ok || ex.Index != 1 {
						return false
					}
					_, isNext := ex.Tuple.(*ssa.Next)
					return isNext
				}}
				copies, dels := 0, 0
				for _, b := range fn.Blocks {
					for _, ins := range b.Instrs {
						switch t := ins.(type) {
						case *ssa.MapUpdate:
							copies++
							x.guardedSite(fmt.Sprintf("%s copy#%d skips-the-deleted-key", k, copies), t, []Cmp{{L: rangeKey, R: idP, Want: NE}}, nil)
						case ssa.CallInstruction:
							if bi, ok := t.Common().Value.(*ssa.Builtin); ok && bi.Name() == "delete" && idP.match(t.Common().Args[1]) {
								dels++
							}
						}
					}
				}
				x.check(dels >= 1, k+" deletes-the-key", x.fpos(fn), "the key is deleted on the in-place path", "Map.Delete no longer deletes the participant's key")
			}
			// cluster detach clears the presence before pushing
			p := x.pipe()
			if fn := x.fn("server/rpc.(*clusterServer).DetachDocument"); fn != nil && p.ok {
				clr := x.P.FnObj("pkg/document/presence.(*Presence).Clear")
				ppObj, _ := p.PushPull.Object().(*types.Func)
				cs, ps := callsToIn(fn, clr), callsToIn(fn, ppObj)
				ok := len(cs) >= 1 && len(ps) >= 1 && prog.Dominates(cs[0], ps[0])
				x.check(ok, "func="+prog.FnName(fn)+" clear-presence≺push", x.fpos(fn), "the server-side detach clears the client's presence", "the server-side detach no longer clears the client's presence: a deactivated participant stays visible")
			}
		}})
}

// paramSpill reports whether an Alloc is the spill of a parameter (`*a = param`).
func paramSpill(a *ssa.Alloc) (*ssa.Parameter, bool) {
	for _, r := range *a.Referrers() {
		if st, ok := r.(*ssa.Store); ok && st.Addr == ssa.Value(a) {
			if pm, ok := st.Val.(*ssa.Parameter); ok {
				return pm, true
			}
		}
	}
	return nil, false
}
