package rules

import (
	"fmt"
	"go/types"
	"strings"

	"yv/internal/prog"

	"golang.org/x/tools/go/ssa"
)

// guardedOrVia: every path to site passes a guard edge of cmps or one of the via
// instructions.
func (x *Ctx) guardedOrVia(key string, site ssa.Instruction, cmps []Cmp, via []ssa.Instruction, held, violated string) bool {
	ok := reachedOnlyGuardedOrVia(site, cmps, via)
	x.check(ok, key, x.pos(site), held, violated)
	return ok
}

// reachedOnlyGuardedOrVia is the deciding part of guardedOrVia, without a report.
func reachedOnlyGuardedOrVia(site ssa.Instruction, cmps []Cmp, via []ssa.Instruction) bool {
	fn := site.Parent()
	guards, _ := GuardEdges(fn, cmps, nil)
	cut := map[prog.Edge]bool{}
	for e := range guards {
		cut[e] = true
	}
	ok := false
	for _, v := range via {
		if v.Block() == site.Block() && prog.InstrIndex(v) < prog.InstrIndex(site) {
			ok = true
		}
		for _, s := range v.Block().Succs {
			cut[prog.Edge{From: v.Block(), To: s}] = true
		}
	}
	if !ok {
		ok = len(cut) > 0 && prog.CutDisconnects(fn, site.Block(), cut)
	}
	return ok
}

func init() {
	register(&Rule{ID: "P.strip", Min: 9, Text: "a presenceless document never stores, returns or snapshots presence: (in) whenever PushPullOptions.DisablePresence may be true every path to the log append passes the strip, whose result replaces the request's changes; the strip drops presence-only changes and clears presence on the rest; (out) a pulled change is added to the response only if the document allows presence, or it carries none, or its presence was cleared on a DeepCopy (never on the cached object); (snapshot pull) the presences handed to SnapshotToBytes are nil whenever DisablePresence is true; (stored snapshot) presences are reset before CreateSnapshotInfo whenever the document's flag is set",
		Run: func(x *Ctx) {
			p := x.pipe()
			if !p.ok {
				return
			}
			optDP := x.P.Field("server/packs.PushPullOptions.DisablePresence")
			docDP := x.P.Field(dbPkg + ".DocInfo.DisablePresence")
			setPC := x.P.FnObj(changePkg + ".(*Change).SetPresenceChange")
			getPC := x.P.FnObj(changePkg + ".(*Change).PresenceChange")
			hasOps := x.P.FnObj(changePkg + ".(*Change).HasOperations")
			packChanges := x.P.Field(changePkg + ".Pack.Changes")
			if optDP == nil || docDP == nil || setPC == nil || getPC == nil || hasOps == nil || packChanges == nil {
				x.C.Unresolved(x.id(), "PushPullOptions.DisablePresence / DocInfo.DisablePresence / Change.SetPresenceChange")
				return
			}
			pp := p.PushPull
			k := "func=" + prog.FnName(pp)
			// the strip function: a callee of PushPull in package packs that calls SetPresenceChange
			var strip *ssa.Call
			for _, c := range prog.CallsIn(pp) {
				cc, ok := c.(*ssa.Call)
				if !ok || cc.Call.StaticCallee() == nil || prog.PkgOf(cc.Call.StaticCallee()) != prog.PkgOf(pp) {
					continue
				}
				if len(callsToIn(cc.Call.StaticCallee(), setPC)) > 0 {
					strip = cc
				}
			}
			var push ssa.CallInstruction
			for _, c := range x.callsReaching(pp, p.CreateCI) {
				if _, isGo := c.(*ssa.Go); !isGo {
					push = c
				}
			}
			if strip == nil || push == nil {
				x.fail(k+" strip-in", x.fpos(pp), "PushPull no longer strips presence before the push")
			} else {
				x.mustPassWhen(k+" strip≺push when DisablePresence", push, strip, vpField(optDP), vpTrue, EQ,
					"whenever the document opted out, presence is stripped before anything is stored", "with DisablePresence set a path reaches the log append without stripping presence")
				replaced := false
				for _, st := range storesTo(pp, packChanges) {
					if prog.Strip(st.Val) == ssa.Value(strip) && prog.MayPrecede(st, push) && !prog.MayPrecede(push, st) {
						replaced = true
					}
				}
				x.check(replaced, k+" request.Changes=strip-result", x.pos(strip), "the stripped list replaces the request's changes", "the stripped list is not what is pushed")
				// the strip kernel
				sf := strip.Call.StaticCallee()
				sk := "func=" + prog.FnName(sf)
				var app ssa.Instruction
				for _, c := range builtinCalls(sf, "append") {
					app = c
				}
				clears := callsToIn(sf, setPC)
				if app == nil || len(clears) == 0 {
					x.fail(sk+" shape", x.fpos(sf), "the strip no longer filters and clears")
				} else {
					okNil := true
					for _, c := range clears {
						if !prog.IsNilConst(c.Common().Args[1]) {
							okNil = false
						}
					}
					x.check(okNil, sk+" clears-with-nil", x.pos(clears[0]), "presence is cleared", "the strip sets a non-nil presence")
					var via []ssa.Instruction
					for _, c := range clears {
						via = append(via, c)
					}
					x.guardedOrVia(sk+" kept-change-has-no-presence", app, []Cmp{{L: vpCall(getPC), R: vpNil, Want: EQ}}, via,
						"a change is kept only without presence or after clearing it", "a change that still carries presence can be kept by the strip")
					x.rejectOn(sk+" presence-only-change-dropped", app, isFalse(vpCall(hasOps)))
				}
			}
			// (out) pull side
			ciPC := x.P.Field(dbPkg + ".ChangeInfo.PresenceChange")
			ciT := x.P.Named(dbPkg + ".ChangeInfo")
			dcM := x.P.FnObj(dbPkg + ".(*ChangeInfo).DeepCopy")
			fn := p.Puller
			fk := "func=" + prog.FnName(fn)
			var apps []ssa.Instruction
			for _, c := range builtinCalls(fn, "append") {
				if sl, ok := c.Call.Args[0].Type().Underlying().(*types.Slice); ok && isNamed(sl.Elem(), ciT) {
					apps = append(apps, c)
				}
			}
			var via []ssa.Instruction
			for _, st := range storesTo(fn, ciPC) {
				if prog.IsNilConst(st.Val) {
					via = append(via, st)
					base := st.Addr.(*ssa.FieldAddr).X
					x.check(flowsFromCallTo(base, dcM), fk+" presence-cleared-on-a-copy", x.pos(st), "the presence is cleared on a DeepCopy", "the presence is cleared on the shared (cached) ChangeInfo itself")
				}
			}
			if len(apps) == 0 {
				x.fail(fk+" out", x.fpos(fn), "no response list in the pull function")
			}
			for i, a := range apps {
				x.guardedOrVia(fmt.Sprintf("%s response-append#%d no-presence-on-presenceless-doc", fk, i+1), a,
					[]Cmp{isFalse(vpField(docDP)), {L: vpField(ciPC), R: vpNil, Want: EQ}}, via,
					"a change goes out with presence only if the document allows it", "a change carrying presence can be returned for a presenceless document")
			}
			// (snapshot pull)
			s2b := x.P.FnObj(convPkg + ".SnapshotToBytes")
			for _, c := range callsTo(x.P.FuncsIn("server/packs"), s2b) {
				host := c.Parent()
				if !x.reachableFrom(pp, host) {
					continue
				}
				hk := "func=" + prog.FnName(host)
				arg := c.Common().Args[1]
				ph, isPhi := arg.(*ssa.Phi)
				ok := prog.IsNilConst(arg)
				if isPhi {
					guards, _ := GuardEdges(host, []Cmp{isFalse(vpField(optDP))}, nil)
					cut := map[prog.Edge]bool{}
					for e := range guards {
						cut[e] = true
					}
					open := prog.ReachableFrom(host.Blocks[0], cut)
					open[host.Blocks[0]] = true
					ok = true
					for i, e := range ph.Edges {
						if prog.IsNilConst(e) {
							continue
						}
						pred := ph.Block().Preds[i]
						if !cut[prog.Edge{From: pred, To: ph.Block()}] && open[pred] {
							ok = false
						}
					}
				}
				x.check(ok, hk+" snapshot-presences-nil-when-disabled", x.pos(c), "the snapshot carries presences only if the document allows it", "a snapshot for a presenceless document can carry presences")
			}
			// (stored snapshot)
			csi := x.P.IfaceMethod(dbPkg + ".Database.CreateSnapshotInfo")
			reset := x.P.FnObj(docPkg + ".(*InternalDocument).ResetPresences")
			for _, c := range callsTo(x.P.FuncsIn("server/packs"), csi) {
				host := c.Parent()
				hk := "func=" + prog.FnName(host)
				rs := callsToIn(host, reset)
				if len(rs) == 0 {
					x.fail(hk+" reset≺store when DisablePresence", x.pos(c), "presences are not reset before the snapshot row is stored")
					continue
				}
				x.mustPassWhen(hk+" reset≺store when DisablePresence", c, rs[0], vpField(docDP), vpTrue, EQ,
					"whenever the document opted out, presences are reset before the snapshot is stored", "with DisablePresence set a snapshot row can be stored with presences")
			}
		}})

	register(&Rule{ID: "P.flag", Min: 9, Text: "the presence flag always comes from the persisted document: every PushPullOptions value built in production code sets DisablePresence from DocInfo.DisablePresence; presence changes are applied with the change's own actor (Change.Execute), deleted on Clear and stored otherwise, keyed by the actor; the server-side detach builds a change that clears the presence before it pushes",
		Run: func(x *Ctx) {
			optT := x.P.Named("server/packs.PushPullOptions")
			optDP := x.P.Field("server/packs.PushPullOptions.DisablePresence")
			docDP := x.P.Field(dbPkg + ".DocInfo.DisablePresence")
			if optT == nil || optDP == nil || docDP == nil {
				x.C.Unresolved(x.id(), "PushPullOptions / DocInfo.DisablePresence")
				return
			}
			n := 0
			for _, fn := range x.P.ProdFuncs() {
				for _, b := range fn.Blocks {
					for _, ins := range b.Instrs {
						a, ok := ins.(*ssa.Alloc)
						if !ok || !isNamed(a.Type(), optT) {
							continue
						}
						if _, isParamSpill := paramSpill(a); isParamSpill {
							continue
						}
						n++
						set := false
						for _, r := range *a.Referrers() {
							if fa, ok := r.(*ssa.FieldAddr); ok && prog.FieldVar(fa) == optDP {
								for _, rr := range *fa.Referrers() {
									if st, ok := rr.(*ssa.Store); ok && prog.LoadedField(st.Val) == docDP {
										set = true
									}
								}
							}
						}
						x.check(set, fmt.Sprintf("func=%s options#%d DisablePresence=DocInfo.DisablePresence", prog.FnName(fn), n), x.pos(a),
							"the flag is taken from the persisted document", "a PushPullOptions value does not take DisablePresence from the document's persisted flag (presence leaks into, or is dropped from, the document)")
					}
				}
			}
			if n < 7 {
				x.C.Vacuous(x.id()+" PushPullOptions literals", n, 7)
			}
			// Change.Execute → presenceChange.Execute(own actor)
			if fn := x.fn(changePkg + ".(*Change).Execute"); fn != nil {
				pcExec := x.P.FnObj("pkg/document/presence/inner.(*Change).Execute")
				actF := x.P.Field(changePkg + ".ID.actorID")
				pcF := x.P.Field(changePkg + ".Change.presenceChange")
				cs := callsToIn(fn, pcExec)
				k := "func=" + prog.FnName(fn)
				if len(cs) != 1 {
					x.fail(k+" applies-presence", x.fpos(fn), "the presence change is not applied with the change")
				} else {
					a := cs[0].Common().Args[1]
					own := prog.LoadedField(a) == actF
					if !own {
						if f, ok := prog.Strip(a).(*ssa.Field); ok && prog.FieldVar(f) == actF {
							own = true
						}
					}
					if !own {
						own = prog.DependsOn(a, func(v ssa.Value) bool {
							f := prog.LoadedField(v)
							if f == nil {
								if fv, ok := v.(*ssa.Field); ok {
									f = prog.FieldVar(fv)
								}
							}
							return f == actF
						})
					}
					x.check(own, k+" presence-with-own-actor", x.pos(cs[0]), "the presence is applied for the change's own actor", "the presence change is applied for an actor other than the change's author")
					x.guardedSite(k+" presence-only-if-present", cs[0], []Cmp{{L: vpField(pcF), R: vpNil, Want: NE}}, nil)
				}
			}
			if fn := x.fn("pkg/document/presence/inner.(*Change).Execute"); fn != nil {
				clear, ok := x.constStr("pkg/document/presence/inner.Clear")
				ctF := x.P.Field("pkg/document/presence/inner.Change.ChangeType")
				if ok && ctF != nil {
					k := "func=" + prog.FnName(fn)
					del := x.P.FnObj("pkg/document/presence/inner.(*Map).Delete")
					sto := x.P.FnObj("pkg/document/presence/inner.(*Map).Store")
					ds, ss := callsToIn(fn, del), callsToIn(fn, sto)
					if len(ds) != 1 || len(ss) != 1 {
						x.fail(k+" shape", x.fpos(fn), "expected one Delete and one Store")
					} else {
						x.guardedSite(k+" delete-on-clear", ds[0], []Cmp{{L: vpField(ctF), R: vpStr(clear), Want: EQ}}, nil)
						x.guardedSite(k+" store-otherwise", ss[0], []Cmp{{L: vpField(ctF), R: vpStr(clear), Want: NE}}, nil)
					}
				}
			}
			// the presence map really forgets a participant: in Map.Delete every copy into the replacement map is on the
			// edge key != clientID, and the in-place path deletes the key
			if fn := x.fn("pkg/document/presence/inner.(*Map).Delete"); fn != nil {
				k := "func=" + prog.FnName(fn)
				idP := vpIsParam(fn.Params[1])
				rangeKey := VP{"copied key", func(v ssa.Value) bool {
					ex, ok := v.(*ssa.Extract)
					if !ok || ex.Index != 1 {
						return false
					}
					_, isNext := ex.Tuple.(*ssa.Next)
					return isNext
				}}
				copies, dels := 0, 0
				for _, b := range fn.Blocks {
					for _, ins := range b.Instrs {
						switch t := ins.(type) {
						case *ssa.MapUpdate:
							copies++
							x.guardedSite(fmt.Sprintf("%s copy#%d skips-the-deleted-key", k, copies), t, []Cmp{{L: rangeKey, R: idP, Want: NE}}, nil)
						case ssa.CallInstruction:
							if bi, ok := t.Common().Value.(*ssa.Builtin); ok && bi.Name() == "delete" && idP.match(t.Common().Args[1]) {
								dels++
							}
						}
					}
				}
				x.check(dels >= 1, k+" deletes-the-key", x.fpos(fn), "the key is deleted on the in-place path", "Map.Delete no longer deletes the participant's key")
			}
			// cluster detach clears the presence before pushing
			p := x.pipe()
			if fn := x.fn("server/rpc.(*clusterServer).DetachDocument"); fn != nil && p.ok {
				clr := x.P.FnObj("pkg/document/presence.(*Presence).Clear")
				ppObj, _ := p.PushPull.Object().(*types.Func)
				cs, ps := callsToIn(fn, clr), callsToIn(fn, ppObj)
				ok := len(cs) >= 1 && len(ps) >= 1 && prog.Dominates(cs[0], ps[0])
				x.check(ok, "func="+prog.FnName(fn)+" clear-presence≺push", x.fpos(fn), "the server-side detach clears the client's presence", "the server-side detach no longer clears the client's presence: a deactivated participant stays visible")
			}
		}})
}

// paramSpill reports whether an Alloc is the spill of a parameter (`*a = param`).
func paramSpill(a *ssa.Alloc) (*ssa.Parameter, bool) {
	for _, r := range *a.Referrers() {
		if st, ok := r.(*ssa.Store); ok && st.Addr == ssa.Value(a) {
			if pm, ok := st.Val.(*ssa.Parameter); ok {
				return pm, true
			}
		}
	}
	return nil, false
}

func init() {
	register(&Rule{ID: "P.cow", Min: 6, Text: "the presence map's copy-on-write is complete: inner.Map.DeepCopy shares the underlying map (and every per-client Presence in it) with its copy, so (1) every write to Map.presences (map assignment, delete) in a method of Map is reached only after the copied flag was seen true or after a fresh map was stored into the field in the same call; (2) a method of Map that returns a Presence either returns the result of a DeepCopy made in the same call, or (Load) hands out the shared value and then every caller uses it only through DeepCopy, a nil test or a read; (3) what Store/LoadOrStore put into the map is a DeepCopy. Otherwise an edit made on the user's editing copy — which a failed Update must discard — shows through in the document",
		Run: func(x *Ctx) {
			const innerPkg = "pkg/document/presence/inner"
			mapT := x.P.Named(innerPkg + ".Map")
			presT := x.P.Named(innerPkg + ".Presence")
			presF := x.P.Field(innerPkg + ".Map.presences")
			copiedF := x.P.Field(innerPkg + ".Map.copied")
			if mapT == nil || presT == nil || presF == nil || copiedF == nil {
				x.C.Unresolved(x.id(), innerPkg+".Map")
				return
			}
			copiedLoad := VP{"copied.Load()", func(v ssa.Value) bool {
				c, ok := prog.Strip(v).(*ssa.Call)
				if !ok || prog.CallObj(c) == nil || prog.CallObj(c).Name() != "Load" || len(c.Call.Args) == 0 {
					return false
				}
				fa, isFA := c.Call.Args[0].(*ssa.FieldAddr)
				return isFA && prog.FieldVar(fa) == copiedF
			}}
			isDeepCopy := func(v ssa.Value) bool {
				return prog.Reaches(v, func(w ssa.Value) bool {
					c, ok := prog.Strip(w).(*ssa.Call)
					return ok && prog.CallObj(c) != nil && prog.CallObj(c).Name() == "DeepCopy"
				})
			}
			n := 0
			isMapMethod := func(fn *ssa.Function) bool {
				r := fn.Signature.Recv()
				if r == nil {
					return false
				}
				pt, ok := r.Type().(*types.Pointer)
				return ok && isNamed(pt.Elem(), mapT)
			}
			freshStores := func(fn *ssa.Function) []ssa.Instruction {
				var fresh []ssa.Instruction
				for _, st := range storesTo(fn, presF) {
					if _, isMk := prog.Strip(st.Val).(*ssa.MakeMap); isMk {
						fresh = append(fresh, st)
					}
				}
				return fresh
			}
			// a helper method of Map that returns only with a private map (every
			// return is reached only after copied was seen true or after a fresh
			// map was installed) counts, at its call sites on the same receiver,
			// like the inlined copy-on-write block
			ensurer := map[*ssa.Function]bool{}
			for _, fn := range x.P.FuncsIn(innerPkg) {
				if !isMapMethod(fn) || len(fn.Blocks) == 0 {
					continue
				}
				rets := prog.Returns(fn)
				all := len(rets) > 0
				for _, ret := range rets {
					if !reachedOnlyGuardedOrVia(ret, []Cmp{isTrue(copiedLoad)}, freshStores(fn)) {
						all = false
					}
				}
				if all {
					ensurer[fn] = true
				}
			}
			for _, fn := range x.P.FuncsIn(innerPkg) {
				if !isMapMethod(fn) {
					continue
				}
				k := "func=" + prog.FnName(fn)
				// fresh stores into the field, and calls of an ensuring helper on the same receiver
				fresh := freshStores(fn)
				for _, b := range fn.Blocks {
					for _, ins := range b.Instrs {
						c, ok := ins.(*ssa.Call)
						if !ok || c.Call.IsInvoke() || len(c.Call.Args) == 0 {
							continue
						}
						if callee := c.Call.StaticCallee(); callee != nil && ensurer[callee] && len(fn.Params) > 0 && prog.Strip(c.Call.Args[0]) == ssa.Value(fn.Params[0]) {
							fresh = append(fresh, c)
						}
					}
				}
				// (1) writes
				w := 0
				for _, b := range fn.Blocks {
					for _, ins := range b.Instrs {
						var m ssa.Value
						var val ssa.Value
						switch t := ins.(type) {
						case *ssa.MapUpdate:
							m, val = t.Map, t.Value
						case *ssa.Call:
							if bi, ok := t.Call.Value.(*ssa.Builtin); ok && bi.Name() == "delete" {
								m = t.Call.Args[0]
							}
						}
						if m == nil || prog.LoadedField(m) != presF {
							continue
						}
						w++
						n++
						x.guardedOrVia(fmt.Sprintf("%s write#%d only-on-a-private-map", k, w), ins, []Cmp{isTrue(copiedLoad)}, fresh,
							"the write happens only after copied was seen true or a fresh map was installed", "a method writes into Map.presences while the map may still be shared with the Map it was copied from / to: the write shows through in the other one")
						if val != nil {
							x.check(isDeepCopy(val), fmt.Sprintf("%s write#%d stores-a-copy", k, w), x.pos(ins), "what is stored is a DeepCopy", "the presence stored into the map is the caller's own object, not a copy: later writes by the caller change the map's entry")
						}
					}
				}
				// (2) returned presences
				res := fn.Signature.Results()
				if res.Len() == 1 && isNamed(res.At(0).Type(), presT) {
					shared := false
					for i, ret := range prog.Returns(fn) {
						v := prog.ReturnValue(ret, 0)
						if prog.IsNilConst(v) || isDeepCopy(v) {
							n++
							x.hold(fmt.Sprintf("%s return#%d private", k, i+1), x.pos(ret), "returns nil or a DeepCopy made in this call")
							continue
						}
						shared = true
					}
					if shared {
						// every caller treats the result as read-only
						for _, c := range x.directCallers(fn.Object().(*types.Func)) {
							if c.Value() == nil || c.Parent().Pkg == nil || !prog.IsProd(c.Parent().Pkg.Pkg.Path()) {
								continue
							}
							n++
							bad := ""
							var visit func(v ssa.Value, d int)
							visit = func(v ssa.Value, d int) {
								if d > 4 {
									return
								}
								for _, ref := range *v.Referrers() {
									switch t := ref.(type) {
									case *ssa.DebugRef:
									case *ssa.BinOp, *ssa.Lookup, *ssa.Range:
									case *ssa.Phi:
										visit(t, d+1)
									case *ssa.ChangeType:
										visit(t, d+1)
									case *ssa.Store:
										// spilled to a local and read back
										if a, isA := t.Addr.(*ssa.Alloc); isA && t.Val == v {
											for _, ar := range *a.Referrers() {
												if u, isU := ar.(*ssa.UnOp); isU {
													visit(u, d+1)
												}
											}
										} else {
											bad = ref.String()
										}
									case ssa.CallInstruction:
										o := prog.CallObj(t)
										if o != nil && (o.Name() == "DeepCopy" || o.Name() == "len") {
											continue
										}
										if bi, isB := t.Common().Value.(*ssa.Builtin); isB && bi.Name() == "len" {
											continue
										}
										bad = ref.String()
									default:
										bad = ref.String()
									}
								}
							}
							visit(c.Value(), 0)
							x.check(bad == "", fmt.Sprintf("%s caller=%s result-only-read-or-copied", k, prog.FnName(c.Parent())), x.pos(c),
								"the shared presence is only read, nil-tested or deep-copied", "the presence handed out by "+fn.Name()+" is shared with the map it came from, and this caller uses it as "+bad+": a write through it changes the document's presence behind its back")
						}
					}
				}
			}
			if n < 6 {
				x.C.Vacuous(x.id()+" sites", n, 6)
			}
		}})
}

func init() {
	register(&Rule{ID: "P.client", Min: 4, Text: "the client SDK brackets an attachment with presence changes: detachDocument runs Document.Update with an updater that calls Presence.Clear, returns on its error edge, and only then builds the change pack it sends with DetachDocument — so the clear travels in the same totally ordered change stream as every other presence change; attachDocument runs the updater that calls Presence.Initialize before it builds the pack, unless the caller set DisablePresence; after the detach response was applied the attachment is dropped",
		Run: func(x *Ctx) {
			update := x.P.FnObj(docPkg + ".(*Document).Update")
			createPack := x.P.FnObj(docPkg + ".(*Document).CreateChangePack")
			if update == nil || createPack == nil {
				x.C.Unresolved(x.id(), "Document.Update / CreateChangePack")
				return
			}
			calls := func(cl *ssa.Function, name string) bool {
				for _, c := range prog.CallsIn(cl) {
					if o := prog.CallObj(c); o != nil && o.Name() == name && o.Pkg() != nil && strings.HasSuffix(o.Pkg().Path(), "/presence") {
						return true
					}
				}
				return false
			}
			n := 0
			for _, sp := range []struct{ fn, method string }{{"client.(*Client).detachDocument", "Clear"}, {"client.(*Client).attachDocument", "Initialize"}} {
				fn := x.fn(sp.fn)
				if fn == nil {
					x.C.Unresolved(x.id(), sp.fn)
					continue
				}
				k := "func=" + prog.FnName(fn)
				var upd ssa.CallInstruction
				for _, c := range callsToIn(fn, update) {
					for _, cl := range closureArgs(c) {
						if calls(cl, sp.method) {
							upd = c
						}
					}
				}
				packs := callsToIn(fn, createPack)
				n++
				if upd == nil || len(packs) == 0 {
					x.fail(k+" presence-"+sp.method+"-before-pack", x.fpos(fn), "the function no longer runs an updater that calls Presence."+sp.method+" before building its change pack")
					continue
				}
				for _, pc := range packs {
					if sp.method == "Clear" {
						x.check(prog.Dominates(upd, pc), k+" presence-Clear-before-pack", x.pos(pc), "the clear is made before the pack is built", "the pack sent with DetachDocument is built without the presence clear: peers keep showing the detached client")
					} else {
						dp := x.P.Field("client.AttachOptions.DisablePresence")
						x.guardedOrVia(k+" presence-Initialize-before-pack-unless-disabled", pc, []Cmp{isTrue(vpField(dp))}, []ssa.Instruction{upd},
							"the pack is built after the initial presence, or presence is disabled", "the attach pack can be built without the initial presence change although presence is enabled")
					}
					if v, ok := upd.(*ssa.Call); ok {
						n++
						cmps := []Cmp{errNilCmp(v)}
						if sp.method == "Initialize" {
							cmps = append(cmps, isTrue(vpField(x.P.Field("client.AttachOptions.DisablePresence"))))
						}
						x.guardedSite(k+" updater-error-returns", pc, cmps, nil)
					}
				}
			}
			if n < 4 {
				x.C.Vacuous(x.id()+" sites", n, 4)
			}
		}})
}

func init() {
	register(&Rule{ID: "P.proxy", Min: 4, Text: "every presence edit is announced: each editing method of the presence proxy (Set, Delete, Clear, Initialize of presence.Presence) hands a presence change to the change context (Context.SetPresenceChange) on every normal path — no early return skips it, in particular Clear announces a Clear even when the local data is empty (the server-built clear of a deactivated client, and a client that attached without initial presence, start from empty data and must still disappear for everyone); and in package server/packs the in-memory presences of a document are reset (ResetPresences) only on an edge where the presence-disabled flag (DocInfo.DisablePresence / PushPullOptions.DisablePresence) is true; server packages never consult the online-only views Presences()/Presence()/MyPresence(), which are always empty on a server-side document",
		Run: func(x *Ctx) {
			setPC := x.P.FnObj(changePkg + ".(*Context).SetPresenceChange")
			if setPC == nil {
				x.C.Unresolved(x.id(), "change.Context.SetPresenceChange")
				return
			}
			n := 0
			for _, name := range []string{"Set", "Delete", "Clear", "Initialize"} {
				fn := x.fn("pkg/document/presence.(*Presence)." + name)
				if fn == nil {
					continue
				}
				n++
				ok := false
				for _, c := range callsToIn(fn, setPC) {
					first := fn.Blocks[0].Instrs[0]
					if x.P.PostDominates(c, first) || c.Block() == fn.Blocks[0] {
						ok = true
					}
				}
				x.check(ok, "func="+prog.FnName(fn)+" always-announces", x.fpos(fn), "SetPresenceChange is reached on every normal path", "a path through the method returns without announcing a presence change: the edit (or the clear of a leaving client) never reaches the peers")
			}
			// Clear announces the Clear type
			if fn := x.fn("pkg/document/presence.(*Presence).Clear"); fn != nil {
				clearC, okC := x.constStr("pkg/document/presence/inner.Clear")
				ctF := x.P.Field("pkg/document/presence/inner.Change.ChangeType")
				okType := false
				if okC && ctF != nil {
					for _, b := range fn.Blocks {
						for _, ins := range b.Instrs {
							if st, ok := ins.(*ssa.Store); ok && prog.FieldVar(st.Addr) == ctF {
								if k, isK := constString(st.Val); isK && k == clearC {
									okType = true
								}
							}
						}
					}
					n++
					x.check(okType, "func="+prog.FnName(fn)+" announces-type-Clear", x.fpos(fn), "the change announced is of type Clear", "Clear no longer announces a change of type Clear")
				}
			}
			// server side: resets only for presence-disabled documents
			reset := x.P.FnObj(docPkg + ".(*InternalDocument).ResetPresences")
			optDP := x.P.Field("server/packs.PushPullOptions.DisablePresence")
			docDP := x.P.Field(dbPkg + ".DocInfo.DisablePresence")
			if reset != nil && optDP != nil && docDP != nil {
				for _, fn := range x.P.FuncsIn("server/packs") {
					for i, c := range callsToIn(fn, reset) {
						n++
						x.guardedSite(fmt.Sprintf("func=%s reset#%d only-if-presence-disabled", prog.FnName(fn), i+1), c, []Cmp{isTrue(vpField(optDP)), isTrue(vpField(docDP))}, nil)
					}
				}
			}
			// the online-only views are client-side notions: on the server nobody is 'online' in a rebuilt document,
			// so Presences()/Presence()/MyPresence() are always empty there and must not drive a decision
			online := map[string]bool{"Presences": true, "Presence": true, "MyPresence": true}
			viol := 0
			for _, fn := range x.P.ProdFuncs() {
				if fn.Pkg == nil || !strings.Contains(fn.Pkg.Pkg.Path(), "/server/") {
					continue
				}
				for _, c := range prog.CallsIn(fn) {
					o := prog.CallObj(c)
					if o == nil || !online[o.Name()] || o.Pkg() == nil || !strings.HasSuffix(o.Pkg().Path(), "/pkg/document") {
						continue
					}
					viol++
					x.fail(fmt.Sprintf("func=%s server-uses-online-only-view=%s#%d", prog.FnName(fn), o.Name(), viol), x.pos(c), "server code consults "+o.Name()+"(), the view restricted to online clients, which is always empty on a server-side document: use AllPresences()")
				}
			}
			x.C.Count("server calls of online-only presence views", viol)
			if n < 4 {
				x.C.Vacuous(x.id()+" sites", n, 4)
			}
		}})
}

func init() {
	register(&Rule{ID: "P.gate", Min: 2, Text: "the presence gate of a presenceless document drops everything the updater did with presence: in Document.Update the call Context.DropPresenceChange is always accompanied by Context.ClearReversePresence (undo/redo has no presence gate of its own — a presence undo entry left behind is executed locally by the next Undo and pushed, the server strips it, and the replicas disagree); and the server-built clear that detaches a deactivated client takes its ClientSeq from the client's stored checkpoint (ClientInfo.Checkpoint), the value the push de-duplication compares with, not from the client's latest stored change",
		Run: func(x *Ctx) {
			drop := x.P.FnObj(changePkg + ".(*Context).DropPresenceChange")
			clr := x.P.FnObj(changePkg + ".(*Context).ClearReversePresence")
			if drop == nil || clr == nil {
				x.C.Unresolved(x.id(), "Context.DropPresenceChange / ClearReversePresence")
				return
			}
			n := 0
			for _, fn := range x.P.FuncsIn(docPkg) {
				for i, d := range callsToIn(fn, drop) {
					n++
					ok := false
					for _, c := range callsToIn(fn, clr) {
						if x.P.PostDominates(c, d) || prog.Dominates(c, d) && c.Block() == d.Block() {
							ok = true
						}
					}
					x.check(ok, fmt.Sprintf("func=%s drop#%d clears-reverse-presence-too", prog.FnName(fn), i+1), x.pos(d), "the reverse presence is cleared together with the change", "the presence change is dropped but the reverse presence recorded for undo is kept: the next Undo/Redo replays presence on a presenceless document")
				}
			}
			// server-built clear
			newID := x.P.FnObj(changePkg + ".NewID")
			cpM := x.P.FnObj(dbPkg + ".(*ClientInfo).Checkpoint")
			cpCS := x.P.Field(changePkg + ".Checkpoint.ClientSeq")
			if newID != nil && cpM != nil && cpCS != nil {
				for _, fn := range x.P.FuncsIn("server/rpc") {
					for i, c := range callsToIn(fn, newID) {
						n++
						a := paramArg(c, 0)
						ok := (prog.LoadedField(a) == cpCS || isFieldVal(a, cpCS)) && prog.DependsOn(a, func(w ssa.Value) bool {
							cc, isC := prog.Strip(w).(*ssa.Call)
							return isC && sameFunc(prog.CallObj(cc), cpM)
						})
						x.check(ok, fmt.Sprintf("func=%s server-built-change-id#%d clientSeq=stored-checkpoint", prog.FnName(fn), i+1), x.pos(c), "the ClientSeq comes from ClientInfo.Checkpoint", "the ID of the change the server builds on the client's behalf does not take its ClientSeq from the client's stored checkpoint: after push-only syncs the clear is numbered at or below the checkpoint and the push drops it as already stored — the deactivated participant never disappears")
					}
				}
			}
			if n < 2 {
				x.C.Vacuous(x.id()+" sites", n, 2)
			}
		}})
}
