package rules

// Seeded negative variants for the thorough-tier self-test: one textual edit each,
// analysed through the overlay (the repository is not touched). Every variant still
// type-checks; the named obligation must be reported, otherwise the thorough check
// fails with SELFTEST-FAIL. A variant whose edit site no longer exists is skipped.

func init() {
	const (
		pushpull = "server/packs/pushpull.go"
		memdb    = "server/backend/database/memory/database.go"
		crdt     = "pkg/document/crdt/"
		doc      = "pkg/document/document.go"
	)
	// ---- C04
	variant(Variant{"C04", "dedup-off-by-one", pushpull, "if cn.ID().ClientSeq() <= cpBeforePush.ClientSeq {\n\t\t\tlogging", "if cn.ID().ClientSeq() < cpBeforePush.ClientSeq {\n\t\t\tlogging", "O2.dedup"})
	variant(Variant{"C04", "own-filter-weakened", pushpull, "cpAfterPush.ClientSeq >= pulledChange.ClientSeq", "cpAfterPush.ClientSeq > pulledChange.ClientSeq", "O2.own"})
	variant(Variant{"C04", "pull-to-post-push-head", pushpull, "initialSeq := docInfo.ServerSeq - int64(len(pushables))", "initialSeq := docInfo.ServerSeq", "PULL.range"})
	variant(Variant{"C04", "push-lock-only-for-remove", pushpull, "if len(pushables) > 0 || reqPack.IsRemoved {\n\t\tlocker", "if reqPack.IsRemoved {\n\t\tlocker", "L4a"})
	variant(Variant{"C04", "stored-row-seq", memdb, "\tloadedDocInfo.ServerSeq = docInfo.ServerSeq\n\n\tfor _, cn := range changes {", "\tloadedDocInfo.ServerSeq = docInfo.ServerSeq - 1\n\n\tfor _, cn := range changes {", "DB.append"})
	variant(Variant{"C04", "conditional-commit", memdb, "\tif err := txn.Insert(tblDocuments, loadedDocInfo); err != nil {\n\t\treturn nil, change.InitialCheckpoint, fmt.Errorf(\"create changes of %s: %w\", refKey, err)\n\t}\n\ttxn.Commit()", "\tif err := txn.Insert(tblDocuments, loadedDocInfo); err != nil {\n\t\treturn nil, change.InitialCheckpoint, fmt.Errorf(\"create changes of %s: %w\", refKey, err)\n\t}\n\tif len(changes) > 0 {\n\t\ttxn.Commit()\n\t}", "L8"})
	// ---- C11
	variant(Variant{"C11", "attachment-check-only-on-attach", pushpull, "\tif !clientInfo.IsServerClient() {\n\t\tif err := clientInfo.EnsureDocumentAttachedOrAttaching(docKey.DocID); err != nil {", "\tif !clientInfo.IsServerClient() && opts.Status == document.StatusAttached {\n\t\tif err := clientInfo.EnsureDocumentAttachedOrAttaching(docKey.DocID); err != nil {", "O3.attach"})
	variant(Variant{"C11", "ensure-attached-weakened", "server/backend/database/client_info.go", "\tif !i.hasDocument(docID) || i.Documents[docID].Status != DocumentAttached {\n\t\treturn fmt.Errorf(\"ensure attached %s in client(%s): %w\",", "\tif !i.hasDocument(docID) || i.Documents[docID].Status == DocumentRemoved {\n\t\treturn fmt.Errorf(\"ensure attached %s in client(%s): %w\",", "O2.state"})
	variant(Variant{"C11", "deactivate-skips-attaching", "server/clients/clients.go", "\t\tif clientDocInfo.Status != database.DocumentAttached &&\n\t\t\tclientDocInfo.Status != database.DocumentAttaching {", "\t\tif clientDocInfo.Status != database.DocumentAttached {", "O1.deactivate"})
	variant(Variant{"C11", "removed-guard-off-by-one", pushpull, "if currentDocInfo.IsRemoved() && len(pushables) > 0 {", "if currentDocInfo.IsRemoved() && len(pushables) > 1 {", "O2.removed"})
	variant(Variant{"C11", "is-attaching-weakened", "server/backend/database/client_info.go", "\tif i.hasDocument(docID) && i.Documents[docID].Status == DocumentAttaching {", "\tif i.hasDocument(docID) && i.Documents[docID].Status != DocumentAttached {", "O2.state"})
	// ---- C06 / C01
	variant(Variant{"C06", "sync-clocks-no-increment", "pkg/document/change/id.go", "\tlamport := max(id.lamport, other.lamport) + 1\n\n\t// NOTE", "\tlamport := max(id.lamport, other.lamport)\n\n\t// NOTE", "K.id"})
	variant(Variant{"C06", "set-clocks-in-place", "pkg/document/change/id.go", "\tversionVector := id.versionVector.DeepCopy()\n\tversionVector.Max(&vector)", "\tversionVector := id.versionVector\n\tversionVector.Max(&vector)", "A1"})
	variant(Variant{"C06", "min-vv-absent-skipped", "pkg/document/time/version_vector.go", "\t\t\t\tminValue = 0\n\t\t\t\tbreak", "\t\t\t\tcontinue", "K.vv"})
	variant(Variant{"C06", "compare-ignores-delimiter", "pkg/document/time/ticket.go", "\tif t.delimiter > other.delimiter {\n\t\treturn 1\n\t} else if t.delimiter < other.delimiter {\n\t\treturn -1\n\t}", "", "K.compare"})
	variant(Variant{"C06", "equal-to-or-after-flipped", "pkg/document/time/version_vector.go", "return clientLamport >= other.lamport", "return clientLamport <= other.lamport", "K.vv"})
	variant(Variant{"C01", "move-lww-flipped", crdt + "rga_tree_list.go", "if entry.posMovedAt != nil && !executedAt.After(entry.posMovedAt) {", "if entry.posMovedAt != nil && executedAt.After(entry.posMovedAt) {", "O2.lww"})
	variant(Variant{"C01", "rga-skip-flipped", crdt + "rga_tree_list.go", "for node.next != nil && node.next.PositionedAt().After(executedAt) {", "for node.next != nil && executedAt.After(node.next.PositionedAt()) {", "O2.rga"})
	variant(Variant{"C01", "rga-skip-by-element-ticket", crdt + "rga_tree_list.go", "for node.next != nil && node.next.PositionedAt().After(executedAt) {", "for node.next != nil && node.next.CreatedAt().After(executedAt) {", "O2.rga"})
	variant(Variant{"C01", "text-tombstone-overwrite-when-known", crdt + "rga_tree_split.go", "\tif !tombstoneKnown && removedAt.After(s.removedAt) {\n\t\ts.removedAt = removedAt\n\t}\n\treturn false\n}\n\n// canStyle", "\tif removedAt.After(s.removedAt) {\n\t\ts.removedAt = removedAt\n\t}\n\treturn false\n}\n\n// canStyle", "O2.lww"})
	variant(Variant{"C01", "object-lww-by-createdAt", crdt + "element_rht.go", "if !ok || executedAt.After(PositionedAt(node.elem)) {", "if !ok || executedAt.After(node.elem.CreatedAt()) {", "O2.lww"})
	variant(Variant{"C01", "primitive-remove-flipped", crdt + "primitive.go", "(p.removedAt == nil || removedAt.After(p.removedAt)) {", "(p.removedAt == nil || p.removedAt.After(removedAt)) {", "O2.lww"})
	// ---- C03
	variant(Variant{"C03", "cache-freshness-flipped", "server/packs/snapshot.go", "if doc == nil || serverSeq < doc.Checkpoint().ServerSeq {", "if doc == nil || serverSeq > doc.Checkpoint().ServerSeq {", "O2.cache"})
	variant(Variant{"C03", "purge-guard-negated", crdt + "root.go", "if vector.EqualToOrAfter(pair.Child.RemovedAt()) {", "if !vector.EqualToOrAfter(pair.Child.RemovedAt()) {", "O2.purge"})
	variant(Variant{"C03", "min-vv-from-response", pushpull, "be.DB.UpdateMinVersionVector(ctx, clientInfo, docInfo.RefKey(), reqPack.VersionVector)", "be.DB.UpdateMinVersionVector(ctx, clientInfo, docInfo.RefKey(), resPack.VersionVector)", "VV.server"})
	variant(Variant{"C03", "vv-row-kept-on-detach", memdb, "\tif !isAttached {\n\t\tif _, err = txn.DeleteAll(", "\tif !isAttached && versionVector == nil {\n\t\tif _, err = txn.DeleteAll(", "VV.server"})
	// ---- C08
	variant(Variant{"C08", "schema-failure-keeps-clone", doc, "\t\t\td.cloneRoot = nil\n\t\t\td.clonePresences = nil\n\t\t\treturn fmt.Errorf(\"%w: %s\", ErrSchemaValidationFailed", "\t\t\treturn fmt.Errorf(\"%w: %s\", ErrSchemaValidationFailed", "O5.clone"})
	variant(Variant{"C08", "push-stacks-swapped", doc, "\t\tif isUndo {\n\t\t\td.history.PushRedo(reverse)\n\t\t} else {\n\t\t\td.history.PushUndo(reverse)\n\t\t}", "\t\tif !isUndo {\n\t\t\td.history.PushRedo(reverse)\n\t\t} else {\n\t\t\td.history.PushUndo(reverse)\n\t\t}", "O1.history"})
	variant(Variant{"C08", "gc-document-only", doc, "\tif !d.options.DisableGC && !hasSnapshot {\n\t\td.GarbageCollect(pack.VersionVector)\n\t}", "\tif !d.options.DisableGC && !hasSnapshot {\n\t\td.doc.GarbageCollect(pack.VersionVector)\n\t}", "O1.update"})
	variant(Variant{"C08", "add-without-copy", "pkg/document/operations/add.go", "\tvalue, err := o.value.DeepCopy()\n\tif err != nil {\n\t\treturn ExecutionResult{}, err\n\t}", "\tvalue := o.value\n\tvar err error", "A5.copy"})
	// ---- C09
	variant(Variant{"C09", "tree-mergedAt-not-encoded", "api/converter/to_bytes.go", "\tif treeNode.MergedAt != nil {\n\t\tpbNode.MergedAt = ToTimeTicket(treeNode.MergedAt)\n\t}", "", "S3"})
	variant(Variant{"C09", "text-attr-tombstone-not-decoded", "api/converter/from_bytes.go", "attrs.SetInternal(key, pbAttr.Value, updatedAt, pbAttr.IsRemoved)", "attrs.SetInternal(key, pbAttr.Value, updatedAt, false)", "S2"})
	variant(Variant{"C09", "checkpoint-nil-check-weakened", "api/converter/from_pb.go", "\tif pbPack.Checkpoint == nil {", "\tif pbPack.Checkpoint == nil && len(pbPack.Changes) > 100000 {", "N1"})
	variant(Variant{"C09", "integer-length-guard-weakened", crdt + "primitive.go", "\t\tif len(value) < 4 {\n\t\t\treturn nil, fmt.Errorf(\"invalid integer", "\t\tif len(value) < 3 {\n\t\t\treturn nil, fmt.Errorf(\"invalid integer", "N2"})
	variant(Variant{"C09", "slot-position-from-element-identity", "api/converter/to_bytes.go", "\t\t\tpbNode.PositionCreatedAt = ToTimeTicket(rgaNode.PositionCreatedAt())", "\t\t\tpbNode.PositionCreatedAt = ToTimeTicket(rgaNode.CreatedAt())", "S2.name"})
	// ---- C10
	variant(Variant{"C10", "content-mismatch-only-logged", "server/packs/compaction.go", "\tif prevMarshalled != newMarshalled {\n\t\treturn fmt.Errorf(\"content mismatch after rebuild: %s\", docInfo.ID)\n\t}", "\tif prevMarshalled != newMarshalled {\n\t\tlogging.DefaultLogger().Warnf(\"content mismatch after rebuild: %s\", docInfo.ID)\n\t}", "CMP.order"})
	variant(Variant{"C10", "epoch-mismatch-one-sided", pushpull, "\t\tepochMismatch := clientDocInfo != nil && clientDocInfo.Epoch != currentDocInfo.Epoch", "\t\tepochMismatch := clientDocInfo != nil && clientDocInfo.Epoch > currentDocInfo.Epoch", "O3.epoch"})
	variant(Variant{"C10", "epoch-not-increased", memdb, "\tloadedDocInfo.Epoch++\n\tloadedDocInfo.CompactedAt = now", "\tloadedDocInfo.CompactedAt = now", "DB.compact"})
	// ---- C12
	variant(Variant{"C12", "snapshot-keeps-presences", pushpull, "\tif opts.DisablePresence {\n\t\tdoc.ResetPresences()\n\t\tpresences = nil\n\t}", "\tif opts.DisablePresence {\n\t\tdoc.ResetPresences()\n\t}", "P.strip"})
	variant(Variant{"C12", "presence-cleared-on-shared-object", pushpull, "\t\t\tpulledChange = pulledChange.DeepCopy()\n", "\t\t\tpulledChange = pulledChange\n", "P.strip"})
	variant(Variant{"C12", "strip-keeps-presence", "server/packs/strip.go", "\t\t\tif !c.HasOperations() {\n\t\t\t\tcontinue\n\t\t\t}\n\t\t\tc.SetPresenceChange(nil)", "\t\t\tif !c.HasOperations() {\n\t\t\t\tcontinue\n\t\t\t}", "P.strip"})
	// ---- C13
	variant(Variant{"C13", "doc-lookup-project-check-weakened", memdb, "\tdocInfo := raw.(*database.DocInfo)\n\tif docInfo.ProjectID != refKey.ProjectID {\n\t\treturn nil, fmt.Errorf(\"find document of %s: %w\", refKey.DocID, database.ErrDocumentNotFound)\n\t}\n\n\treturn docInfo.DeepCopy(), nil", "\tdocInfo := raw.(*database.DocInfo)\n\tif docInfo.ProjectID != refKey.ProjectID && !docInfo.RemovedAt.IsZero() {\n\t\treturn nil, fmt.Errorf(\"find document of %s: %w\", refKey.DocID, database.ErrDocumentNotFound)\n\t}\n\n\treturn docInfo.DeepCopy(), nil", "T3"})
	variant(Variant{"C13", "revision-check-and-instead-of-or", "server/rpc/yorkie_server.go", "\tif revision.ProjectID != project.ID || revision.DocID != docInfo.ID {\n\t\treturn nil, fmt.Errorf(\"get revision %s: %w\", revisionID, database.ErrRevisionNotFound)", "\tif revision.ProjectID != project.ID && revision.DocID != docInfo.ID {\n\t\treturn nil, fmt.Errorf(\"get revision %s: %w\", revisionID, database.ErrRevisionNotFound)", "T2"})
	variant(Variant{"C13", "empty-cluster-secret-accepted", "server/rpc/interceptors/cluster.go", "\tif subtle.ConstantTimeCompare([]byte(secret), []byte(i.clusterSecret)) != 1 {", "\tif secret != \"\" && subtle.ConstantTimeCompare([]byte(secret), []byte(i.clusterSecret)) != 1 {", "T4"})
	// ---- C14 / C15
	variant(Variant{"C14", "remove-never-skipped", "pkg/document/operations/remove.go", "\tif source == OpSourceUndoRedo && isRemovedOrOrphaned(root, target) {", "\tif source == OpSourceUndoRedo && isRemovedOrOrphaned(root, target) && false {", "S6"})
	variant(Variant{"C15", "add-without-copy", "pkg/document/operations/add.go", "\tvalue, err := o.value.DeepCopy()\n\tif err != nil {\n\t\treturn ExecutionResult{}, err\n\t}", "\tvalue := o.value\n\tvar err error", "A5.copy"})
	// ---- C16
	variant(Variant{"C16", "cached-doc-used-directly", "server/packs/snapshot.go", "\t\tdoc, err = cached.DeepCopy()\n\t\tif err != nil {\n\t\t\treturn nil, err\n\t\t}", "\t\tdoc = cached", "O2.cache"})
	// ---- C17
	variant(Variant{"C17", "close-not-idempotent", "server/backend/pubsub/subscription.go", "\tif !s.closed {\n\t\ts.closed = true\n\t\tclose(s.events)\n\t}", "\ts.closed = true\n\tclose(s.events)", "L6"})
	variant(Variant{"C17", "closed-read-before-lock", "server/backend/pubsub/subscription.go", "\ts.mu.Lock()\n\tdefer s.mu.Unlock()\n\n\tif s.closed {\n\t\treturn false\n\t}", "\tif s.closed {\n\t\treturn false\n\t}\n\ts.mu.Lock()\n\tdefer s.mu.Unlock()", "L5"})
	variant(Variant{"C17", "no-flush-on-close", "server/backend/pubsub/batch_publisher.go", "\t\tcase <-bp.closeChan:\n\t\t\tbp.publish()\n\t\t\treturn", "\t\tcase <-bp.closeChan:\n\t\t\treturn", "PS.map"})
	variant(Variant{"C17", "publish-only-for-operations", pushpull, "\tif len(pushedChanges) > 0 || reqPack.IsRemoved {\n\t\tbe.Go(", "\tif (len(pushedChanges) > 0 && reqPack.OperationsLen() > 0) || reqPack.IsRemoved {\n\t\tbe.Go(", "O6"})
	// ---- C18
	variant(Variant{"C18", "object-key-not-quoted", "pkg/document/yson/yson.go", "pairs = append(pairs, fmt.Sprintf(`%s:%s`, strconv.Quote(key), marshalled))", "pairs = append(pairs, fmt.Sprintf(`\"%s\":%s`, key, marshalled))", "S5"})
	// ---- C20
	variant(Variant{"C20", "ranges-recorded-after-loop", "server/backend/database/mongo/changestore.go", "\t\ts.ranges = mergeAdjacentRanges(append(s.ranges, r))\n\t}\n\n\treturn nil\n}\n\n// ExpandRange", "\t}\n\ts.ranges = mergeAdjacentRanges(append(s.ranges, missingRanges...))\n\n\treturn nil\n}\n\n// ExpandRange", "CS.ensure"})
	// ---- C07
	variant(Variant{"C07", "move-without-weight-refresh", crdt + "rga_tree_list.go", "\toldPosNode.removedAt = executedAt\n\ta.nodeMapByIndex.UpdateWeight(oldPosNode.indexNode)", "\toldPosNode.removedAt = executedAt", "W.live"})
	variant(Variant{"C07", "removed-text-node-has-length", crdt + "rga_tree_split.go", "\tif s.removedAt != nil {\n\t\treturn 0\n\t}\n\treturn s.contentLen()", "\treturn s.contentLen()", "W.live"})
	// ---- C05
	variant(Variant{"C05", "dedup-off-by-one", pushpull, "if cn.ID().ClientSeq() <= cpBeforePush.ClientSeq {\n\t\t\tlogging", "if cn.ID().ClientSeq() < cpBeforePush.ClientSeq {\n\t\t\tlogging", "O2.dedup"})
	// ---- C02 / C19
	variant(Variant{"C02", "cache-freshness-flipped", "server/packs/snapshot.go", "if doc == nil || serverSeq < doc.Checkpoint().ServerSeq {", "if doc == nil || serverSeq > doc.Checkpoint().ServerSeq {", "O2.cache"})
	variant(Variant{"C19", "tree-tombstone-overwrite-when-known", crdt + "tree.go", "\tif !tombstoneKnown && removedAt.After(n.removedAt) {\n\t\treturn true\n\t}", "\tif removedAt.After(n.removedAt) {\n\t\treturn true\n\t}", "O2.lww"})
	// ---- round-3 rules
	variant(Variant{"C14", "reverse-length-in-runes", "pkg/document/operations/edit.go", "len(utf16.Encode([]rune(e.content)))", "len([]rune(e.content))", "U16"})
	variant(Variant{"C09", "span-length-in-bytes", "api/converter/from_pb.go", "if int(pbSpan.End-pbSpan.Start) != len(utf16.Encode([]rune(pbSpan.Content))) {", "if int(pbSpan.End-pbSpan.Start) != len(pbSpan.Content) {", "U16"})
	variant(Variant{"C05", "memdb-empty-push-returns-zero-checkpoint", memdb, "\tinitialServerSeq := docInfo.ServerSeq\n\n\tfor _, cn := range changes {\n\t\tserverSeq := docInfo.IncreaseServerSeq()", "\tinitialServerSeq := docInfo.ServerSeq\n\tif len(changes) == 0 && !isRemoved {\n\t\treturn docInfo, change.InitialCheckpoint, nil\n\t}\n\n\tfor _, cn := range changes {\n\t\tserverSeq := docInfo.IncreaseServerSeq()", "CP.flow"})
	variant(Variant{"C05", "snapshot-pull-applies-whole-request", pushpull, "\t\t\tpushedChanges,\n\t\t\tnil,\n\t\t\tnil,", "\t\t\treqPack.Changes,\n\t\t\tnil,\n\t\t\tnil,", "O2.dedup"})
	variant(Variant{"C19", "remove-style-without-vector", "pkg/document/operations/tree_style.go", "e.from, e.to, e.attributesToRemove, e.executedAt, versionVector,", "e.from, e.to, e.attributesToRemove, e.executedAt, nil,", "VV.pass"})
	variant(Variant{"C19", "merge-without-knowledge", crdt + "tree.go", "\t\t\t\tif ticketKnown(versionVector, node.id.CreatedAt) {\n\t\t\t\t\ttoBeMergedNodes = append(toBeMergedNodes, node)", "\t\t\t\tif node != nil {\n\t\t\t\t\ttoBeMergedNodes = append(toBeMergedNodes, node)", "VIS.collect"})
	variant(Variant{"C19", "insert-before-off-by-one", "pkg/index/tree.go", "\tif err := n.insertAtInternal(newNode, offset); err != nil {\n\t\treturn err\n\t}\n\n\tnewNode.UpdateAncestorsLength(newNode.PaddedLength())\n\tnewNode.UpdateAncestorsLength(newNode.PaddedLength(true), true)\n\n\treturn nil\n}\n\n// InsertAfter", "\tif err := n.insertAtInternal(newNode, offset+1); err != nil {\n\t\treturn err\n\t}\n\n\tnewNode.UpdateAncestorsLength(newNode.PaddedLength())\n\tnewNode.UpdateAncestorsLength(newNode.PaddedLength(true), true)\n\n\treturn nil\n}\n\n// InsertAfter", "IDX.pos"})
	variant(Variant{"C15", "remove-skip-guard-on-container", "pkg/document/operations/remove.go", "if source == OpSourceUndoRedo && isRemovedOrOrphaned(root, target) {", "if source == OpSourceUndoRedo && isRemovedOrOrphaned(root, parentElem) {", "S7.skip"})
	variant(Variant{"C14", "reconcile-undo-stack-only", "pkg/document/history.go", "\treplace(h.undoStack)\n\treplace(h.redoStack)\n}\n\n// ReconcileTextEdit", "\treplace(h.undoStack)\n}\n\n// ReconcileTextEdit", "HIST.sym"})
	variant(Variant{"C18", "yson-tree-attrs-with-tombstones", "pkg/document/yson/to_yson.go", "\t\t\tattrs = crdtNode.Attrs.Elements()", "\t\t\tattrs = make(map[string]string)\n\t\t\tfor _, attr := range crdtNode.Attrs.Nodes() {\n\t\t\t\tattrs[attr.Key()] = attr.Value()\n\t\t\t}", "YSON.live"})
	variant(Variant{"C08", "text-node-copy-shares-value", crdt + "rga_tree_split.go", "\t\tvalue:     s.value.DeepCopy().(V),", "\t\tvalue:     s.value,", "DC.deep"})
	variant(Variant{"C08", "load-or-store-hands-out-shared-presence", "pkg/document/presence/inner/presence.go", "\tif actual, ok := m.presences[clientID]; ok {\n\t\tpresence = actual\n\t}\n", "\tif actual, ok := m.presences[clientID]; ok {\n\t\treturn actual\n\t}\n", "P.cow"})
	variant(Variant{"C08", "presence-store-without-copy-on-write", "pkg/document/presence/inner/presence.go", "\tm.presences[clientID] = presence.DeepCopy()\n}", "\tm.presences[clientID] = presence\n}", "P.cow"})
	variant(Variant{"C20", "cached-range-marked-beyond-its-end", "server/backend/database/mongo/changestore.go", "\t\tend := min(fr.To, to)", "\t\tend := max(fr.To, to)", "CS.ensure"})
	variant(Variant{"C07", "moved-slot-liveness-after-insertion", crdt + "rga_tree_list.go", "\tnode := newBarePositionNode(posCreatedAt)\n\tnode.elementEntry = entry\n\tentry.positionNode = node\n\n\tprevNode := a.last\n\tinsertNodeAfter(prevNode, node)\n\ta.last = node\n\n\ta.nodeMapByIndex.InsertAfter(prevNode.indexNode, node.indexNode)\n", "\tnode := newBarePositionNode(posCreatedAt)\n\n\tprevNode := a.last\n\tinsertNodeAfter(prevNode, node)\n\ta.last = node\n\n\ta.nodeMapByIndex.InsertAfter(prevNode.indexNode, node.indexNode)\n\tnode.elementEntry = entry\n\tentry.positionNode = node\n", "W.live"})
	variant(Variant{"C09", "primitive-operand-without-type", "api/converter/to_pb.go", "\tcase *crdt.Counter:\n\t\tpbCounterType, err := toCounterType(elem.ValueType())\n\t\tif err != nil {\n\t\t\treturn nil, err\n\t\t}\n\t\tcounterValue, err := elem.Bytes()", "\tcase *crdt.Counter:\n\t\tpbCounterType, err := toCounterType(crdt.IntegerCnt)\n\t\tif err != nil {\n\t\t\treturn nil, err\n\t\t}\n\t\tcounterValue, err := elem.Bytes()", "S3.value"})
	variant(Variant{"C09", "zstd-header-not-stripped", "server/backend/database/snapshot_encoding.go", "dec.DecodeAll(data[1:], nil)", "dec.DecodeAll(data, nil)", "Z.snap"})
	variant(Variant{"C09", "legacy-snapshot-dropped", "server/backend/database/snapshot_encoding.go", "\tif data[0] != SnapshotFormatZstd {\n\t\treturn data, nil\n\t}", "\tif data[0] != SnapshotFormatZstd {\n\t\treturn nil, nil\n\t}", "Z.snap"})
	variant(Variant{"C02", "external-body-flag-off-by-one", memdb, "\t\tHasExternalBody: hasExternalBody,\n\t\tCreatedAt:       gotime.Now(),\n\t}); err != nil {\n\t\treturn fmt.Errorf(\"create snapshot of", "\t\tHasExternalBody: len(compressed) >= database.SnapshotBodyThreshold,\n\t\tCreatedAt:       gotime.Now(),\n\t}); err != nil {\n\t\treturn fmt.Errorf(\"create snapshot of", "Z.snap"})
	variant(Variant{"C14", "retombstone-removed-pieces-too", crdt + "rga_tree_split.go", "\t\tfor _, piece := range pieces {\n\t\t\tif piece.removedAt != nil {\n\t\t\t\tcontinue\n\t\t\t}\n\t\t\tpieceStart := piece.ID().Offset()", "\t\tfor _, piece := range pieces {\n\t\t\tpieceStart := piece.ID().Offset()", "RST"})
	variant(Variant{"C14", "tree-restore-revives-live-pieces", crdt + "tree.go", "\t\t\t\tif target.IsRemoved() {\n\t\t\t\t\ttarget.unremove()\n\t\t\t\t\tuntombstoned = append(untombstoned, target)\n\t\t\t\t}\n\t\t\t\tcursor = overlapEnd", "\t\t\t\ttarget.unremove()\n\t\t\t\tuntombstoned = append(untombstoned, target)\n\t\t\t\tcursor = overlapEnd", "RST"})
	variant(Variant{"C14", "recreated-text-under-undo-ticket", crdt + "rga_tree_split.go", "\t\t\t\t\tNewRGATreeSplitNodeID(span.createdAt, cursor), val)", "\t\t\t\t\tNewRGATreeSplitNodeID(executedAt, cursor), val)", "RST"})
	variant(Variant{"C12", "detach-pack-before-clear", "client/client.go", "\tif err := d.Update(func(r *json.Object, p *document.Presence) error {\n\t\tp.Clear()\n\t\treturn nil\n\t}); err != nil {\n\t\treturn err\n\t}\n\n\tpbChangePack, err := converter.ToChangePack(d.CreateChangePack())", "\tpbChangePack, err := converter.ToChangePack(d.CreateChangePack())\n\tif err := d.Update(func(r *json.Object, p *document.Presence) error {\n\t\tp.Clear()\n\t\treturn nil\n\t}); err != nil {\n\t\treturn err\n\t}", "P.client"})
	variant(Variant{"C07", "treelist-rotation-recompute-order", "pkg/treelist/treelist.go", "\tupdateNode(node)\n\tupdateNode(right)\n\treturn right", "\tupdateNode(right)\n\tupdateNode(node)\n\treturn right", "W.treelist"})
	variant(Variant{"C07", "treelist-insert-by-live-weight", "pkg/treelist/treelist.go", "\tif index <= node.leftCount() {\n\t\tnode.left = t.insertByCount(node.left, index, newNode)", "\tif index <= node.leftWeight() {\n\t\tnode.left = t.insertByCount(node.left, index, newNode)", "W.treelist"})
}
