package rules

func init() {
	property(&Property{ID: "C09",
		Rules:       []string{"S1", "S2", "S3", "N3", "N1", "N2"},
		Explanation: "tbd",
		Assumptions: []string{"tbd"},
	})
	property(&Property{ID: "C08",
		Rules:       []string{"O5.clone", "O1.update", "O2.trim", "O1.history"},
		Explanation: "tbd",
		Assumptions: []string{"tbd"},
	})
	property(&Property{ID: "C01",
		Rules:       []string{"K.compare", "O2.lww", "O2.rga", "A1", "K.id"},
		Explanation: "tbd",
		Assumptions: []string{"tbd"},
	})
	property(&Property{ID: "C03",
		Rules:       []string{"O2.purge", "VV.server", "K.vv", "O2.cache"},
		Explanation: "tbd",
		Assumptions: []string{"tbd"},
	})
	property(&Property{ID: "C06",
		Rules:       []string{"K.id", "A1", "K.vv", "K.compare"},
		Explanation: "tbd",
		Assumptions: []string{"tbd"},
	})
	property(&Property{ID: "C11",
		Rules:       []string{"O2.state", "O3.attach", "O2.removed", "O1.deactivate"},
		Explanation: "tbd",
		Assumptions: []string{"tbd"},
	})
	property(&Property{ID: "C04",
		Rules:       []string{"A4.log", "L4a", "L4b", "O2.dedup", "O2.own", "PULL.range", "O1.pipeline", "L3", "L8", "DB.append"},
		Explanation: "tbd",
		Assumptions: []string{"tbd"},
	})
	property(&Property{ID: "C16",
		Rules:       []string{"L1", "L2", "L3"},
		Explanation: "tbd",
		Assumptions: []string{"tbd"},
	})
}
