package rules

// Property definitions: which rules decide which structural clauses of each
// property, and what is — stated plainly — not decided.

var commonAssumptions = []string{
	"the analysed program is the production code of ./... of /repo's working tree under the default build tags (no build-tagged non-test files exist); _test.go files and the helper packages test/... and */testcases are out of scope",
	"rules are path-insensitive: a guard counts only if it cuts every CFG path to the site; dataflow is per function with explicit summaries where stated",
	"call resolution: static callees, interface calls resolved to every implementing type of the module (quick) or VTA (thorough); calls through other function values are followed only for closures passed as arguments",
	"no code is executed: value-level arithmetic, the merge algorithms proper and timing are not decided",
}

func init() {
	property(&Property{ID: "C14",
		Rules: []string{"REV", "S6", "O1.history", "O5.clone"},
		Explanation: "tbd",
		Assumptions: commonAssumptions,
	})
	property(&Property{ID: "C15",
		Rules: []string{"S7", "A5.copy", "O1.update", "O1.history"},
		Explanation: "tbd",
		Assumptions: commonAssumptions,
	})
	property(&Property{ID: "C18",
		Rules: []string{"S5", "S1.yson", "S1", "N3", "CMP.order"},
		Explanation: "Decides the escaping and dispatch structure of the YSON writer/reader, not the equality of round-tripped values. Decided: every dynamic string the writer interpolates is quoted (S5); the writer's primitive types, the importer's cases and crdt.NewPrimitive agree, every element kind is written, imported and parsed, every constructor the writer emits has a reader case (S1.yson, S1); no unchecked type assertion in the parse closure (N3); compaction compares the rebuilt content before replacing the log (CMP.order). Known findings (genuine, recorded, not repaired): the reader rewrites the whole input textually before tokenising, so constructor-like text and ')' inside string literals are corrupted (F8b), and a user object with a string member \"type\" is read as a typed value (F8d). Not decided: numeric round-trip (float64 vs int), dedup-counter state (F19).",
		Assumptions: commonAssumptions,
	})
	property(&Property{ID: "C20",
		Rules: []string{"CS.ensure", "CS.mongo", "L5", "O2.cache", "L4c"},
		Explanation: "Decides the bookkeeping structure of the caches, not the range arithmetic. Decided: ChangeStore fetches exactly the ranges calcMissingRanges returned for the requested interval, records a range only after its fetch succeeded, inserts what it fetched, scans [from, to] in ServerSeq order, merges adjacent ranges with To = max, and skips a cached range only when it does not overlap (CS.ensure); ranges and tree are touched only under the store's mutex (L5); the rebuilt-document cache is used only when not newer than requested, hands out and stores deep copies (O2.cache) and is populated only under the document lock, so compaction's invalidation cannot be overtaken (L4c); every MongoDB method that writes a cached collection touches the bound cache (CS.mongo — analysed only, MongoDB cannot run here). Not decided: calcMissingRanges/mergeAdjacentRanges arithmetic beyond the listed relations; LRU expiry.",
		Assumptions: commonAssumptions,
	})
	property(&Property{ID: "C17",
		Rules: []string{"L5", "L6", "PS.map", "O6"},
		Explanation: "Decides the locking and ordering structure of subscribe/publish/unsubscribe, not bounded-time delivery. Decided: every access to the closed flag, the failure counter and every send/close on a subscription's channel is made under the subscription's mutex, the pending batch under the publisher's mutex, the map shards under their locks (L5); sends and closes happen only when not closed and closes mark closed first, the publisher is closed exactly once from inside the map's delete callback (L6); a new subscription is registered inside the Upsert callback and the set is removed and closed only inside the Delete callback when it exists and is empty — the lost-wakeup window between the last unsubscribe and a new subscribe is closed structurally; the publisher flushes on tick and before it exits (PS.map); every request that stored changes starts the goroutine that publishes DocChanged (O6). Observation, not a violation of the schedule-only quantifier: a pull error after a successful push returns before the publish. Not decided: delivery within a bound, stalled-consumer timing.",
		Assumptions: commonAssumptions,
	})
	property(&Property{ID: "C13",
		Rules: []string{"T1", "T2", "T3", "T4"},
		Explanation: "Decides who resolves the project, where it flows and where it filters, not the outcome of webhook-based authorisation. Decided: every call of the wrapped handler in the three service interceptors is reachable only past that service's authentication (API key → project for Yorkie, token/secret for Admin with exactly four exempt procedures, constant-time cluster secret for Cluster) (T4); in every SDK-facing handler each project component of a ref key and each projectID argument comes from the project the interceptor put in the context, never from a request field (T1); records fetched by bare id (revisions, invites — computed from the Database interface) are compared with the caller's project, and revisions also with the authorised document, before any success (T2); every memory-backend Database method with a project-scoping parameter filters by it (comparison, CheckIfInProject, index argument, stored ProjectID), with the document-id-keyed secondary tables exempt by name and their call sites checked to pass a resolved record's key (T3). Not decided: the MongoDB backend's filters (analysable but not reproducible here), per-document authorisation webhooks.",
		Assumptions: commonAssumptions,
	})
	property(&Property{ID: "C12",
		Rules: []string{"P.strip", "P.flag", "O1.pipeline"},
		Explanation: "Decides where presence is stripped and where the flag comes from, not the equality of presence maps over histories. Decided: with DisablePresence set every path to the log append passes the strip, whose result is what is pushed; the strip drops presence-only changes and clears presence on mixed ones; pulled changes go out with presence only for documents that allow it, cleared on a copy otherwise; snapshots (pulled and stored) carry no presence for presenceless documents (P.strip); every PushPullOptions takes the flag from the persisted DocInfo; presence rides in the ordered change and is applied for the author, deleted on Clear; the server-side detach clears presence first (P.flag); validation ≺ strip ≺ push (O1.pipeline). Not decided: convergence of presence maps (it follows the change order, C04), the client SDK's own detach.",
		Assumptions: commonAssumptions,
	})
	property(&Property{ID: "C10",
		Rules: []string{"L4c", "CMP.order", "DB.compact", "O3.epoch", "L8", "A4.log"},
		Explanation: "Decides the exclusion, ordering and epoch structure of compaction. Decided: Compact/Purge run under the exclusive document lock and everything that reads the log to write derived state (rebuilds that populate the snapshot cache, snapshot rows, revisions) holds the document lock (L4c); the reset happens only for a non-attached document or under force, never after a content mismatch, after cache invalidation, conditional on the head the rebuild saw (CMP.order); purge, compacted change, epoch+1 and compare-and-set are one committed transaction (DB.compact, L8); only packs.Compact and documents.CreateDocument reset the log (A4.log); stale-epoch changes never reach the log, stale pulls return ErrEpochMismatch, the detach/remove exception is taken only for that sentinel (O3.epoch). Not decided: that the YSON rebuild preserves content for every document (C18) — known finding F19 shows it does not for dedup counters.",
		Assumptions: commonAssumptions,
	})
	property(&Property{ID: "C01",
		Rules: []string{"K.compare", "O2.lww", "O2.rga", "A1", "K.id", "O1.history", "O1.update"},
		Explanation: "Decides structural necessary conditions of convergence, not convergence itself. Decided: the ticket order is total and uses every identity component of both operands with the documented polarity (K.compare); every last-writer-wins register (element/text-node/tree-node removal, object key slots, attribute slots, the array position register) is written only on an edge where the incoming ticket is after the stored stamp or the slot is empty, with the visibility preconditions (creation known, tombstone unknown) in place (O2.lww); the RGA skip loops continue exactly while the neighbour's ticket is after the inserting one (O2.rga); version vectors of already-created changes are never mutated in place (A1, K.id); every operation is executed with the version vector of its own change and remote changes are executed on clone and document in pack order (O1.history, O1.update). Not decided: that the merge functions commute (the CRDT algorithms themselves), array-move/counter/text/tree interleavings, byte-identical marshalling.",
		Assumptions: commonAssumptions,
	})
	property(&Property{ID: "C03",
		Rules: []string{"O2.purge", "VV.server", "K.vv", "O2.cache", "ANCHOR"},
		Explanation: "Decides the guards and data provenance that make purging safe, not the equality of histories with GC on and off. Decided: both Purge sites of Root.GarbageCollect sit on the true edge of minVector.EqualToOrAfter(removedAt of the very node being purged) (O2.purge); EqualToOrAfter is false for an absent actor and otherwise vector[actor] >= lamport, MinVersionVector writes 0 for a key any vector lacks and min otherwise (K.vv); the server stores the *request's* vector per client, deletes the row of a non-attached client, computes the minimum over the requester and every stored row without filter, and runs its own GC only with that minimum and only when enabled (VV.server); the server rebuild never uses a cache entry newer than requested (O2.cache); array operations created locally anchor on live positions and on position identities (ANCHOR). Not decided: that min-vector bookkeeping is right for every schedule; text/tree anchors.",
		Assumptions: commonAssumptions,
	})
	property(&Property{ID: "C04",
		Rules: []string{"A4.log", "L4a", "L4b", "O2.dedup", "O2.own", "PULL.range", "O1.pipeline", "L3", "L8", "DB.append"},
		Explanation: "Decides the serialisation, atomicity and filtering structure of the log, not the arithmetic of ranges under concurrency (that is what the locks are for; the rules check the locks). Decided: only the push function of server/packs appends to the log and only with the push lock held whenever the list may be non-empty, on a DocInfo re-read under that lock (A4.log, L4a); every PushPull caller holds the document lock and, for real clients, the per-(client,document) pull lock, in the documented order (L4b, L3); memdb assigns serverSeq only through IncreaseServerSeq once per change in input order, writes changes and document row in one committed transaction, compare-and-set on the initial ServerSeq (L8, DB.append); already-stored changes are dropped by ClientSeq > stored checkpoint and gaps are rejected (O2.dedup); own changes are filtered from pulls by (actor, ClientSeq <= checkpoint after push) (O2.own); the pulled range is (request checkpoint, head before own push] with the head computed from the DocInfo returned by the append (PULL.range); validate ≺ push ≺ pull ≺ status ≺ min-vector ≺ checkpoint persist ≺ success (O1.pipeline).",
		Assumptions: commonAssumptions,
	})
	property(&Property{ID: "C06",
		Rules: []string{"K.id", "A1", "K.vv", "K.compare", "VV.server"},
		Explanation: "Decides the shape of the clock producers and of the minimum-vector inputs. Decided: Next yields lamport+1 and SyncClocks/SyncLamport/SetClocks yield max(own, other)+1; the value stored at versionVector[own actor] is that same value; the updated vector is a DeepCopy of the receiver's and is the one returned; the other vector is merged exactly in SyncClocks/SetClocks; clientSeq is +1 in Next and preserved elsewhere (K.id); no in-place mutator is applied to a vector that is not fresh (A1); Max/MinVersionVector/EqualToOrAfter/MaxLamport kernels (K.vv); ticket order (K.compare); the minimum the server hands out is computed from the request vectors of all stored rows plus the requester (VV.server). Not decided: uniqueness of (lamport, actor) over histories.",
		Assumptions: commonAssumptions,
	})
	property(&Property{ID: "C08",
		Rules: []string{"O5.clone", "O1.update", "O2.trim", "O1.history"},
		Explanation: "Decides the all-or-nothing structure of Update and the clone/document lock-step. Decided: every failure exit after the updater ran (error, schema, size, panic) discards the clone; undo/redo discards the clone on every failure after the clone executed (O5.clone); the real root is executed only after the clone succeeded and the checks passed, with the same change; localChanges and changeID are committed together after the root execution succeeded; remote changes go to clone then document in the same iteration; GC purges both with the same vector; a snapshot discards the clone and replays unacknowledged local changes after trimming (O1.update); local changes are dropped only when acknowledged (O2.trim); history pushes/pops are on the right edges and carry the reverse of what was executed (O1.history). Not decided: that an Execute error on the real root after the clone succeeded cannot happen (same operations on equal state — value-level).",
		Assumptions: commonAssumptions,
	})
	property(&Property{ID: "C09",
		Rules: []string{"S1", "S2", "S3", "N3", "N1", "N2"},
		Explanation: "Decides encoder/decoder agreement and decoder robustness structurally. Decided: every dispatch over operation types, element types and protobuf oneofs has a case for every member (S1); for each of the data-plane message types reachable from ChangePack and Snapshot the set of fields written equals the set read, sibling builders and sibling decoders of one message agree (S2); every persistent field of the CRDT structs and operation structs is read by the encoder closure and written by the decoder closure or is in the derived table (S3); under the wire model no message pointer that may be nil is dereferenced without a dominating nil test (N1); fixed-width reads are length-guarded numerically (N2); no single-value type assertion on decoded data (N3). Not decided: semantic equality of decoded values; panics from arithmetic deep inside CRDT constructors; hangs.",
		Assumptions: append([]string{"wire model: after proto.Unmarshal elements of repeated fields, map values and oneof inner messages are non-nil; singular message fields, oneof bodies and entry-point arguments may be nil"}, commonAssumptions...),
	})
	property(&Property{ID: "C11",
		Rules: []string{"O2.state", "O3.attach", "O2.removed", "O1.deactivate", "VV.server"},
		Explanation: "Decides the guards of the lifecycle state machine, not its full accept/reject table. Decided: the Ensure* predicates succeed only for an activated client with an attached (or attaching) existing entry; Detach/Remove write the status only after the ensure succeeded; Attach writes only for an activated, not-already-attached/detached client; UpdateDocStatus dispatches by status (O2.state); inside PushPull nothing is stored unless the attachment check passed or the client is the server's own, ClientInfo values come from FindActiveClientInfo (O3.attach); a removed document takes no further change and every response carries the removed state (O2.removed); Deactivate detaches every attached/attaching document before DeactivateClient, and the backend refuses otherwise (O1.deactivate); the version-vector row of a non-attached client is deleted (VV.server).",
		Assumptions: commonAssumptions,
	})
	property(&Property{ID: "C16",
		Rules: []string{"L1", "L2", "L3", "L4a", "L4b", "L8"},
		Explanation: "Decides lock discipline structurally. Decided: every named-lock acquisition belongs to a known class and every key constructor depends on all of its parameters (L1); every acquisition is released with the matching kind on every exit (L2); the interprocedural may-hold/acquire graph embeds in doc < pull < attachment < push with snapshot/watchstream/housekeeping as leaves and no class re-acquired (L3) — under the stated assumptions this excludes lock-order deadlock among the named locks; the log append holds the push lock and PushPull callers hold doc and pull (L4a, L4b); memdb write transactions are aborted on early exit, committed on success, never nested (L8). Not decided: liveness under load, races on state outside the listed locks (the race detector's domain).",
		Assumptions: append([]string{"all blocking locks of the pipeline are the named classes, go-memdb's writer lock and the listed mutexes; goroutines started with go/Backend.Go/errgroup start with no locks held"}, commonAssumptions...),
	})
}
