package rules

func init() {
	property(&Property{ID: "C16",
		Rules: []string{"L1", "L2", "L3"},
		Explanation: "tbd",
		Assumptions: []string{"tbd"},
	})
}
